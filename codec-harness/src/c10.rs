// C10 - Slice encoding round-trips and matches the wire format.
// Every value goes through the real encoder (growable and fixed-slice targets) and the real decoder; the bytes are
// compared with the independent bit-level reference in refmodel.rs.

use crate::c11::{gen_val, Params};
use crate::real::ToVal;
use crate::refmodel::{self, Ty, Val};
use crate::util::{hex, parallel, Outcome, Rng};
use slice_codec::buffer::slice::SliceOutputTarget;
use slice_codec::buffer::{InputSource, OutputTarget};
use slice_codec::decoder::Decoder;
use slice_codec::encoder::Encoder;
use std::collections::{BTreeMap, HashMap};
use std::panic::{catch_unwind, AssertUnwindSafe};

fn fail(out: &mut Outcome, sig: &str, what: String) {
    out.violate(sig, what.clone(), format!("c10 {}", what));
}

macro_rules! roundtrip {
    ($out:expr, $name:expr, $ty:ty, $value:expr, $expected:expr, |$e:ident| $body:expr) => {{
        // $encode: |encoder| -> Result<()>, generic over the output target, expanded twice
        let out: &mut Outcome = $out;
        out.evaluations += 1;
        let expected: &[u8] = $expected;
        let r = catch_unwind(AssertUnwindSafe(|| {
            let mut problems: Vec<(String, String)> = Vec::new();
            // growable target
            let mut buf: Vec<u8> = Vec::new();
            {
                let mut encoder = Encoder::from(&mut buf);
                let $e = &mut encoder;
                let r: slice_codec::Result<()> = $body;
                if let Err(e) = r {
                    problems.push((format!("encode-failed:{}", $name), format!("{:?}", e)));
                }
            }
            if buf != expected {
                problems.push((format!("wire-format:{}", $name), format!("encoder wrote {}, reference {}", hex(&buf), hex(expected))));
            }
            // fixed-slice target of exactly the right size must give the same bytes and end full
            let mut exact = vec![0xAAu8; expected.len()].into_boxed_slice();
            {
                let mut encoder: Encoder<SliceOutputTarget> = Encoder::from(&mut exact[..]);
                let r: slice_codec::Result<()> = {
                    let $e = &mut encoder;
                    $body
                };
                match r {
                    Err(e) => problems.push((format!("slice-target-failed:{}", $name), format!("{:?}", e))),
                    Ok(()) => {
                        if encoder.remaining() != 0 {
                            problems.push((format!("slice-target-remaining:{}", $name), format!("remaining {}", encoder.remaining())));
                        }
                    }
                }
            }
            if &exact[..] != expected {
                problems.push((format!("slice-target-differs:{}", $name), format!("slice target holds {}, reference {}", hex(&exact), hex(expected))));
            }
            // one byte short: must fail (never write past the end, never truncate silently)
            if !expected.is_empty() {
                let mut short = vec![0xAAu8; expected.len() - 1].into_boxed_slice();
                let mut encoder: Encoder<SliceOutputTarget> = Encoder::from(&mut short[..]);
                let $e = &mut encoder;
                let r: slice_codec::Result<()> = $body;
                if r.is_ok() {
                    problems.push((format!("short-target-accepted:{}", $name), "encoding into a too-short slice succeeded".to_owned()));
                }
            }
            // decode what the encoder wrote
            let exact_in: Box<[u8]> = buf.as_slice().into();
            let mut decoder = Decoder::from(&exact_in[..]);
            match decoder.decode::<$ty>() {
                Ok(back) => {
                    if back.to_val() != $value.to_val() {
                        problems.push((format!("roundtrip-value:{}", $name), format!("decoded {:?} from {}", back.to_val(), hex(&buf))));
                    }
                    if decoder.remaining() != 0 {
                        problems.push((format!("roundtrip-remaining:{}", $name), format!("{} bytes left", decoder.remaining())));
                    }
                }
                Err(e) => problems.push((format!("roundtrip-decode-failed:{}", $name), format!("{:?} on {}", e, hex(&buf)))),
            }
            // the same bytes followed by other data (as inside any larger message): same value, exactly the written bytes consumed
            for extra in [1usize, 4, 8, 9] {
                if cfg!(miri) && extra != 8 {
                    continue;
                }
                let mut longer: Vec<u8> = buf.clone();
                longer.extend((0..extra).map(|i| 0xA5u8 ^ (i as u8)));
                let longer: Box<[u8]> = longer.into_boxed_slice();
                let mut decoder = Decoder::from(&longer[..]);
                match decoder.decode::<$ty>() {
                    Ok(back) => {
                        if back.to_val() != $value.to_val() {
                            problems.push((format!("embedded-value:{}", $name), format!("decoded {:?} from {} followed by {} more bytes", back.to_val(), hex(&buf), extra)));
                        }
                        if decoder.remaining() != extra {
                            problems.push((format!("embedded-consumed:{}", $name), format!("{} bytes left, {} expected", decoder.remaining(), extra)));
                        }
                    }
                    Err(e) => problems.push((format!("embedded-decode-failed:{}", $name), format!("{:?} on {} + {} bytes", e, hex(&buf), extra))),
                }
            }
            problems
        }));
        match r {
            Ok(problems) => {
                for (sig, what) in problems {
                    fail(out, &sig, format!("{} value {:?}: {}", $name, $value.to_val(), what));
                }
            }
            Err(_) => {
                let info = crate::take_last_panic().unwrap_or_default();
                fail(out, &format!("panic:{}", info), format!("{} value {:?}: panicked: {}", $name, $value.to_val(), info));
            }
        }
    }};
}

macro_rules! fixed {
    ($out:expr, $name:expr, $t:ty, $refty:expr, $v:expr) => {{
        let v: $t = $v;
        let expected = refmodel::encode(&$refty, &v.to_val()).unwrap();
        roundtrip!($out, $name, $t, v, &expected, |e| e.encode(v));
        // the borrowed impl must agree
        let mut b: Vec<u8> = Vec::new();
        let _ = Encoder::from(&mut b).encode(&v);
        if b != expected {
            fail($out, &format!("borrowed-impl-differs:{}", $name), format!("{:?}", v.to_val()));
        }
    }};
}

fn check_varint(out: &mut Outcome, v: i64, scratch: &mut Vec<u8>) {
    out.evaluations += 1;
    scratch.clear();
    let expected = refmodel::enc_varint(v as i128);
    let r = {
        let mut enc = Encoder::from(&mut *scratch);
        enc.encode_varint(v)
    };
    match (&r, &expected) {
        (Ok(()), Some(exp)) => {
            if scratch.as_slice() != exp.as_slice() {
                fail(out, "wire-format:varint", format!("encode_varint({}) wrote {}, reference {}", v, hex(scratch), hex(exp)));
                return;
            }
        }
        (Err(_), None) => {
            out.count("varint_refused", 1);
            if !scratch.is_empty() {
                fail(out, "refused-but-wrote:varint", format!("encode_varint({}) failed but wrote {}", v, hex(scratch)));
            }
            return;
        }
        (Ok(()), None) => {
            fail(out, "out-of-range-accepted:varint", format!("encode_varint({}) outside 62-bit range wrote {}", v, hex(scratch)));
            return;
        }
        (Err(e), Some(_)) => {
            fail(out, "in-range-refused:varint", format!("encode_varint({}) failed: {:?}", v, e));
            return;
        }
    }
    // decode into every width
    macro_rules! width {
        ($t:ty, $bits:expr) => {{
            let exact: Box<[u8]> = scratch.as_slice().into();
            let mut d = Decoder::from(&exact[..]);
            let r = d.decode_varint::<$t>();
            let fits = (v as i128) >= -(1i128 << ($bits - 1)) && (v as i128) < (1i128 << ($bits - 1));
            match r {
                Ok(x) => {
                    if !fits || x as i128 != v as i128 {
                        fail(out, concat!("varint-decode:", stringify!($t)), format!("decode_varint::<{}> of {} ({}) gave {}", stringify!($t), v, hex(scratch), x));
                    } else if d.remaining() != 0 {
                        fail(out, concat!("varint-remaining:", stringify!($t)), format!("{} bytes left after {}", d.remaining(), v));
                    }
                }
                Err(_) => {
                    if fits {
                        fail(out, concat!("varint-decode-refused:", stringify!($t)), format!("decode_varint::<{}> of {} failed", stringify!($t), v));
                    }
                }
            }
            if fits {
                // embedded in a longer buffer (3 / 8 more bytes): same value, same number of bytes consumed
                for extra in [3usize, 8] {
                    let mut longer: Vec<u8> = scratch.clone();
                    longer.extend((0..extra).map(|i| 0x5Au8 ^ (i as u8)));
                    let longer: Box<[u8]> = longer.into_boxed_slice();
                    let mut d = Decoder::from(&longer[..]);
                    match d.decode_varint::<$t>() {
                        Ok(x) if x as i128 == v as i128 && d.remaining() == extra => {}
                        other => fail(out, concat!("varint-embedded:", stringify!($t)),
                                      format!("decode_varint::<{}> of {} ({}) followed by {} bytes gave {:?}, {} left", stringify!($t), v, hex(scratch), extra, other.ok(), d.remaining())),
                    }
                }
            }
        }};
    }
    width!(i8, 8);
    width!(i16, 16);
    width!(i32, 32);
    width!(i64, 64);
}

fn check_varuint(out: &mut Outcome, v: u64, scratch: &mut Vec<u8>) {
    out.evaluations += 1;
    scratch.clear();
    let expected = refmodel::enc_varuint(v as u128);
    let r = {
        let mut enc = Encoder::from(&mut *scratch);
        enc.encode_varuint(v)
    };
    match (&r, &expected) {
        (Ok(()), Some(exp)) => {
            if scratch.as_slice() != exp.as_slice() {
                fail(out, "wire-format:varuint", format!("encode_varuint({}) wrote {}, reference {}", v, hex(scratch), hex(exp)));
                return;
            }
        }
        (Err(_), None) => {
            out.count("varuint_refused", 1);
            if !scratch.is_empty() {
                fail(out, "refused-but-wrote:varuint", format!("encode_varuint({}) failed but wrote {}", v, hex(scratch)));
            }
            return;
        }
        (Ok(()), None) => {
            fail(out, "out-of-range-accepted:varuint", format!("encode_varuint({}) outside 62-bit range wrote {}", v, hex(scratch)));
            return;
        }
        (Err(e), Some(_)) => {
            fail(out, "in-range-refused:varuint", format!("encode_varuint({}) failed: {:?}", v, e));
            return;
        }
    }
    macro_rules! width {
        ($t:ty, $bits:expr) => {{
            let exact: Box<[u8]> = scratch.as_slice().into();
            let mut d = Decoder::from(&exact[..]);
            let r = d.decode_varuint::<$t>();
            let fits = (v as u128) < (1u128 << $bits);
            match r {
                Ok(x) => {
                    if !fits || x as u128 != v as u128 {
                        fail(out, concat!("varuint-decode:", stringify!($t)), format!("decode_varuint::<{}> of {} gave {}", stringify!($t), v, x));
                    } else if d.remaining() != 0 {
                        fail(out, concat!("varuint-remaining:", stringify!($t)), format!("{} bytes left after {}", d.remaining(), v));
                    }
                }
                Err(_) => {
                    if fits {
                        fail(out, concat!("varuint-decode-refused:", stringify!($t)), format!("decode_varuint::<{}> of {} failed", stringify!($t), v));
                    }
                }
            }
            if fits {
                for extra in [3usize, 8] {
                    let mut longer: Vec<u8> = scratch.clone();
                    longer.extend((0..extra).map(|i| 0x5Au8 ^ (i as u8)));
                    let longer: Box<[u8]> = longer.into_boxed_slice();
                    let mut d = Decoder::from(&longer[..]);
                    match d.decode_varuint::<$t>() {
                        Ok(x) if x as u128 == v as u128 && d.remaining() == extra => {}
                        other => fail(out, concat!("varuint-embedded:", stringify!($t)),
                                      format!("decode_varuint::<{}> of {} ({}) followed by {} bytes gave {:?}, {} left", stringify!($t), v, hex(scratch), extra, other.ok(), d.remaining())),
                    }
                }
            }
        }};
    }
    width!(u8, 8);
    width!(u16, 16);
    width!(u32, 32);
    width!(u64, 64);
    // sizes use the same encoding
    if v % 997 == 0 {
        let mut b: Vec<u8> = Vec::new();
        let r = Encoder::from(&mut b).encode_size(v as usize);
        if r.is_err() || b != *scratch {
            fail(out, "size-differs-from-varuint", format!("encode_size({}) wrote {}", v, hex(&b)));
        }
        let exact: Box<[u8]> = b.as_slice().into();
        let mut d = Decoder::from(&exact[..]);
        if d.decode_size().ok() != Some(v as usize) {
            fail(out, "size-roundtrip", format!("decode_size of {}", v));
        }
    }
}

fn val_to_string(v: &Val) -> String {
    match v {
        Val::Str(s) => s.clone(),
        _ => unreachable!(),
    }
}

pub fn run(p: &Params) -> Outcome {
    let scale = p.scale.as_str();
    let thorough = p.tier == "thorough";
    let threads = if scale == "miri" { 1 } else { p.threads.max(1) };
    // sizes of the sweeps
    let (var_limit, var_stride, nrand, f32_all, ncoll): (u64, u64, u64, bool, u64) = match (scale, thorough) {
        ("native", false) => (1 << 30, 4099, 200_000, false, 2_000),
        ("native", true) => (1 << 30, 1, 1_000_000, true, 30_000),
        ("sanitizer", false) => (1 << 30, 2_000_003, 20_000, false, 300),
        ("sanitizer", true) => (1 << 30, 40_009, 200_000, false, 3_000),
        (_, false) => (1 << 30, 1 << 24, 40, false, 6), // miri
        (_, true) => (1 << 30, 1 << 21, 300, false, 40),
    };
    let shards = if scale == "miri" { p.shards.max(1) } else { threads };
    let total = parallel(threads, |ti| {
        let shard = if scale == "miri" { p.shard } else { ti };
        let mut out = Outcome::default();
        let mut rng = Rng::new(p.seed.wrapping_mul(7919).wrapping_add(shard as u64));
        let mut scratch: Vec<u8> = Vec::with_capacity(16);

        // ---- fixed width: all 8- and 16-bit values (shard 0 does the 8-bit ones)
        let small_step = if scale == "miri" { 97 } else { 1 };
        if shard == 0 {
            fixed!(&mut out, "bool", bool, Ty::Bool, false);
            fixed!(&mut out, "bool", bool, Ty::Bool, true);
            let mut i = 0u32;
            while i < 256 {
                fixed!(&mut out, "u8", u8, Ty::U8, i as u8);
                fixed!(&mut out, "i8", i8, Ty::I8, i as u8 as i8);
                i += if scale == "miri" { 17 } else { 1 };
            }
            out.count("exhaustive_8bit", 1);
        }
        let mut i = shard as u32 * small_step;
        while i < 65536 {
            fixed!(&mut out, "u16", u16, Ty::U16, i as u16);
            fixed!(&mut out, "i16", i16, Ty::I16, i as u16 as i16);
            i += shards as u32 * small_step * if scale == "miri" { 53 } else { 1 };
        }
        out.nontrivial += 0;

        // ---- wider fixed width: powers of two +-64, extremes, random
        let span: i128 = if scale == "miri" { 2 } else { 64 };
        if shard == 0 {
            for k in 0..=64u32 {
                let base: i128 = 1i128 << k;
                for d in -span..=span {
                    for sign in [1i128, -1] {
                        let v = sign * base + d;
                        if v >= 0 && v <= u32::MAX as i128 {
                            fixed!(&mut out, "u32", u32, Ty::U32, v as u32);
                        }
                        if v >= i32::MIN as i128 && v <= i32::MAX as i128 {
                            fixed!(&mut out, "i32", i32, Ty::I32, v as i32);
                        }
                        if v >= 0 && v <= u64::MAX as i128 {
                            fixed!(&mut out, "u64", u64, Ty::U64, v as u64);
                        }
                        if v >= i64::MIN as i128 && v <= i64::MAX as i128 {
                            fixed!(&mut out, "i64", i64, Ty::I64, v as i64);
                            // the same neighbourhoods through the variable-width encoders (incl. the refusal boundary)
                            check_varint(&mut out, v as i64, &mut scratch);
                        }
                        if v >= 0 && v <= u64::MAX as i128 {
                            check_varuint(&mut out, v as u64, &mut scratch);
                        }
                    }
                }
            }
            // floats: special values
            for bits in [0u32, 0x8000_0000, 0x7f80_0000, 0xff80_0000, 0x7fc0_0000, 0x7fa0_0001, 0xffff_ffff, 1, 0x007f_ffff, 0x0080_0000, 0x7f7f_ffff, 0x3f80_0000] {
                fixed!(&mut out, "f32", f32, Ty::F32, f32::from_bits(bits));
            }
            for bits in [0u64, 1 << 63, 0x7ff0 << 48, 0xfff0 << 48, 0x7ff8 << 48, (0x7ff4 << 48) | 1, u64::MAX, 1, (1 << 52) - 1, 1 << 52, 0x7fef_ffff_ffff_ffff, 0x3ff0 << 48] {
                fixed!(&mut out, "f64", f64, Ty::F64, f64::from_bits(bits));
            }
            out.count("boundary_neighbourhoods", 1);
        }
        for _ in 0..(nrand / shards as u64) {
            let r = rng.next();
            fixed!(&mut out, "u32", u32, Ty::U32, r as u32);
            fixed!(&mut out, "i32", i32, Ty::I32, r as i32);
            fixed!(&mut out, "u64", u64, Ty::U64, r);
            fixed!(&mut out, "i64", i64, Ty::I64, r as i64);
            fixed!(&mut out, "f32", f32, Ty::F32, f32::from_bits(r as u32));
            fixed!(&mut out, "f64", f64, Ty::F64, f64::from_bits(r));
            let sh = rng.below(64);
            check_varint(&mut out, (rng.next() as i64) >> sh, &mut scratch);
            check_varuint(&mut out, rng.next() >> sh, &mut scratch);
        }
        if f32_all {
            // all 2^32 bit patterns: lean loop (encode, compare with reference bytes, decode, compare bits)
            let mut bits = shard as u64;
            let mut buf: Vec<u8> = Vec::with_capacity(4);
            while bits < (1u64 << 32) {
                let b = bits as u32;
                buf.clear();
                let ok = Encoder::from(&mut buf).encode(f32::from_bits(b)).is_ok();
                let exp = [b as u8, (b >> 8) as u8, (b >> 16) as u8, (b >> 24) as u8];
                let mut d = Decoder::from(&buf[..]);
                let back = d.decode::<f32>().map(|f| f.to_bits());
                if !ok || buf != exp || back.ok() != Some(b) {
                    fail(&mut out, "f32-bit-pattern", format!("f32 bits {:08x}: wrote {}", b, hex(&buf)));
                }
                out.evaluations += 1;
                bits += shards as u64;
            }
            out.count("f32_all_bit_patterns", 1);
        }

        // ---- variable width: every magnitude < var_limit with the given stride, both signs
        let mut v = shard as u64 * var_stride;
        while v < var_limit {
            check_varint(&mut out, v as i64, &mut scratch);
            check_varint(&mut out, -(v as i64) - 1, &mut scratch);
            check_varuint(&mut out, v, &mut scratch);
            v += shards as u64 * var_stride;
        }
        out.count("varint_sweep_done", 1);

        // ---- strings and collections
        let per = (ncoll / shards as u64).max(1);
        for i in 0..per {
            let sv = gen_val(&Ty::Str, &mut rng, 0);
            let s = val_to_string(&sv);
            let expected = refmodel::encode(&Ty::Str, &sv).unwrap();
            roundtrip!(&mut out, "String", String, s, &expected, |e| e.encode(&s));
            roundtrip!(&mut out, "str", String, s, &expected, |e| e.encode(s.as_str()));
            out.count("strings", 1);

            // lengths around the 1/2-byte and 2/4-byte size boundaries
            if i % 16 == 0 && scale != "miri" {
                for len in [63usize, 64, 16383, 16384] {
                    let s: String = "x".repeat(len);
                    let expected = refmodel::encode(&Ty::Str, &Val::Str(s.clone())).unwrap();
                    roundtrip!(&mut out, "String@boundary", String, s, &expected, |e| e.encode(&s));
                    let v: Vec<u8> = vec![7u8; len];
                    let expected = refmodel::encode(&Ty::Seq(Box::new(Ty::U8)), &v.to_val()).unwrap();
                    roundtrip!(&mut out, "Vec<u8>@boundary", Vec<u8>, v, &expected, |e| e.encode(&v));
                }
            }

            // long strings in which a multi-byte character straddles every power-of-two byte offset from 2^10 to 2^18 (decoders
            // that work in blocks have seams there), and the same strings nested in a sequence
            if i == 0 && shard == 0 {
                let top: u32 = if scale == "miri" { 12 } else { 18 };
                for p in 10..=top {
                    let boundary = 1usize << p;
                    for (ch, width) in [("\u{e9}", 2usize), ("\u{20ac}", 3), ("\u{1F600}", 4)] {
                        for before in 1..width {
                            // the character starts `before` bytes ahead of the boundary
                            let mut s = String::with_capacity(boundary + 16);
                            s.push_str(&"a".repeat(boundary - before));
                            s.push_str(ch);
                            s.push_str("tail");
                            let expected = refmodel::encode(&Ty::Str, &Val::Str(s.clone())).unwrap();
                            roundtrip!(&mut out, "String@seam", String, s, &expected, |e| e.encode(&s));
                            if p <= 16 {
                                let v: Vec<String> = vec!["x".to_owned(), s.clone(), "\u{1F600}".to_owned()];
                                let expected = refmodel::encode(&Ty::Seq(Box::new(Ty::Str)), &v.to_val()).unwrap();
                                roundtrip!(&mut out, "Vec<String>@seam", Vec<String>, v, &expected, |e| e.encode(&v));
                            }
                            out.count("seam_strings", 1);
                        }
                    }
                }
            }

            // collections whose element count sits on either side of a power of two (pre-allocation caps, chunked loops and size
            // prefixes change behaviour there), alone and followed by another value in an enclosing sequence
            if i == 0 && shard == 0 {
                let counts: &[usize] = if scale == "miri" { &[64, 65] } else {
                    &[63, 64, 65, 255, 256, 257, 1023, 1024, 1025, 4095, 4096, 4097, 8191, 8192, 8193, 16383, 16384, 16385, 65535, 65536, 65537, 100_003] };
                for &n in counts {
                    let v: Vec<i32> = (0..n as i32).map(|k| k.wrapping_mul(7919)).collect();
                    let expected = refmodel::encode(&Ty::Seq(Box::new(Ty::I32)), &v.to_val()).unwrap();
                    roundtrip!(&mut out, "Vec<i32>@count", Vec<i32>, v, &expected, |e| e.encode(&v));
                    let vs: Vec<String> = (0..n).map(|k| if k % 3 == 0 { String::new() } else { format!("s{k}") }).collect();
                    let expected = refmodel::encode(&Ty::Seq(Box::new(Ty::Str)), &vs.to_val()).unwrap();
                    roundtrip!(&mut out, "Vec<String>@count", Vec<String>, vs, &expected, |e| e.encode(&vs));
                    let hm: HashMap<i32, u8> = (0..n as i32).map(|k| (k.wrapping_mul(7919), k as u8)).collect();
                    let refty = Ty::Map(Box::new(Ty::I32), Box::new(Ty::U8));
                    let expected = crate::c10::encode_in_iteration_order(&refty, &hm.iter_order_val());
                    roundtrip!(&mut out, "HashMap<i32,u8>@count", HashMap<i32, u8>, hm, &expected, |e| e.encode(&hm));
                    let bm: BTreeMap<i32, u8> = (0..n as i32).map(|k| (k.wrapping_mul(7919), k as u8)).collect();
                    let expected = crate::c10::encode_in_iteration_order(&refty, &bm.iter_order_val());
                    roundtrip!(&mut out, "BTreeMap<i32,u8>@count", BTreeMap<i32, u8>, bm, &expected, |e| e.encode(&bm));
                    if n <= 16385 && scale != "miri" {
                        let hs: HashMap<String, String> = (0..n).map(|k| (format!("k{k}"), if k % 2 == 0 { String::new() } else { format!("v{k}") })).collect();
                        let refty = Ty::Map(Box::new(Ty::Str), Box::new(Ty::Str));
                        let expected = crate::c10::encode_in_iteration_order(&refty, &hs.iter_order_val());
                        roundtrip!(&mut out, "HashMap<String,String>@count", HashMap<String, String>, hs, &expected, |e| e.encode(&hs));
                        // nested: the map is followed by more data, so a decoder that stops early misreads what follows
                        let nested: Vec<HashMap<i32, u8>> = vec![hm.clone(), HashMap::new(), (0..3).map(|k| (k, 1u8)).collect()];
                        let refty = Ty::Seq(Box::new(Ty::Map(Box::new(Ty::I32), Box::new(Ty::U8))));
                        let expected = crate::c10::encode_in_iteration_order(&refty, &nested.iter_order_val());
                        roundtrip!(&mut out, "Vec<HashMap<i32,u8>>@count", Vec<HashMap<i32, u8>>, nested, &expected, |e| e.encode(&nested));
                    }
                    out.count("count_boundary_collections", 1);
                }
            }

            macro_rules! coll {
                ($name:expr, $t:ty, $refty:expr, $build:expr) => {{
                    let refty: Ty = $refty;
                    let val = gen_val(&refty, &mut rng, 0);
                    let built: $t = $build(&val);
                    // dictionaries: encoding order is the container's iteration order, so the expected bytes are taken
                    // from the reference applied in that order.
                    let expected = crate::c10::encode_in_iteration_order(&refty, &built.iter_order_val());
                    roundtrip!(&mut out, $name, $t, built, &expected, |e| e.encode(&built));
                    out.count("collections", 1);
                }};
            }
            coll!("Vec<u8>", Vec<u8>, Ty::Seq(Box::new(Ty::U8)), from_val::<Vec<u8>>);
            coll!("Vec<bool>", Vec<bool>, Ty::Seq(Box::new(Ty::Bool)), from_val::<Vec<bool>>);
            coll!("Vec<i32>", Vec<i32>, Ty::Seq(Box::new(Ty::I32)), from_val::<Vec<i32>>);
            coll!("Vec<f64>", Vec<f64>, Ty::Seq(Box::new(Ty::F64)), from_val::<Vec<f64>>);
            coll!("Vec<String>", Vec<String>, Ty::Seq(Box::new(Ty::Str)), from_val::<Vec<String>>);
            coll!("Vec<Vec<u16>>", Vec<Vec<u16>>, Ty::Seq(Box::new(Ty::Seq(Box::new(Ty::U16)))), from_val::<Vec<Vec<u16>>>);
            coll!("Vec<Vec<Vec<String>>>", Vec<Vec<Vec<String>>>, Ty::Seq(Box::new(Ty::Seq(Box::new(Ty::Seq(Box::new(Ty::Str)))))), from_val::<Vec<Vec<Vec<String>>>>);
            coll!("BTreeMap<u8,u8>", BTreeMap<u8, u8>, Ty::Map(Box::new(Ty::U8), Box::new(Ty::U8)), from_val::<BTreeMap<u8, u8>>);
            coll!("BTreeMap<String,Vec<i32>>", BTreeMap<String, Vec<i32>>, Ty::Map(Box::new(Ty::Str), Box::new(Ty::Seq(Box::new(Ty::I32)))), from_val::<BTreeMap<String, Vec<i32>>>);
            coll!("HashMap<u8,u8>", HashMap<u8, u8>, Ty::Map(Box::new(Ty::U8), Box::new(Ty::U8)), from_val::<HashMap<u8, u8>>);
            coll!("HashMap<String,String>", HashMap<String, String>, Ty::Map(Box::new(Ty::Str), Box::new(Ty::Str)), from_val::<HashMap<String, String>>);
            coll!("HashMap<i32,BTreeMap<bool,Vec<String>>>", HashMap<i32, BTreeMap<bool, Vec<String>>>,
                  Ty::Map(Box::new(Ty::I32), Box::new(Ty::Map(Box::new(Ty::Bool), Box::new(Ty::Seq(Box::new(Ty::Str)))))),
                  from_val::<HashMap<i32, BTreeMap<bool, Vec<String>>>>);

            // The wire format does not order dictionary entries: what one mapping of a dictionary type writes, the other must read
            // (HashMap writes in hash order), and entries in any order decode to the same map.
            macro_rules! cross {
                ($name:expr, $k:ty, $v:ty, $refty:expr) => {{
                    let refty: Ty = $refty;
                    let val = gen_val(&refty, &mut rng, 0);
                    let h: HashMap<$k, $v> = from_val(&val);
                    let b: BTreeMap<$k, $v> = from_val(&val);
                    let mut hb: Vec<u8> = Vec::new();
                    let mut bb: Vec<u8> = Vec::new();
                    let _ = Encoder::from(&mut hb).encode(&h);
                    let _ = Encoder::from(&mut bb).encode(&b);
                    // entries reversed, through the reference encoder
                    let rev = match &b.iter_order_val() {
                        Val::Map(items) => Val::Map(items.iter().rev().cloned().collect()),
                        _ => unreachable!(),
                    };
                    let rb = crate::c10::encode_in_iteration_order(&refty, &rev);
                    out.evaluations += 3;
                    let r = catch_unwind(AssertUnwindSafe(|| {
                        let mut problems: Vec<(String, String)> = Vec::new();
                        let exact: Box<[u8]> = hb.as_slice().into();
                        let mut d = Decoder::from(&exact[..]);
                        match d.decode::<BTreeMap<$k, $v>>() {
                            Ok(x) if x.to_val() == b.to_val() && d.remaining() == 0 => {}
                            other => problems.push((format!("cross-container:HashMap->BTreeMap:{}", $name), format!("{} decoded to {:?}", hex(&hb), other.map(|x| x.to_val())))),
                        }
                        let exact: Box<[u8]> = bb.as_slice().into();
                        let mut d = Decoder::from(&exact[..]);
                        match d.decode::<HashMap<$k, $v>>() {
                            Ok(x) if x.to_val() == h.to_val() && d.remaining() == 0 => {}
                            other => problems.push((format!("cross-container:BTreeMap->HashMap:{}", $name), format!("{} decoded to {:?}", hex(&bb), other.map(|x| x.to_val())))),
                        }
                        let exact: Box<[u8]> = rb.as_slice().into();
                        let mut d = Decoder::from(&exact[..]);
                        match d.decode::<BTreeMap<$k, $v>>() {
                            Ok(x) if x.to_val() == b.to_val() && d.remaining() == 0 => {}
                            other => problems.push((format!("entry-order:BTreeMap:{}", $name), format!("{} (entries in descending key order) decoded to {:?}", hex(&rb), other.map(|x| x.to_val())))),
                        }
                        problems
                    }));
                    match r {
                        Ok(problems) => {
                            for (sig, what) in problems {
                                fail(&mut out, &sig, what);
                            }
                        }
                        Err(_) => {
                            let info = crate::take_last_panic().unwrap_or_default();
                            fail(&mut out, &format!("panic:{}", info), format!("{}: cross-container decode panicked: {}", $name, info));
                        }
                    }
                    out.count("cross_container_dictionaries", 1);
                }};
            }
            cross!("u8,u8", u8, u8, Ty::Map(Box::new(Ty::U8), Box::new(Ty::U8)));
            cross!("String,String", String, String, Ty::Map(Box::new(Ty::Str), Box::new(Ty::Str)));
            cross!("i32,Vec<String>", i32, Vec<String>, Ty::Map(Box::new(Ty::I32), Box::new(Ty::Seq(Box::new(Ty::Str)))));
        }

        // ---- streams: many values of mixed types written by ONE encoder into one buffer and read back by ONE decoder - whatever
        // an encoder / decoder carries from one value to the next (positions, counters, guards) is exercised over hundreds of values
        let nstreams = match (scale, thorough) { ("native", false) => 40, ("native", true) => 600, ("sanitizer", false) => 6, ("sanitizer", true) => 60, (_, false) => 1, _ => 2 };
        for si in 0..(nstreams / shards as u64).max(1) {
            let len = if scale == "miri" { 60 } else { 150 + rng.below(450) as usize };
            // a stream leans towards one kind of value (every third stream: towards empty collections of one kind)
            let lean = (si + shard as u64) % 9;
            #[derive(Clone, Debug, PartialEq)]
            enum Item { B(bool), U8(u8), I32(i32), VI(i64), VU(u64), S(String), V(Vec<u8>), VV(Vec<Vec<u16>>), H(HashMap<u8, u8>), T(BTreeMap<u8, u8>), HS(HashMap<String, Vec<i32>>) }
            let mut items: Vec<Item> = Vec::with_capacity(len);
            for _ in 0..len {
                let kind = if rng.chance(1, 2) { lean + 2 } else { rng.below(11) };
                let small = rng.below(4) as usize;
                let n = if rng.chance(2, 3) { 0 } else { small };
                items.push(match kind {
                    0 => Item::B(rng.chance(1, 2)),
                    1 => Item::U8(rng.next() as u8),
                    2 => Item::I32(rng.next() as i32),
                    3 => Item::VI((rng.next() as i64) >> (2 + rng.below(60))),
                    4 => Item::VU(rng.next() >> (2 + rng.below(60))),
                    5 => Item::S(val_to_string(&gen_val(&Ty::Str, &mut rng, 0))),
                    6 => Item::V((0..n).map(|_| rng.next() as u8).collect()),
                    7 => Item::VV((0..n).map(|_| (0..rng.below(3)).map(|_| rng.next() as u16).collect()).collect()),
                    8 => Item::H((0..n).map(|_| (rng.next() as u8, rng.next() as u8)).collect()),
                    9 => Item::T((0..n).map(|_| (rng.next() as u8, rng.next() as u8)).collect()),
                    _ => Item::HS((0..n).map(|i| (format!("k{i}"), vec![rng.next() as i32])).collect()),
                });
            }
            out.evaluations += len as u64;
            let r = catch_unwind(AssertUnwindSafe(|| -> Option<(String, String)> {
                let mut buf: Vec<u8> = Vec::new();
                {
                    let mut enc = Encoder::from(&mut buf);
                    for (i, it) in items.iter().enumerate() {
                        let r = match it {
                            Item::B(v) => enc.encode(*v), Item::U8(v) => enc.encode(*v), Item::I32(v) => enc.encode(*v),
                            Item::VI(v) => enc.encode_varint(*v), Item::VU(v) => enc.encode_varuint(*v), Item::S(v) => enc.encode(v),
                            Item::V(v) => enc.encode(v), Item::VV(v) => enc.encode(v), Item::H(v) => enc.encode(v), Item::T(v) => enc.encode(v),
                            Item::HS(v) => enc.encode(v),
                        };
                        if let Err(e) = r {
                            return Some(("stream-encode-failed".into(), format!("value {i} ({it:?}) of a stream of {} could not be encoded: {e:?}", items.len())));
                        }
                    }
                }
                let exact: Box<[u8]> = buf.as_slice().into();
                let mut dec = Decoder::from(&exact[..]);
                for (i, it) in items.iter().enumerate() {
                    let back: Result<Item, String> = match it {
                        Item::B(_) => dec.decode().map(Item::B).map_err(|e| format!("{e:?}")), Item::U8(_) => dec.decode().map(Item::U8).map_err(|e| format!("{e:?}")),
                        Item::I32(_) => dec.decode().map(Item::I32).map_err(|e| format!("{e:?}")), Item::VI(_) => dec.decode_varint::<i64>().map(Item::VI).map_err(|e| format!("{e:?}")),
                        Item::VU(_) => dec.decode_varuint::<u64>().map(Item::VU).map_err(|e| format!("{e:?}")), Item::S(_) => dec.decode().map(Item::S).map_err(|e| format!("{e:?}")),
                        Item::V(_) => dec.decode().map(Item::V).map_err(|e| format!("{e:?}")), Item::VV(_) => dec.decode().map(Item::VV).map_err(|e| format!("{e:?}")),
                        Item::H(_) => dec.decode().map(Item::H).map_err(|e| format!("{e:?}")), Item::T(_) => dec.decode().map(Item::T).map_err(|e| format!("{e:?}")),
                        Item::HS(_) => dec.decode().map(Item::HS).map_err(|e| format!("{e:?}")),
                    };
                    match back {
                        Ok(b) if &b == it => {}
                        Ok(b) => return Some(("stream-value-differs".into(), format!("value {i} of a stream of {} values decoded as {b:?}, written {it:?}", items.len()))),
                        Err(e) => return Some(("stream-decode-failed".into(), format!("value {i} ({it:?}) of a stream of {} values (one decoder for all): {e}", items.len()))),
                    }
                }
                if dec.remaining() != 0 {
                    return Some(("stream-remaining".into(), format!("{} bytes left after a stream of {} values", dec.remaining(), items.len())));
                }
                None
            }));
            match r {
                Ok(None) => {}
                Ok(Some((sig, what))) => fail(&mut out, &sig, what),
                Err(_) => {
                    let info = crate::take_last_panic().unwrap_or_default();
                    fail(&mut out, &format!("panic:{}", info), format!("stream of {} values panicked: {}", items.len(), info));
                }
            }
            out.count("streams", 1);
            out.count("stream_values", len as u64);
        }
        out
    });
    let mut total = total;
    // distinct non-trivial cases, conservatively: the enumerations that are distinct by construction
    let sweep = (var_limit / var_stride) * 3;
    total.nontrivial = sweep + 2 * 65536 / if scale == "miri" { 53 * 97 } else { 1 } + 512;
    total.sample(format!("varint/varuint sweep: every magnitude < 2^30 with stride {} (both signs), decoded into every width", var_stride));
    total
}

// ---------------------------------------------------------------------------------------------------------------
// Val <-> concrete containers

pub trait FromVal: Sized {
    fn from_val(v: &Val) -> Self;
}

pub fn from_val<T: FromVal>(v: &Val) -> T {
    T::from_val(v)
}

macro_rules! int_from_val {
    ($($t:ty),*) => { $(impl FromVal for $t { fn from_val(v: &Val) -> Self { match v { Val::Int(i) => *i as $t, _ => unreachable!() } } })* };
}
int_from_val!(u8, i8, u16, i16, u32, i32, u64, i64);

impl FromVal for bool {
    fn from_val(v: &Val) -> Self {
        matches!(v, Val::Bool(true))
    }
}

impl FromVal for f64 {
    fn from_val(v: &Val) -> Self {
        match v {
            Val::Bits64(b) => f64::from_bits(*b),
            _ => unreachable!(),
        }
    }
}

impl FromVal for String {
    fn from_val(v: &Val) -> Self {
        val_to_string(v)
    }
}

impl<T: FromVal> FromVal for Vec<T> {
    fn from_val(v: &Val) -> Self {
        match v {
            Val::Seq(items) => items.iter().map(T::from_val).collect(),
            _ => unreachable!(),
        }
    }
}

impl<K: FromVal + Ord, V: FromVal> FromVal for BTreeMap<K, V> {
    fn from_val(v: &Val) -> Self {
        match v {
            Val::Map(items) => items.iter().map(|(k, v)| (K::from_val(k), V::from_val(v))).collect(),
            _ => unreachable!(),
        }
    }
}

impl<K: FromVal + Eq + std::hash::Hash, V: FromVal> FromVal for HashMap<K, V> {
    fn from_val(v: &Val) -> Self {
        match v {
            Val::Map(items) => items.iter().map(|(k, v)| (K::from_val(k), V::from_val(v))).collect(),
            _ => unreachable!(),
        }
    }
}

/// The value as the container itself iterates it (dictionary entries in iteration order, not sorted).
pub trait IterOrderVal {
    fn iter_order_val(&self) -> Val;
}

macro_rules! leaf_iter_order {
    ($($t:ty),*) => { $(impl IterOrderVal for $t { fn iter_order_val(&self) -> Val { self.to_val() } })* };
}
leaf_iter_order!(u8, i8, u16, i16, u32, i32, u64, i64, bool, f64, String);

impl<T: IterOrderVal> IterOrderVal for Vec<T> {
    fn iter_order_val(&self) -> Val {
        Val::Seq(self.iter().map(IterOrderVal::iter_order_val).collect())
    }
}

impl<K: IterOrderVal, V: IterOrderVal> IterOrderVal for BTreeMap<K, V> {
    fn iter_order_val(&self) -> Val {
        Val::Map(self.iter().map(|(k, v)| (k.iter_order_val(), v.iter_order_val())).collect())
    }
}

impl<K: IterOrderVal, V: IterOrderVal> IterOrderVal for HashMap<K, V> {
    fn iter_order_val(&self) -> Val {
        Val::Map(self.iter().map(|(k, v)| (k.iter_order_val(), v.iter_order_val())).collect())
    }
}

pub fn encode_in_iteration_order(ty: &Ty, v: &Val) -> Vec<u8> {
    refmodel::encode(ty, v).unwrap()
}

