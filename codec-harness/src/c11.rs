// C11 - decoding untrusted bytes fails cleanly.
// Oracle: strict reference decoder (refmodel) + catch_unwind + per-decode cost monitor.

use crate::real::{cases, Case, Decoded};
use crate::refmodel::{self, Reject, Ty, Val};
use crate::util::{hex, parallel, Outcome, Rng};
use std::panic::{catch_unwind, AssertUnwindSafe};

pub struct Params {
    pub tier: String,
    pub seed: u64,
    pub threads: usize,
    pub scale: String, // "native" | "sanitizer" | "miri"
    pub shard: usize,  // for miri: which shard of `shards`
    pub shards: usize,
}

fn panic_info() -> String {
    crate::take_last_panic().unwrap_or_else(|| "?".to_owned())
}

/// Runs the real decoder on `data` for `case` and compares with the reference. Returns true if "interesting"
/// (reference accepted, or rejected for a reason other than plain end-of-buffer).
/// Set once the cost phase has shown that decoding costs what the input *announces* (or by the driver, for the sanitizer build, after
/// the native run showed it): the violation is on record, and inputs that announce more than 1 MiB are then left out of the other
/// families - each of them would cost seconds and gigabytes, thousands of times over.
pub static COST_BROKEN: std::sync::atomic::AtomicBool = std::sync::atomic::AtomicBool::new(false);

pub fn check_one(case: &Case, data: &[u8], out: &mut Outcome, family: &str) -> bool {
    if COST_BROKEN.load(std::sync::atomic::Ordering::Relaxed) && refmodel::max_announced(&case.ty, data) > (1 << 20) {
        out.count("skipped_after_cost_violation_large_announced_size", 1);
        return false;
    }
    if cfg!(miri) && refmodel::max_announced(&case.ty, data) > (1 << 16) {
        // Miri really allocates what try_reserve asks for; announced sizes beyond 64 Ki are covered natively / by ASan.
        out.count("skipped_under_miri_large_announced_size", 1);
        return false;
    }
    out.evaluations += 1;
    let expected = refmodel::decode(&case.ty, data);
    let real = catch_unwind(AssertUnwindSafe(|| (case.real)(data)));
    let replay = || format!("c11 {} {}", case.name, hex(data));
    let real: Decoded = match real {
        Ok(r) => r,
        Err(_) => {
            let info = panic_info();
            out.count("panics", 1);
            out.violate(
                &format!("panic:{}", info),
                format!("decoding {} from {} panicked: {} (reference: {:?})", case.name, hex(data), info, expected.as_ref().map(|x| x.1)),
                replay(),
            );
            return true;
        }
    };
    if real.consumed > data.len() || real.remaining_after > data.len() {
        out.violate("consumed-more-than-available", format!("{}: consumed {} of {} bytes", case.name, real.consumed, data.len()), replay());
    }
    match (&real.result, &expected) {
        (Ok(v), Ok((ev, consumed))) => {
            out.count("ok_agree", 1);
            if v != ev {
                out.violate(&format!("wrong-value:{}", case.name), format!("{} from {}: got {:?}, reference {:?}", case.name, hex(data), v, ev), replay());
            }
            if real.consumed != *consumed {
                out.violate(&format!("wrong-consumed:{}", case.name), format!("{} from {}: consumed {}, reference {}", case.name, hex(data), real.consumed, consumed), replay());
            }
            true
        }
        (Err(e), Err(why)) => {
            out.count("err_agree", 1);
            out.count(
                match why {
                    Reject::Eob => "reject_Eob",
                    Reject::BadBool => "reject_BadBool",
                    Reject::BadUtf8 => "reject_BadUtf8",
                    Reject::OutOfRange => "reject_OutOfRange",
                    Reject::DuplicateKey => "reject_DuplicateKey",
                    Reject::BadLevel => "reject_BadLevel",
                },
                1,
            );
            // every error must render
            let rendered = catch_unwind(AssertUnwindSafe(|| e.to_string()));
            match rendered {
                Ok(s) if !s.trim().is_empty() => {}
                Ok(_) => out.violate("error-renders-empty", format!("{} from {}: error renders as empty string", case.name, hex(data)), replay()),
                Err(_) => {
                    let info = panic_info();
                    out.count("display_panics", 1);
                    out.violate(&format!("display-panic:{}", info), format!("{} from {}: rendering the error panicked: {} (error: {:?})", case.name, hex(data), info, e), replay());
                }
            }
            // a failing decode of a *fixed-size* request must not consume
            let _ = family;
            *why != Reject::Eob
        }
        (Ok(v), Err(why)) => {
            // an accepted invalid value may not even be printable (a String that is not UTF-8)
            let shown = catch_unwind(AssertUnwindSafe(|| format!("{:?}", v))).unwrap_or_else(|_| "<a value that cannot be formatted>".to_owned());
            out.violate(&format!("accepts-invalid:{:?}:{}", why, case.name), format!("{} from {}: accepted as {}, reference rejects ({:?})", case.name, hex(data), shown, why), replay());
            true
        }
        (Err(e), Ok((ev, _))) => {
            out.violate(&format!("rejects-valid:{}", case.name), format!("{} from {}: rejected ({:?}), reference decodes {:?}", case.name, hex(data), e, ev), replay());
            true
        }
    }
}

// ---------------------------------------------------------------------------------------------------------------
// value generation for valid encodings

pub fn gen_val(ty: &Ty, rng: &mut Rng, depth: u32) -> Val {
    let small = |rng: &mut Rng| -> usize {
        match rng.below(10) {
            0 => 0,
            1..=5 => 1 + rng.below(3) as usize,
            6..=8 => rng.below(8) as usize,
            _ => 60 + rng.below(10) as usize, // around the 1-byte/2-byte size boundary (63/64)
        }
    };
    match ty {
        Ty::Bool => Val::Bool(rng.chance(1, 2)),
        Ty::U8 => Val::Int(rng.below(256) as i128),
        Ty::I8 => Val::Int(rng.below(256) as i128 - 128),
        Ty::U16 => Val::Int(rng.below(65536) as i128),
        Ty::I16 => Val::Int(rng.below(65536) as i128 - 32768),
        Ty::U32 => Val::Int((rng.next() as u32) as i128),
        Ty::I32 => Val::Int((rng.next() as i32) as i128),
        Ty::U64 => Val::Int(rng.next() as i128),
        Ty::I64 => Val::Int((rng.next() as i64) as i128),
        Ty::F32 => Val::Bits32(rng.next() as u32),
        Ty::F64 => Val::Bits64(rng.next()),
        Ty::VarInt(w) => {
            let bits = 1 + rng.below((*w).min(62) as u64 - 1) as u32;
            let m = (rng.next() as i64 as i128) >> (64 - bits);
            Val::Int(m)
        }
        Ty::VarUInt(w) => {
            let bits = 1 + rng.below((*w).min(62) as u64) as u32;
            Val::Int(((rng.next() as u128) >> (64 - bits)) as i128)
        }
        Ty::VarIntIn(lo, hi) => Val::Int(*lo as i128 + rng.below((*hi - *lo) as u64 + 1) as i128),
        Ty::VarUIntIn(lo, hi) => Val::Int((*lo + rng.below(*hi - *lo + 1)) as i128),
        Ty::Size => Val::Int((rng.next() >> (2 + rng.below(62))) as i128),
        Ty::Str => {
            let n = small(rng);
            let mut s = String::new();
            for _ in 0..n {
                let c = match rng.below(6) {
                    0 => 0x20 + rng.below(0x5f) as u32,
                    1 => [0u32, 0x7f, 0x80, 0x7ff, 0x800, 0xd7ff, 0xe000, 0xffff, 0x10000, 0x10ffff][rng.below(10) as usize],
                    2 => 0x80 + rng.below(0x780) as u32,
                    3 => 0x800 + rng.below(0xd000) as u32,
                    4 => 0x10000 + rng.below(0x100000) as u32,
                    _ => 0x61 + rng.below(26) as u32,
                };
                if let Some(ch) = char::from_u32(c) {
                    s.push(ch);
                }
            }
            Val::Str(s)
        }
        Ty::Seq(e) => {
            let n = if depth == 0 { small(rng) } else { rng.below(4) as usize };
            Val::Seq((0..n).map(|_| gen_val(e, rng, depth + 1)).collect())
        }
        Ty::Map(k, v) => {
            let n = if depth == 0 { small(rng).min(20) } else { rng.below(3) as usize };
            let mut items: Vec<(Val, Val)> = Vec::new();
            for _ in 0..n {
                let key = gen_val(k, rng, depth + 1);
                if items.iter().any(|(k2, _)| *k2 == key) {
                    continue;
                }
                items.push((key, gen_val(v, rng, depth + 1)));
            }
            items.sort();
            Val::Map(items)
        }
        Ty::SkipTagged | Ty::GeneratedFile | Ty::Diagnostic | Ty::DiagnosticLevel => Val::Unit, // encoded specially below
    }
}

/// A valid encoding for `ty` (through the reference encoder; reply types are assembled here by hand).
pub fn gen_valid(ty: &Ty, rng: &mut Rng) -> Vec<u8> {
    fn tagged_tail(rng: &mut Rng) -> Vec<u8> {
        let mut o = Vec::new();
        for _ in 0..rng.below(3) {
            let tag = rng.below(100) as i128 + if rng.chance(1, 4) { 1 << 20 } else { 0 };
            o.extend(refmodel::enc_varint(tag).unwrap());
            let n = rng.below(6);
            o.extend(refmodel::enc_varuint(n as u128).unwrap());
            for _ in 0..n {
                o.push(rng.next() as u8);
            }
        }
        o.extend(refmodel::enc_varint(-1).unwrap());
        o
    }
    match ty {
        Ty::SkipTagged => tagged_tail(rng),
        Ty::GeneratedFile => {
            let mut o = refmodel::encode(&Ty::Str, &gen_val(&Ty::Str, rng, 0)).unwrap();
            o.extend(refmodel::encode(&Ty::Str, &gen_val(&Ty::Str, rng, 0)).unwrap());
            o.extend(tagged_tail(rng));
            o
        }
        Ty::DiagnosticLevel => vec![rng.below(3) as u8],
        Ty::Diagnostic => {
            let has = rng.chance(1, 2);
            let mut o = vec![has as u8, rng.below(3) as u8];
            o.extend(refmodel::encode(&Ty::Str, &gen_val(&Ty::Str, rng, 0)).unwrap());
            if has {
                o.extend(refmodel::encode(&Ty::Str, &gen_val(&Ty::Str, rng, 0)).unwrap());
            }
            o.extend(tagged_tail(rng));
            o
        }
        Ty::Seq(e) if matches!(**e, Ty::GeneratedFile | Ty::Diagnostic) => {
            let n = rng.below(4);
            let mut o = refmodel::enc_varuint(n as u128).unwrap();
            for _ in 0..n {
                o.extend(gen_valid(e, rng));
            }
            o
        }
        _ => refmodel::encode(ty, &gen_val(ty, rng, 0)).unwrap(),
    }
}

fn all_strings(maxlen: usize, shard: usize, shards: usize, mut f: impl FnMut(&[u8])) {
    if shard == 0 {
        f(&[]);
    }
    let mut buf = [0u8; 3];
    for len in 1..=maxlen {
        let total: u64 = 1 << (8 * len);
        let mut i = shard as u64;
        while i < total {
            for (j, b) in buf.iter_mut().enumerate().take(len) {
                *b = (i >> (8 * j)) as u8;
            }
            f(&buf[..len]);
            i += shards as u64;
        }
    }
}

pub fn lying_prefixes() -> Vec<Vec<u8>> {
    let mut out = Vec::new();
    for k in 6..=61u32 {
        for delta in [0u128, 1] {
            let v: u128 = (1u128 << k) - delta;
            for (code, n) in [(0u128, 1usize), (1, 2), (2, 4), (3, 8)] {
                if v < (1u128 << (8 * n as u32 - 2)) {
                    out.push(refmodel::le_bytes((v << 2) | code, n));
                }
            }
        }
    }
    out
}

// ---------------------------------------------------------------------------------------------------------------
// cost monitor (single-threaded phase): CPU time of the thread and growth of the peak resident set per decode

#[cfg(not(miri))]
mod cost {
    pub fn thread_cpu_ns() -> u64 {
        let mut ts = libc::timespec { tv_sec: 0, tv_nsec: 0 };
        unsafe { libc::clock_gettime(libc::CLOCK_THREAD_CPUTIME_ID, &mut ts) };
        ts.tv_sec as u64 * 1_000_000_000 + ts.tv_nsec as u64
    }

    fn status_kb(key: &str) -> u64 {
        let s = std::fs::read_to_string("/proc/self/status").unwrap_or_default();
        for line in s.lines() {
            if let Some(rest) = line.strip_prefix(key) {
                return rest.trim().trim_end_matches("kB").trim().parse().unwrap_or(0);
            }
        }
        0
    }

    pub fn reset_peak() -> u64 {
        let _ = std::fs::write("/proc/self/clear_refs", "5");
        status_kb("VmRSS:")
    }

    pub fn peak_kb() -> u64 {
        status_kb("VmHWM:")
    }
}

#[allow(dead_code)]
const COST_RSS_KB: u64 = 64 * 1024;
#[allow(dead_code)]
const COST_CPU_NS: u64 = 2_000_000_000;

#[cfg(not(miri))]
fn cost_phase(p: &Params, out: &mut Outcome) {
    let prefixes = lying_prefixes();
    let mut rng = Rng::new(p.seed ^ 0xC057);
    for case in cases().iter().filter(|c| c.sized) {
        let mut abandoned = false;
        let mut max_rss = 0u64;
        let mut max_cpu = 0u64;
        for (pi, prefix) in prefixes.iter().enumerate() {
            if abandoned {
                break;
            }
            // quick: every 3rd prefix per type (rotated by seed); thorough: all
            if p.tier == "quick" && (pi as u64 + p.seed) % 3 != 0 {
                continue;
            }
            for tail in [0usize, 1, 8] {
                let mut data = prefix.clone();
                for _ in 0..tail {
                    data.push(rng.next() as u8);
                }
                let before = cost::reset_peak();
                let t0 = cost::thread_cpu_ns();
                let r = catch_unwind(AssertUnwindSafe(|| {
                    let d = (case.real)(&data);
                    d.result.is_ok()
                }));
                let cpu = cost::thread_cpu_ns() - t0;
                let peak = cost::peak_kb();
                let growth = peak.saturating_sub(before);
                out.evaluations += 1;
                out.count("cost_measured", 1);
                max_rss = max_rss.max(growth);
                max_cpu = max_cpu.max(cpu);
                if r.is_err() {
                    let _ = panic_info(); // panics are reported by the functional phase
                }
                if growth > COST_RSS_KB || cpu > COST_CPU_NS {
                    out.violate(
                        &format!("cost-governed-by-announced-size:{}", case.name),
                        format!("{} from {} ({} bytes): peak RSS grew by {} KiB, CPU {} ms - cost follows the announced size, not the input length", case.name, hex(&data), data.len(), growth, cpu / 1_000_000),
                        format!("c11cost {} {}", case.name, hex(&data)),
                    );
                    abandoned = true; // one witness per type is enough; do not burn the machine
                    break;
                }
            }
        }
        out.sample(format!("cost {}: max RSS growth {} KiB, max CPU {} us over lying prefixes", case.name, max_rss, max_cpu / 1000));
    }
}

#[cfg(miri)]
#[allow(dead_code)]
fn cost_phase(_p: &Params, _out: &mut Outcome) {}

/// Lean workload for Miri (about 0.1-0.3 s per decode with oracles): a few dozen aimed inputs per type.
fn run_miri(p: &Params) -> Outcome {
    let mut out = Outcome::default();
    let table = cases();
    let shards = p.shards.max(1);
    let mut rng = Rng::new(p.seed.wrapping_mul(77).wrapping_add(p.shard as u64));
    let nvalid = if p.tier == "quick" { 2 } else { 8 };
    let singles: &[u8] = &[0, 1, 2, 3, 4, 5, 6, 7, 8, 0x0c, 0x10, 0x7f, 0x80, 0xfc, 0xfd, 0xfe, 0xff];
    let mut n = 0usize;
    for case in &table {
        let mut inputs: Vec<Vec<u8>> = vec![vec![]];
        for b in singles {
            inputs.push(vec![*b]);
        }
        for _ in 0..nvalid {
            let valid = gen_valid(&case.ty, &mut rng);
            if valid.len() > 24 {
                continue;
            }
            for cut in 0..valid.len() {
                inputs.push(valid[..cut].to_vec());
            }
            for _ in 0..5 {
                if valid.is_empty() {
                    break;
                }
                let mut c = valid.clone();
                let pos = rng.below(c.len() as u64) as usize;
                c[pos] = match rng.below(4) { 0 => c[pos] ^ 1, 1 => c[pos] ^ 0x80, 2 => 0, _ => 0xff };
                inputs.push(c);
            }
            inputs.push(valid);
        }
        if let Ty::Map(k, v) = &case.ty {
            let key = gen_val(k, &mut rng, 1);
            let mut d = refmodel::enc_varuint(2).unwrap();
            for _ in 0..2 {
                d.extend(refmodel::encode(k, &key).unwrap());
                d.extend(refmodel::encode(v, &gen_val(v, &mut rng, 1)).unwrap());
            }
            inputs.push(d);
        }
        for data in inputs {
            n += 1;
            if n % shards != p.shard {
                continue;
            }
            if check_one(case, &data, &mut out, "miri") {
                out.nontrivial += 1;
            }
        }
    }
    out.count("decodable_types", table.len() as u64);
    out.sample("miri: per type: empty input, 17 single bytes, valid encodings with every truncation and corruptions, duplicate keys".to_owned());
    out
}

pub fn run(p: &Params) -> Outcome {
    if p.scale == "miri" {
        return run_miri(p);
    }
    let mut total = Outcome::default();
    if p.scale == "native" {
        cost_phase(p, &mut total);
        if !total.violations.is_empty() {
            COST_BROKEN.store(true, std::sync::atomic::Ordering::Relaxed);
        }
    }
    if std::env::var_os("VC_COST_BROKEN").is_some() {
        COST_BROKEN.store(true, std::sync::atomic::Ordering::Relaxed);
    }
    let table = cases();
    let ncases = table.len();
    let (maxlen, nrandom, nvalid) = match (p.scale.as_str(), p.tier.as_str()) {
        ("native", "quick") => (2usize, 100_000u64, 300u64),
        ("native", _) => (3, 10_000_000, 10_000),
        ("sanitizer", "quick") => (2, 20_000, 100),
        ("sanitizer", _) => (2, 1_000_000, 2_000),
        (_, "quick") => (1, 100, 2), // miri
        _ => (1, 600, 12),
    };
    let threads = p.threads.max(1);
    let shards = if p.scale == "miri" { p.shards.max(1) } else { threads };
    let o = parallel(if p.scale == "miri" { 1 } else { threads }, |ti| {
        let shard = if p.scale == "miri" { p.shard } else { ti };
        let mut out = Outcome::default();
        let table = cases();
        // 1. exhaustive short strings
        for case in &table {
            let mut interesting = 0u64;
            all_strings(maxlen, shard, shards, |data| {
                if check_one(case, data, &mut out, "exhaustive") {
                    interesting += 1;
                }
            });
            out.nontrivial += interesting;
            out.count("exhaustive_cases", 0);
        }
        // 2. random and 3. mutated valid encodings
        let mut rng = Rng::new(p.seed.wrapping_mul(1000).wrapping_add(shard as u64));
        let per = nrandom / shards as u64;
        for i in 0..per {
            let case = &table[(i as usize + shard) % ncases];
            let len = rng.below(65) as usize;
            let mut data = vec![0u8; len];
            for b in data.iter_mut() {
                *b = match rng.below(4) {
                    0 => rng.below(4) as u8,
                    1 => 0xff - rng.below(4) as u8,
                    _ => rng.next() as u8,
                };
            }
            if check_one(case, &data, &mut out, "random") {
                out.count("random_interesting", 1);
            }
            out.count("random_cases", 1);
        }
        let perv = (nvalid / shards as u64).max(1);
        for i in 0..perv {
            for case in &table {
                let _ = i;
                let valid = gen_valid(&case.ty, &mut rng);
                if valid.len() > 400 {
                    continue;
                }
                // the valid encoding itself must decode
                let before = out.violations.len();
                check_one(case, &valid, &mut out, "valid");
                out.count("valid_encodings", 1);
                if out.violations.len() > before {
                    continue;
                }
                // every truncation
                for cut in 0..valid.len() {
                    check_one(case, &valid[..cut], &mut out, "truncation");
                    out.count("truncations", 1);
                }
                // single-byte corruptions
                let positions: Vec<usize> = if valid.len() <= 48 { (0..valid.len()).collect() } else { (0..48).map(|_| rng.below(valid.len() as u64) as usize).collect() };
                for pos in positions {
                    for m in 0..5 {
                        let mut c = valid.clone();
                        c[pos] = match m {
                            0 => c[pos] ^ 0x01,
                            1 => c[pos] ^ 0x80,
                            2 => c[pos] ^ 0xff,
                            3 => 0,
                            _ => 0xff,
                        };
                        if check_one(case, &c, &mut out, "corruption") {
                            out.count("corruptions_interesting", 1);
                        }
                        out.count("corruptions", 1);
                    }
                }
                // duplicate a key (dictionaries): append the first entry again with a bumped count when small
                if let Ty::Map(k, v) = &case.ty {
                    let key = gen_val(k, &mut rng, 1);
                    let v1 = gen_val(v, &mut rng, 1);
                    let v2 = gen_val(v, &mut rng, 1);
                    let mut d = refmodel::enc_varuint(2).unwrap();
                    d.extend(refmodel::encode(k, &key).unwrap());
                    d.extend(refmodel::encode(v, &v1).unwrap());
                    d.extend(refmodel::encode(k, &key).unwrap());
                    d.extend(refmodel::encode(v, &v2).unwrap());
                    check_one(case, &d, &mut out, "duplicate-key");
                    out.count("duplicate_key_cases", 1);
                }
            }
        }
        // 5. strings, position by position: an ASCII string of every length 0..=96 with one byte at every position replaced by
        //    each kind of byte that is not valid UTF-8 there (must be refused), or two bytes replaced by a valid two-byte
        //    character (must be accepted) - decoders that validate in words / blocks have seams at multiples of 8 and 16
        for len in 0..=96usize {
            if len % shards != shard {
                continue;
            }
            let base: Vec<u8> = (0..len).map(|i| b'a' + (i % 26) as u8).collect();
            let wrap = |name: &str, body: &[u8]| -> Vec<u8> {
                let mut d = Vec::new();
                let size = refmodel::enc_varuint(body.len() as u128).unwrap();
                match name {
                    "String" => { d.extend(&size); d.extend(body); }
                    "Vec<String>" => { d.push(1 << 2); d.extend(&size); d.extend(body); }
                    _ => { d.extend([1u8 << 2, b'p']); d.extend(&size); d.extend(body); d.push(0xFC); } // GeneratedFile { path: "p", contents }
                }
                d
            };
            for case in table.iter().filter(|c| matches!(c.name, "String" | "Vec<String>" | "GeneratedFile")) {
                check_one(case, &wrap(case.name, &base), &mut out, "string-positions");
                for pos in 0..len {
                    for bad in [0x80u8, 0xBF, 0xC3, 0xE2, 0xF0, 0xFF] {
                        let mut body = base.clone();
                        body[pos] = bad;
                        check_one(case, &wrap(case.name, &body), &mut out, "string-positions");
                        out.count("string_position_cases", 1);
                    }
                    if pos + 1 < len {
                        let mut body = base.clone();
                        body[pos] = 0xC3;
                        body[pos + 1] = 0xA9;
                        check_one(case, &wrap(case.name, &body), &mut out, "string-positions");
                        out.count("string_position_cases", 1);
                    }
                }
            }
            out.nontrivial += (len * 7 * 3) as u64;
        }
        // 4. lying size prefixes (functional side; cost is measured in the single-threaded phase)
        if shard == 0 {
            let prefixes = lying_prefixes();
            for case in table.iter().filter(|c| c.sized) {
                if p.scale == "miri" {
                    break;
                }
                // HashMap reservations proportional to the announced size are a cost matter (measured above);
                // functionally we only send prefixes up to 2^20 entries to maps so that an unfixed tree cannot eat the machine.
                let is_hash = case.name.starts_with("HashMap");
                for prefix in &prefixes {
                    if is_hash {
                        let v = refmodel::decode(&Ty::Size, prefix).map(|x| x.0).unwrap_or(Val::Int(0));
                        if let Val::Int(n) = v {
                            if n > (1 << 20) && n < (1i128 << 40) {
                                continue;
                            }
                        }
                    }
                    for tail in [0usize, 3, 8] {
                        let mut data = prefix.clone();
                        for _ in 0..tail {
                            data.push(rng.next() as u8);
                        }
                        check_one(case, &data, &mut out, "lying-prefix");
                        out.count("lying_prefix_cases", 1);
                        out.nontrivial += 1;
                    }
                }
            }
        }
        out
    });
    total.merge(o);
    total.count("decodable_types", ncases as u64);
    total.sample(format!("exhaustive: all byte strings of length <= {} for each of {} decodable types", maxlen, ncases));
    total
}

/// An input of the C11 fuzz target: byte 0 selects the decodable type, the rest is the data.
pub fn fuzzcase(hexdata: &str) -> Outcome {
    let mut out = Outcome::default();
    let data = crate::util::unhex(hexdata);
    if data.is_empty() {
        return out;
    }
    let table = cases();
    let case = &table[data[0] as usize % table.len()];
    out.sample(format!("{} {}", case.name, hex(&data[1..])));
    check_one(case, &data[1..], &mut out, "fuzz-artifact");
    out
}

pub fn replay(name: &str, hexdata: &str) -> Outcome {
    let mut out = Outcome::default();
    let data = crate::util::unhex(hexdata);
    for case in cases() {
        if case.name == name {
            check_one(&case, &data, &mut out, "replay");
        }
    }
    out
}
