// C12 - output targets act as an append-only byte log with safe reservations; input sources never over-read.
// Shape: history + executable reference model, run in lock-step.

use crate::c11::Params;
use crate::util::{hex, parallel, Outcome, Rng};
use slice_codec::buffer::slice::{SliceInputSource, SliceOutputTarget};
use slice_codec::buffer::vec::VecOutputTarget;
use slice_codec::buffer::{InputSource, OutputTarget, Reservation};
use std::panic::{catch_unwind, AssertUnwindSafe};

const FILL: u8 = 0xA5; // initial content of fixed buffers
const CANARY: u8 = 0x5C;
const PAD: usize = 16;

#[derive(Clone, Debug, PartialEq)]
pub enum Op {
    WriteByte(u8),
    WriteBytes(Vec<u8>),
    Reserve(usize),
    WriteRes(usize, Vec<u8>), // (index of reservation, bytes)
}

impl Op {
    fn show(&self) -> String {
        match self {
            Op::WriteByte(b) => format!("wb:{b:02x}"),
            Op::WriteBytes(v) => format!("w:{}", hex(v)),
            Op::Reserve(n) => format!("r:{n}"),
            Op::WriteRes(i, v) => format!("wr:{i}:{}", hex(v)),
        }
    }
}

fn show_history(h: &[Op]) -> String {
    h.iter().map(Op::show).collect::<Vec<_>>().join(",")
}

pub fn parse_history(s: &str) -> Vec<Op> {
    s.split(',')
        .filter(|x| !x.is_empty())
        .map(|t| {
            let parts: Vec<&str> = t.split(':').collect();
            match parts[0] {
                "wb" => Op::WriteByte(u8::from_str_radix(parts[1], 16).unwrap()),
                "w" => Op::WriteBytes(crate::util::unhex(parts.get(1).unwrap_or(&""))),
                "r" => Op::Reserve(parts[1].parse().unwrap()),
                "wr" => Op::WriteRes(parts[1].parse().unwrap(), crate::util::unhex(parts.get(2).unwrap_or(&""))),
                _ => panic!("bad op {t}"),
            }
        })
        .collect()
}

/// The reference: an append-only log with reservations.
#[derive(Clone)]
struct Model {
    log: Vec<u8>,
    cap: Option<usize>,         // None = growable
    res: Vec<(usize, usize)>,   // remaining range of each reservation
    reserve_fill: Option<u8>,   // Some(0) for the growable target (zeroed), None = keeps previous buffer content
    initial: Vec<u8>,           // for fixed targets: the initial buffer content
}

impl Model {
    fn fits(&self, n: usize) -> bool {
        match self.cap {
            Some(c) => self.log.len().checked_add(n).is_some_and(|end| end <= c),
            None => true,
        }
    }

    /// Applies op; returns Ok(()) if it must succeed, Err(()) if it must fail (state unchanged).
    fn apply(&mut self, op: &Op) -> Result<(), ()> {
        match op {
            Op::WriteByte(b) => {
                if !self.fits(1) {
                    return Err(());
                }
                self.log.push(*b);
            }
            Op::WriteBytes(v) => {
                if !self.fits(v.len()) {
                    return Err(());
                }
                self.log.extend_from_slice(v);
            }
            Op::Reserve(n) => {
                if !self.fits(*n) {
                    return Err(());
                }
                let start = self.log.len();
                for i in 0..*n {
                    let b = match self.reserve_fill {
                        Some(z) => z,
                        None => self.initial[start + i],
                    };
                    self.log.push(b);
                }
                self.res.push((start, start + n));
            }
            Op::WriteRes(i, v) => {
                let (s, e) = self.res[*i];
                if v.len() > e - s {
                    return Err(());
                }
                self.log[s..s + v.len()].copy_from_slice(v);
                self.res[*i].0 = s + v.len();
            }
        }
        Ok(())
    }
}

fn res_debug(r: &Reservation) -> String {
    format!("{r:?}")
}

fn expected_res_debug(r: (usize, usize)) -> String {
    format!("Reservation({}..{})", r.0, r.1)
}

struct Fail {
    sig: String,
    what: String,
}

/// Context strings are only rendered when something fails (formatting dominates the cost under Miri).
struct Lazy<F: Fn() -> String>(F);

impl<F: Fn() -> String> std::fmt::Display for Lazy<F> {
    fn fmt(&self, f: &mut std::fmt::Formatter<'_>) -> std::fmt::Result {
        f.write_str(&(self.0)())
    }
}

/// Runs `history` on a fixed-slice target of capacity `cap` in lock-step with the model.
/// `peek_raw`: read the underlying allocation through a raw pointer after every operation (native runs only).
fn run_slice(history: &[Op], cap: usize, peek_raw: bool) -> Result<(), Fail> {
    let mut alloc: Box<[u8]> = if peek_raw {
        let mut v = vec![CANARY; cap + 2 * PAD];
        v[PAD..PAD + cap].fill(FILL);
        v.into_boxed_slice()
    } else {
        vec![FILL; cap].into_boxed_slice() // exact-size allocation: an out-of-bounds write is UB under Miri / ASan
    };
    let off = if peek_raw { PAD } else { 0 };
    let raw: *const u8 = alloc.as_ptr();
    let total = alloc.len();
    let mut model = Model { log: Vec::new(), cap: Some(cap), res: Vec::new(), reserve_fill: None, initial: vec![FILL; cap] };
    {
        let mut target = SliceOutputTarget::from(&mut alloc[off..off + cap]);
        let mut reservations: Vec<Reservation> = Vec::new();
        for (step, op) in history.iter().enumerate() {
            if matches!(op, Op::WriteRes(i, _) if *i >= reservations.len()) {
                continue; // the reservation this refers to was refused (did not fit): nothing to write into
            }
            let before = model.clone();
            let expect = model.apply(op);
            let got: Result<(), String> = match op {
                Op::WriteByte(b) => target.write_byte(*b).map_err(|e| format!("{e:?}")),
                Op::WriteBytes(v) => target.write_bytes_exact(v).map_err(|e| format!("{e:?}")),
                Op::Reserve(n) => match target.reserve_space(*n) {
                    Ok(r) => {
                        reservations.push(r);
                        Ok(())
                    }
                    Err(e) => Err(format!("{e:?}")),
                },
                Op::WriteRes(i, v) => target.write_bytes_into_reserved_exact(&mut reservations[*i], v).map_err(|e| format!("{e:?}")),
            };
            let ctx = Lazy(|| format!("slice target cap {cap}, step {step} ({})", op.show()));
            match (&expect, &got) {
                (Ok(()), Err(e)) => return Err(Fail { sig: "fitting-op-failed:slice".into(), what: format!("{ctx}: must succeed but failed: {e}") }),
                (Err(()), Ok(())) => return Err(Fail { sig: "non-fitting-op-succeeded:slice".into(), what: format!("{ctx}: does not fit but returned Ok") }),
                _ => {}
            }
            if expect.is_err() {
                model = before;
            }
            // position / remaining
            let rem = target.remaining();
            if rem != cap - model.log.len() {
                return Err(Fail { sig: "remaining-differs:slice".into(), what: format!("{ctx}: remaining() = {rem}, model {}", cap - model.log.len()) });
            }
            // reservations shrink from the front by exactly the bytes written
            for (i, r) in reservations.iter().enumerate() {
                if res_debug(r) != expected_res_debug(model.res[i]) {
                    return Err(Fail { sig: "reservation-range-differs:slice".into(), what: format!("{ctx}: reservation {i} is {}, model {}", res_debug(r), expected_res_debug(model.res[i])) });
                }
            }
            if peek_raw {
                // SAFETY (native only): plain read of our own live allocation.
                let snapshot: Vec<u8> = unsafe { std::slice::from_raw_parts(raw, total).to_vec() };
                check_fixed_contents(&snapshot, off, cap, &model, &ctx)?;
            }
        }
    }
    check_fixed_contents(&alloc, off, cap, &model, &Lazy(|| format!("slice target cap {cap}, end of history")))
}

fn check_fixed_contents(buf: &[u8], off: usize, cap: usize, model: &Model, ctx: &dyn std::fmt::Display) -> Result<(), Fail> {
    for (i, b) in buf.iter().enumerate() {
        let expected = if i < off || i >= off + cap {
            CANARY
        } else if i - off < model.log.len() {
            model.log[i - off]
        } else {
            FILL
        };
        if *b != expected {
            let sig = if i < off || i >= off + cap { "wrote-outside-slice" } else if i - off >= model.log.len() { "wrote-past-position:slice" } else { "contents-differ:slice" };
            return Err(Fail { sig: sig.into(), what: format!("{ctx}: byte {} of the allocation is {:02x}, model says {:02x} (log {})", i as isize - off as isize, b, expected, hex(&model.log)) });
        }
    }
    Ok(())
}

/// Growable target. `recreate`: build a fresh VecOutputTarget over the same Vec before every operation.
fn run_vec(history: &[Op], prefill: usize, spare: usize, recreate: bool) -> Result<(), Fail> {
    let mut vec: Vec<u8> = Vec::with_capacity(prefill + spare);
    for i in 0..prefill {
        vec.push(0xE0 + (i as u8 & 0xf));
    }
    // dirty the spare capacity so that "zeroed" is observable
    unsafe {
        let p = vec.as_mut_ptr().add(prefill);
        std::ptr::write_bytes(p, 0x77, spare);
    }
    let mut model = Model { log: vec.clone(), cap: None, res: Vec::new(), reserve_fill: Some(0), initial: Vec::new() };
    let mut reservations: Vec<Reservation> = Vec::new();

    macro_rules! step {
        ($target:expr, $op:expr) => {
            match $op {
                Op::WriteByte(b) => $target.write_byte(*b).map_err(|e| format!("{e:?}")),
                Op::WriteBytes(v) => $target.write_bytes_exact(v).map_err(|e| format!("{e:?}")),
                Op::Reserve(n) => match $target.reserve_space(*n) {
                    Ok(r) => {
                        reservations.push(r);
                        Ok(())
                    }
                    Err(e) => Err(format!("{e:?}")),
                },
                Op::WriteRes(i, v) => $target.write_bytes_into_reserved_exact(&mut reservations[*i], v).map_err(|e| format!("{e:?}")),
            }
        };
    }

    if recreate {
        for (step, op) in history.iter().enumerate() {
            if matches!(op, Op::WriteRes(i, _) if *i >= reservations.len()) {
                continue;
            }
            let before = model.clone();
            let expect = model.apply(op);
            let got: Result<(), String> = {
                let mut target = VecOutputTarget::from(&mut vec);
                step!(target, op)
            };
            let ctx = Lazy(|| format!("vec target (prefill {prefill}, spare {spare}), step {step} ({})", op.show()));
            match (&expect, &got) {
                (Ok(()), Err(e)) => return Err(Fail { sig: "fitting-op-failed:vec".into(), what: format!("{ctx}: failed: {e}") }),
                (Err(()), Ok(())) => return Err(Fail { sig: "non-fitting-op-succeeded:vec".into(), what: format!("{ctx}: over-long write into a reservation returned Ok") }),
                _ => {}
            }
            if expect.is_err() {
                model = before;
            }
            if vec != model.log {
                return Err(Fail { sig: "contents-differ:vec".into(), what: format!("{ctx}: vec holds {}, model {}", hex(&vec), hex(&model.log)) });
            }
            for (i, r) in reservations.iter().enumerate() {
                if res_debug(r) != expected_res_debug(model.res[i]) {
                    return Err(Fail { sig: "reservation-range-differs:vec".into(), what: format!("{ctx}: reservation {i} is {}, model {}", res_debug(r), expected_res_debug(model.res[i])) });
                }
            }
        }
    } else {
        {
            let mut target = VecOutputTarget::from(&mut vec);
            for (step, op) in history.iter().enumerate() {
                if matches!(op, Op::WriteRes(i, _) if *i >= reservations.len()) {
                    continue;
                }
                let before = model.clone();
                let expect = model.apply(op);
                let got: Result<(), String> = step!(target, op);
                let ctx = Lazy(|| format!("vec target (long-lived), step {step} ({})", op.show()));
                match (&expect, &got) {
                    (Ok(()), Err(e)) => return Err(Fail { sig: "fitting-op-failed:vec".into(), what: format!("{ctx}: failed: {e}") }),
                    (Err(()), Ok(())) => return Err(Fail { sig: "non-fitting-op-succeeded:vec".into(), what: format!("{ctx}: returned Ok") }),
                    _ => {}
                }
                if expect.is_err() {
                    model = before;
                }
                for (i, r) in reservations.iter().enumerate() {
                    if res_debug(r) != expected_res_debug(model.res[i]) {
                        return Err(Fail { sig: "reservation-range-differs:vec".into(), what: format!("{ctx}: reservation {i} is {}, model {}", res_debug(r), expected_res_debug(model.res[i])) });
                    }
                }
            }
        }
        if vec != model.log {
            return Err(Fail { sig: "contents-differ:vec".into(), what: format!("vec target end of history {}: vec holds {}, model {}", show_history(history), hex(&vec), hex(&model.log)) });
        }
    }
    Ok(())
}

// ---------------------------------------------------------------------------------------------------------------
// input source

#[derive(Clone, Debug)]
pub enum In {
    ReadByte,
    PeekByte,
    Read(usize),
    Peek(usize),
    ReadInto(usize),
    ReadExact(usize), // const generic 0..=4
    PeekExact(usize),
}

fn run_input(history: &[In], len: usize) -> Result<(), Fail> {
    let data: Box<[u8]> = (0..len).map(|i| 0x10u8.wrapping_add(i as u8)).collect::<Vec<u8>>().into_boxed_slice();
    let mut src = SliceInputSource::from(&data[..]);
    let mut pos = 0usize;
    for (step, op) in history.iter().enumerate() {
        let pos0 = pos;
        let ctx = Lazy(move || format!("input source len {len}, step {step} ({op:?}), pos {pos0}"));
        let (k, consumes) = match op {
            In::ReadByte => (1, true),
            In::PeekByte => (1, false),
            In::Read(k) | In::ReadInto(k) | In::ReadExact(k) => (*k, true),
            In::Peek(k) | In::PeekExact(k) => (*k, false),
        };
        let fits = pos.checked_add(k).is_some_and(|end| end <= len);
        let got: Result<Vec<u8>, String> = match op {
            // counts far beyond any buffer (up to usize::MAX): the result is never copied, a success is the violation itself
            In::Read(k) | In::Peek(k) if *k > (1 << 24) => {
                let r = if matches!(op, In::Read(_)) { src.read_byte_slice_exact(*k).map(|s| s.len()) } else { src.peek_byte_slice_exact(*k).map(|s| s.len()) };
                match r {
                    Ok(n) => return Err(Fail { sig: "read-past-end-succeeded".into(), what: format!("{ctx}: returned a slice of {n} bytes") }),
                    Err(e) => Err(format!("{e:?}")),
                }
            }
            In::ReadByte => src.read_byte().map(|b| vec![b]).map_err(|e| format!("{e:?}")),
            In::PeekByte => src.peek_byte().map(|b| vec![b]).map_err(|e| format!("{e:?}")),
            In::Read(k) => src.read_byte_slice_exact(*k).map(|s| s.to_vec()).map_err(|e| format!("{e:?}")),
            In::Peek(k) => src.peek_byte_slice_exact(*k).map(|s| s.to_vec()).map_err(|e| format!("{e:?}")),
            In::ReadInto(k) => {
                let mut dst = vec![0xEEu8; *k].into_boxed_slice();
                match src.read_bytes_into_exact(&mut dst) {
                    Ok(()) => Ok(dst.to_vec()),
                    Err(e) => {
                        if dst.iter().any(|b| *b != 0xEE) {
                            return Err(Fail { sig: "failed-read-wrote-destination".into(), what: ctx.to_string() });
                        }
                        Err(format!("{e:?}"))
                    }
                }
            }
            In::ReadExact(k) => match k {
                0 => src.read_bytes_exact::<0>().map(|a| a.to_vec()),
                1 => src.read_bytes_exact::<1>().map(|a| a.to_vec()),
                2 => src.read_bytes_exact::<2>().map(|a| a.to_vec()),
                3 => src.read_bytes_exact::<3>().map(|a| a.to_vec()),
                4 => src.read_bytes_exact::<4>().map(|a| a.to_vec()),
                _ => src.read_bytes_exact::<8>().map(|a| a.to_vec()),
            }
            .map_err(|e| format!("{e:?}")),
            In::PeekExact(k) => match k {
                0 => src.peek_bytes_exact::<0>().map(|a| a.to_vec()),
                1 => src.peek_bytes_exact::<1>().map(|a| a.to_vec()),
                2 => src.peek_bytes_exact::<2>().map(|a| a.to_vec()),
                3 => src.peek_bytes_exact::<3>().map(|a| a.to_vec()),
                4 => src.peek_bytes_exact::<4>().map(|a| a.to_vec()),
                _ => src.peek_bytes_exact::<8>().map(|a| a.to_vec()),
            }
            .map_err(|e| format!("{e:?}")),
        };
        let k = if matches!(op, In::ReadExact(k) | In::PeekExact(k) if *k > 4) { 8 } else { k };
        let fits = if k == 8 { pos + 8 <= len } else { fits };
        match got {
            Ok(bytes) => {
                if !fits {
                    return Err(Fail { sig: "read-past-end-succeeded".into(), what: format!("{ctx}: returned {}", hex(&bytes)) });
                }
                if bytes != data[pos..pos + k] {
                    return Err(Fail { sig: "read-wrong-bytes".into(), what: format!("{ctx}: returned {}, buffer holds {}", hex(&bytes), hex(&data[pos..pos + k])) });
                }
                if consumes {
                    pos += k;
                }
            }
            Err(e) => {
                if fits {
                    return Err(Fail { sig: "fitting-read-failed".into(), what: format!("{ctx}: {e}") });
                }
            }
        }
        if src.remaining() != len - pos {
            return Err(Fail { sig: if consumes { "read-position-differs" } else { "peek-consumed" }.into(), what: format!("{ctx}: remaining() = {}, model {}", src.remaining(), len - pos) });
        }
    }
    Ok(())
}

// ---------------------------------------------------------------------------------------------------------------
// enumeration

fn op_alphabet(live_reservations: usize) -> Vec<Op> {
    let mut v = vec![Op::WriteByte(0x01)];
    for k in 0..=3usize {
        v.push(Op::WriteBytes((0..k).map(|i| 0x20 + i as u8).collect()));
        v.push(Op::Reserve(k));
    }
    for r in 0..live_reservations {
        for k in 0..=3usize {
            v.push(Op::WriteRes(r, (0..k).map(|i| 0xC0 + i as u8).collect()));
        }
    }
    v
}

/// Depth-first enumeration of every history of length <= maxlen; calls f on every history (all prefixes included).
/// Sharding: length-1 histories belong to shard 0; every subtree rooted at a length-2 prefix belongs to one shard.
fn enumerate(maxlen: usize, prefix: &mut Vec<Op>, nres: usize, shard: usize, shards: usize, counter: &mut u64, f: &mut dyn FnMut(&[Op])) {
    if prefix.len() == maxlen {
        return;
    }
    for op in op_alphabet(nres) {
        let adds = matches!(op, Op::Reserve(_)) as usize;
        prefix.push(op);
        let mut run_self = true;
        let mut descend = true;
        if prefix.len() == 1 {
            run_self = shard == 0;
        } else if prefix.len() == 2 {
            *counter += 1;
            if (*counter as usize) % shards != shard {
                run_self = false;
                descend = false;
            }
        }
        if run_self {
            f(prefix);
        }
        if descend {
            enumerate(maxlen, prefix, nres + adds, shard, shards, counter, f);
        }
        prefix.pop();
    }
}

fn input_alphabet() -> Vec<In> {
    let mut v = vec![In::ReadByte, In::PeekByte];
    for k in 0..=3 {
        v.push(In::Read(k));
        v.push(In::Peek(k));
        v.push(In::ReadInto(k));
        v.push(In::ReadExact(k));
        v.push(In::PeekExact(k));
    }
    v
}

/// Counts at the far end of usize: `pos + count` overflows unless the bound is computed as `remaining < count`.
const HUGE: [usize; 7] = [usize::MAX, usize::MAX - 1, usize::MAX - 2, usize::MAX - 3, usize::MAX - 4, (isize::MAX as usize) + 1, isize::MAX as usize];

fn huge_input_family(out: &mut Outcome) {
    let mut alphabet = vec![In::ReadByte, In::Read(1), In::Read(2), In::Read(3), In::Peek(1)];
    // the interpreter costs ~0.1 s per history: it gets two of the counts and two buffer lengths
    let huge: &[usize] = if cfg!(miri) { &HUGE[..2] } else { &HUGE[..] };
    for h in huge {
        alphabet.push(In::Read(*h));
        alphabet.push(In::Peek(*h));
    }
    if cfg!(miri) {
        alphabet.retain(|op| !matches!(op, In::Read(2) | In::Read(3) | In::Peek(1)));
    }
    for len in (if cfg!(miri) { vec![0usize, 3] } else { (0..=5usize).collect::<Vec<_>>() }) {
        for a in &alphabet {
            for b in &alphabet {
                for c in &alphabet {
                    let h = vec![a.clone(), b.clone(), c.clone()];
                    if !h.iter().any(|op| matches!(op, In::Read(k) | In::Peek(k) if *k > 8)) {
                        continue;
                    }
                    guarded(out, || format!("c12 input {len} {h:?}"), || run_input(&h, len));
                    out.count("huge_count_input_histories", 1);
                }
            }
        }
    }
    // the fixed-slice target: a reservation of a huge size never fits, wherever the cursor stands
    for cap in (if cfg!(miri) { vec![0usize, 3] } else { (0..=4usize).collect::<Vec<_>>() }) {
        for pre in 0..=cap {
            for h in huge.iter().copied() {
                let hist = vec![Op::WriteBytes(vec![0x11; pre]), Op::Reserve(h), Op::WriteByte(0x22)];
                guarded(out, || format!("c12 slice {cap} {}", show_history(&hist)), || run_slice(&hist, cap, false));
                out.count("huge_reservation_histories", 1);
            }
        }
    }
}

/// Positions beyond 2^32: the log is a `usize` long, and a position or a reservation kept in anything narrower wraps there.
/// The buffers are allocated zeroed (lazily mapped), so only the pages that are written are ever touched: the growable target
/// starts from a 4 GiB vector of zeros, and the fixed-slice target (thorough tier only: its cursor has to be *written* past the
/// mark, which touches 4 GiB) from a zeroed slice. Native build only.
/// A zeroed vector of `len` bytes with `spare` bytes of spare capacity, or None when the allocator refuses (a machine without that
/// much address space to give is not a verdict about the code).
fn zeroed_vec(len: usize, spare: usize) -> Option<Vec<u8>> {
    let layout = std::alloc::Layout::array::<u8>(len + spare).ok()?;
    // SAFETY: the layout has a non-zero size; the pointer, when not null, is a fresh zeroed allocation of exactly that layout.
    unsafe {
        let p = std::alloc::alloc_zeroed(layout);
        if p.is_null() {
            return None;
        }
        Some(Vec::from_raw_parts(p, len, len + spare))
    }
}

fn huge_offset_family(out: &mut Outcome, with_slice_target: bool) {
    const MARK: usize = 1usize << 32;
    let data = [0xC1u8, 0xC2, 0xC3, 0xC4, 0xC5];
    let check = |out: &mut Outcome, what: &str, buf: &[u8], pos: usize, expect_at_pos: &[u8]| {
        out.evaluations += 1;
        if &buf[pos..pos + expect_at_pos.len()] != expect_at_pos {
            out.violate("huge-offset:reserved-bytes-wrong", format!("{what}: bytes at position 2^32+{} are {} expected {}", pos - MARK, hex(&buf[pos..pos + expect_at_pos.len()]), hex(expect_at_pos)), String::new());
        }
        // the low image of the position (position mod 2^32) and its neighbourhood must still be zero
        let low = pos - MARK;
        if buf[..low + 64].iter().any(|b| *b != 0) {
            out.violate("huge-offset:wrote-near-start", format!("{what}: a write at position 2^32+{low} changed bytes near the start of the log: {}", hex(&buf[..low + 16])), String::new());
        }
    };
    for lead in [0usize, 7, 40] {
        // growable target over a vector that is already 2^32 + lead bytes long
        let Some(mut v) = zeroed_vec(MARK + lead, if lead == 7 { 0 } else { 4096 }) else {
            out.count("huge_offset_skipped_allocation_refused", 1);
            continue;
        };
        let outcome = catch_unwind(AssertUnwindSafe(|| {
            let mut t = VecOutputTarget::from(&mut v);
            let mut r = t.reserve_space(8).map_err(|e| format!("reserve_space(8): {e:?}"))?;
            t.write_bytes_exact(&[0xAB, 0xAC]).map_err(|e| format!("write_bytes_exact: {e:?}"))?;
            t.write_bytes_into_reserved_exact(&mut r, &data[..3]).map_err(|e| format!("write into reservation (3 bytes): {e:?}"))?;
            t.write_bytes_into_reserved_exact(&mut r, &data[3..]).map_err(|e| format!("write into reservation (2 more bytes): {e:?}"))?;
            if t.write_bytes_into_reserved_exact(&mut r, &data[..4]).is_ok() {
                return Err("4 bytes accepted by a reservation with 3 bytes left".to_owned());
            }
            Ok::<(), String>(())
        }));
        out.count("huge_offset_histories", 1);
        match outcome {
            Err(_) => out.violate(&format!("panic:{}", crate::take_last_panic().unwrap_or_default()), format!("growable target at position 2^32+{lead} panicked"), String::new()),
            Ok(Err(why)) if why.contains("Allocation") => out.count("huge_offset_skipped_allocation_refused", 1),
            Ok(Err(why)) => out.violate("huge-offset:fitting-op-failed", format!("growable target at position 2^32+{lead}: {why}"), String::new()),
            Ok(Ok(())) => {
                if v.len() != MARK + lead + 10 {
                    out.violate("huge-offset:length", format!("growable target at 2^32+{lead}: length grew by {} instead of 10", v.len() - MARK - lead), String::new());
                } else {
                    check(out, "growable target", &v, MARK + lead, &[0xC1, 0xC2, 0xC3, 0xC4, 0xC5, 0, 0, 0, 0xAB, 0xAC]);
                }
            }
        }
        drop(v);
        if !with_slice_target {
            continue;
        }
        let (Some(mut mem), Some(zeros)) = (zeroed_vec(MARK + lead + 24, 0), zeroed_vec(1 << 28, 0)) else {
            out.count("huge_offset_skipped_allocation_refused", 1);
            continue;
        };
        let outcome = catch_unwind(AssertUnwindSafe(|| {
            let mut t = SliceOutputTarget::from(&mut mem[..]);
            let mut left = MARK + lead;
            while left > 0 {
                let n = left.min(zeros.len());
                t.write_bytes_exact(&zeros[..n]).map_err(|e| format!("write_bytes_exact while advancing: {e:?}"))?;
                left -= n;
            }
            let mut r = t.reserve_space(8).map_err(|e| format!("reserve_space(8): {e:?}"))?;
            t.write_bytes_exact(&[0xAB, 0xAC]).map_err(|e| format!("write_bytes_exact: {e:?}"))?;
            t.write_bytes_into_reserved_exact(&mut r, &data).map_err(|e| format!("write into reservation: {e:?}"))?;
            if t.write_bytes_exact(&[0u8; 15]).is_ok() {
                return Err("15 bytes accepted with 14 left".to_owned());
            }
            t.write_bytes_exact(&[0xEE; 14]).map_err(|e| format!("last 14 bytes: {e:?}"))?;
            Ok::<(), String>(())
        }));
        out.count("huge_offset_histories", 1);
        match outcome {
            Err(_) => out.violate(&format!("panic:{}", crate::take_last_panic().unwrap_or_default()), format!("fixed-slice target at position 2^32+{lead} panicked"), String::new()),
            Ok(Err(why)) => out.violate("huge-offset:fitting-op-failed", format!("fixed-slice target at position 2^32+{lead}: {why}"), String::new()),
            Ok(Ok(())) => {
                let mut expect = vec![0xC1, 0xC2, 0xC3, 0xC4, 0xC5];
                expect.extend_from_slice(&mem[MARK + lead + 5..MARK + lead + 8].to_vec());  // the unfilled rest of the reservation: whatever it held (zeros)
                expect.extend_from_slice(&[0xAB, 0xAC]);
                expect.extend_from_slice(&[0xEE; 14]);
                check(out, "fixed-slice target", &mem, MARK + lead, &expect);
            }
        }
    }
}

/// Operations of 64 KiB and more on the growable target, with every kind of spare capacity in front of them (growth policies
/// change with size; what matters is capacity counted from the length, not from the old capacity).
fn big_vec_family(out: &mut Outcome) {
    for prefill in [0usize, 5] {
        for spare in [0usize, 1, 100, 4096, 65535, 65536, 70000] {
            for big in [65535usize, 65536, 65537, 70000, 131072] {
                let data: Vec<u8> = (0..big).map(|i| (i * 7 + 3) as u8).collect();
                let histories: Vec<Vec<Op>> = vec![
                    vec![Op::WriteBytes(data.clone()), Op::WriteByte(0x42)],
                    vec![Op::Reserve(big), Op::WriteByte(0x42), Op::WriteRes(0, vec![1, 2, 3]), Op::WriteRes(0, data[..big - 3].to_vec())],
                    vec![Op::WriteBytes(vec![9, 9, 9]), Op::WriteBytes(data.clone()), Op::Reserve(big), Op::WriteBytes(data[..100].to_vec())],
                ];
                for h in &histories {
                    for recreate in [false, true] {
                        guarded(out, || format!("c12 bigvec prefill {prefill} spare {spare} size {big} recreate {recreate}"), || run_vec(h, prefill, spare, recreate));
                        out.count("big_vec_histories", 1);
                    }
                }
            }
        }
    }
}

/// A reservation handed to a *different* fixed-slice target over a shorter window of the same memory (reservations carry no
/// lifetime): whatever the answer, nothing past that target's end changes; a refusal changes nothing at all.
fn foreign_reservation_family(out: &mut Outcome) {
    // the interpreter gets a thinned grid (about 150 cases instead of 38 k)
    let thin = cfg!(miri);
    for total in (if thin { vec![8usize] } else { vec![8usize, 16] }) {
        for a in 0..=total {
            for k in 0..=(total - a).min(6) {
                for w in 0..=total {
                    for b in 0..=w.min(4) {
                        for n in 0..=k.min(4) + 1 {
                            if thin && !([0usize, 3, 8].contains(&a) && [0usize, 2, 5].contains(&k) && [0usize, 4, 8].contains(&w) && [0usize, 2].contains(&b) && [0usize, 1, 3].contains(&n)) {
                                continue;
                            }
                            out.evaluations += 1;
                            out.count("foreign_reservation_cases", 1);
                            let mut mem: Box<[u8]> = vec![0xEEu8; total].into_boxed_slice();
                            let mut reservation = {
                                let mut first = SliceOutputTarget::from(&mut mem[..]);
                                if first.write_bytes_exact(&vec![0xA1u8; a]).is_err() {
                                    continue;
                                }
                                match first.reserve_space(k) {
                                    Ok(r) => r,
                                    Err(_) => continue,
                                }
                            };
                            let data: Vec<u8> = (0..n).map(|i| 0x50 + i as u8).collect();
                            let attempt = catch_unwind(AssertUnwindSafe(|| {
                                let mut second = SliceOutputTarget::from(&mut mem[..w]);
                                if second.write_bytes_exact(&vec![0xB2u8; b]).is_err() {
                                    return None;
                                }
                                Some(second.write_bytes_into_reserved_exact(&mut reservation, &data).is_ok())
                            }));
                            let result = match attempt {
                                Ok(Some(r)) => r,
                                Ok(None) => continue,
                                Err(_) => {
                                    let info = crate::take_last_panic().unwrap_or_default();
                                    out.violate(&format!("panic:{info}"), format!("writing into a foreign reservation panicked: {info} (total {total} a {a} k {k} w {w} b {b} n {n})"), String::new());
                                    continue;
                                }
                            };
                            // what memory must look like apart from the contested write
                            let mut expect: Vec<u8> = vec![0xEEu8; total];
                            for i in 0..a {
                                expect[i] = 0xA1;
                            }
                            for i in 0..b {
                                expect[i] = 0xB2;
                            }
                            let what = || format!("memory of {total} bytes, first target wrote {a} and reserved {k}, second target over [..{w}] wrote {b} then {n} bytes into that reservation");
                            if result {
                                if n > k || a + n > w {
                                    out.violate("foreign-reservation-write-accepted", format!("{}: accepted although it does not fit the reservation inside the window", what()), String::new());
                                    continue;
                                }
                                for i in 0..n {
                                    expect[a + i] = data[i];
                                }
                            }
                            if mem[w..] != expect[w..] {
                                out.violate("wrote-past-end-of-slice", format!("{}: bytes past the window changed: {} (expected {})", what(), hex(&mem[w..]), hex(&expect[w..])), String::new());
                            } else if mem[..] != expect[..] {
                                out.violate(if result { "reservation-write-misplaced" } else { "refused-reservation-write-changed-buffer" },
                                            format!("{}: memory is {} expected {}", what(), hex(&mem), hex(&expect)), String::new());
                            }
                        }
                    }
                }
            }
        }
    }
}

fn guarded(out: &mut Outcome, replay: impl FnOnce() -> String, f: impl FnOnce() -> Result<(), Fail>) {
    out.evaluations += 1;
    match catch_unwind(AssertUnwindSafe(f)) {
        Ok(Ok(())) => {}
        Ok(Err(fail)) => out.violate(&fail.sig, fail.what, replay()),
        Err(_) => {
            let info = crate::take_last_panic().unwrap_or_default();
            let replay = replay();
            out.violate(&format!("panic:{info}"), format!("buffer operation panicked: {info} ({replay})"), replay);
        }
    }
}

fn random_history(rng: &mut Rng, len: usize, max_size: usize) -> Vec<Op> {
    let mut h = Vec::new();
    let mut nres = 0usize;
    for _ in 0..len {
        let size = |rng: &mut Rng| -> usize {
            match rng.below(8) {
                0 => 0,
                1..=4 => rng.below(9) as usize,
                5..=6 => rng.below(65) as usize,
                _ => rng.below(max_size as u64 + 1) as usize,
            }
        };
        let bytes = |rng: &mut Rng, n: usize| -> Vec<u8> { (0..n).map(|_| rng.next() as u8).collect() };
        let op = match rng.below(10) {
            0..=1 => Op::WriteByte(rng.next() as u8),
            2..=4 => {
                let n = size(rng);
                Op::WriteBytes(bytes(rng, n))
            }
            5..=6 if nres < 8 => {
                nres += 1;
                Op::Reserve(size(rng))
            }
            _ if nres > 0 => {
                let n = size(rng).min(80);
                Op::WriteRes(rng.below(nres as u64) as usize, bytes(rng, n))
            }
            _ => Op::WriteByte(rng.next() as u8),
        };
        h.push(op);
    }
    h
}

pub fn run(p: &Params) -> Outcome {
    let scale = p.scale.as_str();
    let thorough = p.tier == "thorough";
    let (maxlen, in_maxlen, nrandom, rand_len, max_size) = match (scale, thorough) {
        ("native", false) => (4usize, 3usize, 2_000u64, 200usize, 4096usize),
        ("native", true) => (5, 4, 50_000, 200, 4096),
        ("sanitizer", false) => (3, 3, 500, 200, 4096),
        ("sanitizer", true) => (4, 3, 5_000, 200, 4096),
        (_, false) => (2, 2, 8, 24, 48), // miri (per shard)
        (_, true) => (3, 2, 60, 30, 64),
    };
    let threads = if scale == "miri" { 1 } else { p.threads.max(1) };
    let shards = if scale == "miri" { p.shards.max(1) } else { threads };
    let peek_raw = scale == "native";
    let mut total = parallel(threads, |ti| {
        let shard = if scale == "miri" { p.shard } else { ti };
        let mut out = Outcome::default();
        // 1. bounded-exhaustive histories on every capacity 0..=4 (fixed) and on the growable target
        let mut counter = 0u64;
        let mut prefix = Vec::new();
        let mut histories = 0u64;
        enumerate(maxlen, &mut prefix, 0, shard, shards, &mut counter, &mut |h: &[Op]| {
            histories += 1;
            for cap in 0..=4usize {
                guarded(&mut out, || format!("c12 slice {cap} {}", show_history(h)), || run_slice(h, cap, peek_raw));
            }
            guarded(&mut out, || format!("c12 vec 0 0 {}", show_history(h)), || run_vec(h, 0, 0, true));
            guarded(&mut out, || format!("c12 vec 2 3 {}", show_history(h)), || run_vec(h, 2, 3, true));
            guarded(&mut out, || format!("c12 veclong 0 8 {}", show_history(h)), || run_vec(h, 0, 8, false));
        });
        out.nontrivial += histories;
        out.count("exhaustive_output_histories", histories);

        // 2. input source: all sequences of length <= in_maxlen on lengths 0..=4
        let alpha = input_alphabet();
        let mut idx = vec![0usize; 0];
        let mut n_in = 0u64;
        fn rec(alpha: &[In], cur: &mut Vec<usize>, maxlen: usize, shard: usize, shards: usize, n: &mut u64, f: &mut dyn FnMut(&[In])) {
            if cur.len() == maxlen {
                return;
            }
            for i in 0..alpha.len() {
                if cur.is_empty() && i % shards != shard {
                    continue;
                }
                cur.push(i);
                let h: Vec<In> = cur.iter().map(|j| alpha[*j].clone()).collect();
                *n += 1;
                f(&h);
                rec(alpha, cur, maxlen, shard, shards, n, f);
                cur.pop();
            }
        }
        rec(&alpha, &mut idx, in_maxlen, shard, shards, &mut n_in, &mut |h: &[In]| {
            for len in 0..=4usize {
                guarded(&mut out, || format!("c12 input {len} {h:?}"), || run_input(h, len));
            }
        });
        out.nontrivial += n_in;
        out.count("exhaustive_input_histories", n_in);
        if shard == 0 {
            huge_input_family(&mut out);
        }
        if shard == 1 % shards && !cfg!(miri) {
            big_vec_family(&mut out);
        }
        if shard == 2 % shards {
            foreign_reservation_family(&mut out);
        }
        if shard == 3 % shards && scale == "native" {
            huge_offset_family(&mut out, thorough);
        }

        // 3. random long histories
        let mut rng = Rng::new(p.seed.wrapping_mul(31337).wrapping_add(shard as u64));
        for _ in 0..(nrandom / shards as u64).max(1) {
            let h = random_history(&mut rng, rand_len, max_size);
            let total_bytes: usize = h.iter().map(|op| match op { Op::WriteByte(_) => 1, Op::WriteBytes(v) => v.len(), Op::Reserve(n) => *n, _ => 0 }).sum();
            // capacities: roomy, exactly enough, and too small (so that failing operations occur mid-history)
            for cap in [total_bytes + 7, total_bytes, total_bytes / 2, total_bytes / 7] {
                guarded(&mut out, || format!("c12 slice {cap} {}", show_history(&h)), || run_slice(&h, cap, peek_raw));
                // checkpoints: the same history cut at random points, so that intermediate contents are also compared
                // when the raw view is not available (Miri / ASan)
                if !peek_raw {
                    for _ in 0..3 {
                        let cut = rng.below(h.len() as u64 + 1) as usize;
                        guarded(&mut out, || format!("c12 slice {cap} {}", show_history(&h[..cut])), || run_slice(&h[..cut], cap, false));
                    }
                }
            }
            guarded(&mut out, || format!("c12 vec 0 0 {}", show_history(&h)), || run_vec(&h, 0, 0, true));
            guarded(&mut out, || format!("c12 veclong 3 100 {}", show_history(&h)), || run_vec(&h, 3, 100, false));
            out.count("random_histories", 1);
            out.count("random_history_ops", h.len() as u64);
            // random input histories
            let ih: Vec<In> = (0..rand_len).map(|_| {
                let k = match rng.below(4) { 0 => rng.below(4) as usize, 1 => rng.below(40) as usize, _ => rng.below(9) as usize };
                match rng.below(7) { 0 => In::ReadByte, 1 => In::PeekByte, 2 => In::Read(k), 3 => In::Peek(k), 4 => In::ReadInto(k), 5 => In::ReadExact(k.min(8)), _ => In::PeekExact(k.min(8)) }
            }).collect();
            for len in if scale == "miri" { vec![0usize, 1, 17, 40] } else { vec![0usize, 1, 17, 300, 1500] } {
                guarded(&mut out, || format!("c12 input {len} {ih:?}"), || run_input(&ih, len));
            }
        }
        out
    });
    total.sample(format!("all output histories of length <= {maxlen} over {{write_byte, write_bytes k, reserve k, write k bytes into reservation r}} (k in 0..3) on fixed capacities 0..4 and growable targets; e.g. {}",
        show_history(&[Op::Reserve(2), Op::WriteByte(1), Op::WriteRes(0, vec![0xC0]), Op::WriteRes(0, vec![0xC0, 0xC1])])));
    total.sample(format!("all input histories of length <= {in_maxlen} over 17 read/peek operations on buffers of length 0..4"));
    total
}

pub fn replay(args: &[String]) -> Outcome {
    let mut out = Outcome::default();
    match args[0].as_str() {
        "slice" => {
            let cap: usize = args[1].parse().unwrap();
            let h = parse_history(args.get(2).map(String::as_str).unwrap_or(""));
            guarded(&mut out, || "replay".to_owned(), || run_slice(&h, cap, true));
        }
        "vec" | "veclong" => {
            let h = parse_history(args.get(3).map(String::as_str).unwrap_or(""));
            let (a, b): (usize, usize) = (args[1].parse().unwrap(), args[2].parse().unwrap());
            let recreate = args[0] == "vec";
            guarded(&mut out, || "replay".to_owned(), || run_vec(&h, a, b, recreate));
        }
        _ => {}
    }
    out
}
