// vc: codec harness for C10 / C11 / C12. Links slice-codec only (plus a copy of slicec's definition_types.rs for the
// generator-reply types). Prints one JSON object describing what was executed and every disagreement found.

mod c10;
mod c11;
mod c12;
#[allow(dead_code, unused_imports, clippy::all)]
mod definition_types;
mod real;
mod refmodel;
mod util;

use std::cell::RefCell;

// The panic hook runs on the panicking thread, and catch_unwind returns on that same thread: the record is per thread, so the
// message a worker thread reads is the one of its own panic.
thread_local! { pub static LAST_PANIC: RefCell<Option<String>> = const { RefCell::new(None) }; }

pub fn take_last_panic() -> Option<String> {
    LAST_PANIC.with(|p| p.borrow_mut().take())
}

fn main() {
    let args: Vec<String> = std::env::args().collect();
    std::panic::set_hook(Box::new(|info| {
        let message = if let Some(s) = info.payload().downcast_ref::<&str>() {
            (*s).to_owned()
        } else if let Some(s) = info.payload().downcast_ref::<String>() {
            s.clone()
        } else {
            "<non-string panic payload>".to_owned()
        };
        let file = info.location().map(|l| l.file().to_owned()).unwrap_or_default();
        let file = file.rsplit("slice-codec/").next().unwrap_or(&file).to_owned();
        let stem: String = message.chars().map(|c| if c.is_ascii_digit() { '_' } else { c }).take(60).collect();
        LAST_PANIC.with(|p| *p.borrow_mut() = Some(format!("{file}:{stem}")));
    }));

    let get = |name: &str, default: &str| -> String {
        args.iter().position(|a| a == name).and_then(|i| args.get(i + 1)).cloned().unwrap_or_else(|| default.to_owned())
    };
    let params = c11::Params {
        tier: get("--tier", "quick"),
        seed: get("--seed", "0").parse().unwrap_or(0),
        threads: get("--threads", "16").parse().unwrap_or(16),
        scale: get("--scale", "native"),
        shard: get("--shard", "0").parse().unwrap_or(0),
        shards: get("--shards", "1").parse().unwrap_or(1),
    };
    let outcome = match args.get(1).map(String::as_str) {
        Some("c10") => c10::run(&params),
        Some("c11") => c11::run(&params),
        Some("c12") => c12::run(&params),
        Some("fuzzcase") => c11::fuzzcase(args.get(2).map(String::as_str).unwrap_or("")),
        Some("replay") => match args.get(2).map(String::as_str) {
            Some("c11") => c11::replay(&args[3], args.get(4).map(String::as_str).unwrap_or("")),
            Some("c12") => c12::replay(&args[3..]),
            _ => util::Outcome::default(),
        },
        _ => {
            eprintln!("usage: vc c10|c11|c12 [--tier T] [--seed N] [--threads N] [--scale native|sanitizer|miri] [--shard i --shards n] | vc replay ...");
            std::process::exit(2);
        }
    };
    println!("{}", outcome.to_json());
}
