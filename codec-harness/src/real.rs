// Adapters that run the *real* slice-codec entry points and convert what they return into `Val`s.
// Inputs are copied into exact-size heap allocations so that a one-byte over-read is visible to Miri / ASan.

use crate::definition_types::{Diagnostic, DiagnosticLevel, GeneratedFile};
use crate::refmodel::{Ty, Val};
use slice_codec::buffer::InputSource;
use slice_codec::decode_from::DecodeFrom;
use slice_codec::decoder::Decoder;
use std::collections::{BTreeMap, HashMap};

pub trait ToVal {
    fn to_val(&self) -> Val;
}

macro_rules! int_to_val {
    ($($t:ty),*) => { $(impl ToVal for $t { fn to_val(&self) -> Val { Val::Int(*self as i128) } })* };
}
int_to_val!(u8, i8, u16, i16, u32, i32, u64, i64, usize);

impl ToVal for bool {
    fn to_val(&self) -> Val {
        Val::Bool(*self)
    }
}

impl ToVal for f32 {
    fn to_val(&self) -> Val {
        Val::Bits32(self.to_bits())
    }
}

impl ToVal for f64 {
    fn to_val(&self) -> Val {
        Val::Bits64(self.to_bits())
    }
}

impl ToVal for String {
    fn to_val(&self) -> Val {
        Val::Str(self.clone())
    }
}

impl<T: ToVal> ToVal for Vec<T> {
    fn to_val(&self) -> Val {
        Val::Seq(self.iter().map(ToVal::to_val).collect())
    }
}

impl<K: ToVal, V: ToVal> ToVal for HashMap<K, V> {
    fn to_val(&self) -> Val {
        let mut items: Vec<(Val, Val)> = self.iter().map(|(k, v)| (k.to_val(), v.to_val())).collect();
        items.sort();
        Val::Map(items)
    }
}

impl<K: ToVal, V: ToVal> ToVal for BTreeMap<K, V> {
    fn to_val(&self) -> Val {
        let mut items: Vec<(Val, Val)> = self.iter().map(|(k, v)| (k.to_val(), v.to_val())).collect();
        items.sort();
        Val::Map(items)
    }
}

impl ToVal for GeneratedFile {
    fn to_val(&self) -> Val {
        Val::Rec(vec![Val::Str(self.path.clone()), Val::Str(self.contents.clone())])
    }
}

impl ToVal for DiagnosticLevel {
    fn to_val(&self) -> Val {
        Val::Int(*self as u8 as i128)
    }
}

impl ToVal for Diagnostic {
    fn to_val(&self) -> Val {
        let source = match &self.source {
            Some(s) => Val::Seq(vec![Val::Str(s.clone())]),
            None => Val::Seq(vec![]),
        };
        Val::Rec(vec![self.level.to_val(), Val::Str(self.message.clone()), source])
    }
}

/// What a real decode produced.
pub struct Decoded {
    pub result: Result<Val, slice_codec::Error>,
    pub consumed: usize,
    pub remaining_after: usize,
}

fn run<T, F>(data: &[u8], f: F) -> Decoded
where
    T: ToVal,
    F: FnOnce(&mut Decoder<slice_codec::buffer::slice::SliceInputSource>) -> slice_codec::Result<T>,
{
    let exact: Box<[u8]> = data.into(); // exact-size allocation
    let mut decoder = Decoder::from(&exact[..]);
    let before = decoder.remaining();
    let r = f(&mut decoder);
    let after = decoder.remaining();
    Decoded {
        result: r.map(|v| v.to_val()),
        consumed: before.wrapping_sub(after),
        remaining_after: after,
    }
}

fn plain<T: DecodeFrom + ToVal>(data: &[u8]) -> Decoded {
    run::<T, _>(data, |d| d.decode::<T>())
}

pub struct Case {
    pub name: &'static str,
    pub ty: Ty,
    pub real: fn(&[u8]) -> Decoded,
    pub sized: bool, // begins with a size prefix
}

struct UnitVal;
impl ToVal for UnitVal {
    fn to_val(&self) -> Val {
        Val::Unit
    }
}

// User-defined targets of decode_varint / decode_varuint (the functions are generic over `T: TryFrom<i64 / u64>`): a zero-sized
// type (an enum with a single variant is one) and a type wider than 128 bits. Neither is an integer, both are legal.
#[derive(Debug, PartialEq)]
pub enum Version {
    V1 = 1,
}
impl TryFrom<u64> for Version {
    type Error = ();
    fn try_from(v: u64) -> Result<Self, ()> {
        if v == 1 { Ok(Version::V1) } else { Err(()) }
    }
}
impl TryFrom<i64> for Version {
    type Error = ();
    fn try_from(v: i64) -> Result<Self, ()> {
        if v == 1 { Ok(Version::V1) } else { Err(()) }
    }
}
impl ToVal for Version {
    fn to_val(&self) -> Val {
        Val::Int(1)
    }
}
#[derive(Debug, PartialEq)]
pub struct Wide(pub [i64; 4]);
impl TryFrom<u64> for Wide {
    type Error = ();
    fn try_from(v: u64) -> Result<Self, ()> {
        if v <= 100 { Ok(Wide([v as i64, 0, 0, 0])) } else { Err(()) }
    }
}
impl TryFrom<i64> for Wide {
    type Error = ();
    fn try_from(v: i64) -> Result<Self, ()> {
        if (-100..=100).contains(&v) { Ok(Wide([v, 0, 0, 0])) } else { Err(()) }
    }
}
impl ToVal for Wide {
    fn to_val(&self) -> Val {
        Val::Int(self.0[0] as i128)
    }
}
impl ToVal for i128 {
    fn to_val(&self) -> Val {
        Val::Int(*self)
    }
}
impl ToVal for u128 {
    fn to_val(&self) -> Val {
        Val::Int(*self as i128)
    }
}

pub fn cases() -> Vec<Case> {
    fn b(t: Ty) -> Box<Ty> {
        Box::new(t)
    }
    let mut v = vec![
        Case { name: "bool", ty: Ty::Bool, real: plain::<bool>, sized: false },
        Case { name: "u8", ty: Ty::U8, real: plain::<u8>, sized: false },
        Case { name: "i8", ty: Ty::I8, real: plain::<i8>, sized: false },
        Case { name: "u16", ty: Ty::U16, real: plain::<u16>, sized: false },
        Case { name: "i16", ty: Ty::I16, real: plain::<i16>, sized: false },
        Case { name: "u32", ty: Ty::U32, real: plain::<u32>, sized: false },
        Case { name: "i32", ty: Ty::I32, real: plain::<i32>, sized: false },
        Case { name: "u64", ty: Ty::U64, real: plain::<u64>, sized: false },
        Case { name: "i64", ty: Ty::I64, real: plain::<i64>, sized: false },
        Case { name: "f32", ty: Ty::F32, real: plain::<f32>, sized: false },
        Case { name: "f64", ty: Ty::F64, real: plain::<f64>, sized: false },
        Case { name: "varint->i8", ty: Ty::VarInt(8), real: |d| run::<i8, _>(d, |x| x.decode_varint::<i8>()), sized: false },
        Case { name: "varint->i16", ty: Ty::VarInt(16), real: |d| run::<i16, _>(d, |x| x.decode_varint::<i16>()), sized: false },
        Case { name: "varint->i32", ty: Ty::VarInt(32), real: |d| run::<i32, _>(d, |x| x.decode_varint::<i32>()), sized: false },
        Case { name: "varint->i64", ty: Ty::VarInt(64), real: |d| run::<i64, _>(d, |x| x.decode_varint::<i64>()), sized: false },
        Case { name: "varuint->u8", ty: Ty::VarUInt(8), real: |d| run::<u8, _>(d, |x| x.decode_varuint::<u8>()), sized: false },
        Case { name: "varuint->u16", ty: Ty::VarUInt(16), real: |d| run::<u16, _>(d, |x| x.decode_varuint::<u16>()), sized: false },
        Case { name: "varuint->u32", ty: Ty::VarUInt(32), real: |d| run::<u32, _>(d, |x| x.decode_varuint::<u32>()), sized: false },
        Case { name: "varuint->u64", ty: Ty::VarUInt(64), real: |d| run::<u64, _>(d, |x| x.decode_varuint::<u64>()), sized: false },
        Case { name: "varint->Version(zero-sized)", ty: Ty::VarIntIn(1, 1), real: |d| run::<Version, _>(d, |x| x.decode_varint::<Version>()), sized: false },
        Case { name: "varuint->Version(zero-sized)", ty: Ty::VarUIntIn(1, 1), real: |d| run::<Version, _>(d, |x| x.decode_varuint::<Version>()), sized: false },
        Case { name: "varint->Wide(32-bytes)", ty: Ty::VarIntIn(-100, 100), real: |d| run::<Wide, _>(d, |x| x.decode_varint::<Wide>()), sized: false },
        Case { name: "varuint->Wide(32-bytes)", ty: Ty::VarUIntIn(0, 100), real: |d| run::<Wide, _>(d, |x| x.decode_varuint::<Wide>()), sized: false },
        Case { name: "varint->i128", ty: Ty::VarInt(64), real: |d| run::<i128, _>(d, |x| x.decode_varint::<i128>()), sized: false },
        Case { name: "varuint->u128", ty: Ty::VarUInt(64), real: |d| run::<u128, _>(d, |x| x.decode_varuint::<u128>()), sized: false },
        Case { name: "size", ty: Ty::Size, real: |d| run::<usize, _>(d, |x| x.decode_size()), sized: false },
        Case { name: "String", ty: Ty::Str, real: plain::<String>, sized: true },
        Case { name: "Vec<u8>", ty: Ty::Seq(b(Ty::U8)), real: plain::<Vec<u8>>, sized: true },
        Case { name: "Vec<bool>", ty: Ty::Seq(b(Ty::Bool)), real: plain::<Vec<bool>>, sized: true },
        Case { name: "Vec<i32>", ty: Ty::Seq(b(Ty::I32)), real: plain::<Vec<i32>>, sized: true },
        Case { name: "Vec<String>", ty: Ty::Seq(b(Ty::Str)), real: plain::<Vec<String>>, sized: true },
        Case { name: "Vec<Vec<u16>>", ty: Ty::Seq(b(Ty::Seq(b(Ty::U16)))), real: plain::<Vec<Vec<u16>>>, sized: true },
        Case { name: "HashMap<u8,u8>", ty: Ty::Map(b(Ty::U8), b(Ty::U8)), real: plain::<HashMap<u8, u8>>, sized: true },
        Case { name: "HashMap<String,String>", ty: Ty::Map(b(Ty::Str), b(Ty::Str)), real: plain::<HashMap<String, String>>, sized: true },
        Case { name: "HashMap<i32,Vec<u8>>", ty: Ty::Map(b(Ty::I32), b(Ty::Seq(b(Ty::U8)))), real: plain::<HashMap<i32, Vec<u8>>>, sized: true },
        Case { name: "BTreeMap<u8,u8>", ty: Ty::Map(b(Ty::U8), b(Ty::U8)), real: plain::<BTreeMap<u8, u8>>, sized: true },
        Case { name: "BTreeMap<String,String>", ty: Ty::Map(b(Ty::Str), b(Ty::Str)), real: plain::<BTreeMap<String, String>>, sized: true },
        Case { name: "BTreeMap<bool,Vec<String>>", ty: Ty::Map(b(Ty::Bool), b(Ty::Seq(b(Ty::Str)))), real: plain::<BTreeMap<bool, Vec<String>>>, sized: true },
        Case { name: "skip_tagged_fields", ty: Ty::SkipTagged, real: |d| run::<UnitVal, _>(d, |x| x.skip_tagged_fields().map(|_| UnitVal)), sized: false },
        Case { name: "GeneratedFile", ty: Ty::GeneratedFile, real: plain::<GeneratedFile>, sized: true },
        Case { name: "Diagnostic", ty: Ty::Diagnostic, real: plain::<Diagnostic>, sized: false },
        Case { name: "DiagnosticLevel", ty: Ty::DiagnosticLevel, real: plain::<DiagnosticLevel>, sized: false },
        Case { name: "Vec<GeneratedFile>", ty: Ty::Seq(b(Ty::GeneratedFile)), real: plain::<Vec<GeneratedFile>>, sized: true },
        Case { name: "Vec<Diagnostic>", ty: Ty::Seq(b(Ty::Diagnostic)), real: plain::<Vec<Diagnostic>>, sized: true },
    ];
    v.shrink_to_fit();
    v
}
