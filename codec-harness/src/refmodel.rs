// Independent bit-level reference of the Slice2 wire format, written from the statements of C10/C11 only.
// It never calls into slice-codec.

#[derive(Clone, Debug, PartialEq, Eq, PartialOrd, Ord)]
pub enum Val {
    Bool(bool),
    Int(i128),
    Bits32(u32), // f32 by bit pattern
    Bits64(u64), // f64 by bit pattern
    Str(String),
    Seq(Vec<Val>),
    Map(Vec<(Val, Val)>), // sorted by key
    Rec(Vec<Val>),        // a record (reply types)
    Unit,
}

#[derive(Clone, Debug, PartialEq)]
pub enum Ty {
    Bool,
    U8,
    I8,
    U16,
    I16,
    U32,
    I32,
    U64,
    I64,
    F32,
    F64,
    VarInt(u32),  // decode_varint::<iN>
    VarUInt(u32), // decode_varuint::<uN>
    VarIntIn(i64, i64),   // decode_varint::<T> for a user-defined T whose TryFrom<i64> accepts exactly [lo, hi]
    VarUIntIn(u64, u64),  // decode_varuint::<T> for a user-defined T whose TryFrom<u64> accepts exactly [lo, hi]
    Size,         // decode_size (usize)
    Str,
    Seq(Box<Ty>),
    Map(Box<Ty>, Box<Ty>),
    SkipTagged,
    GeneratedFile,
    Diagnostic,
    DiagnosticLevel,
}

#[derive(Clone, Copy, Debug, PartialEq, Eq)]
pub enum Reject {
    Eob,
    BadBool,
    BadUtf8,
    OutOfRange,
    DuplicateKey,
    BadLevel,
}

pub fn le_bytes(bits: u128, n: usize) -> Vec<u8> {
    (0..n).map(|i| ((bits >> (8 * i)) & 0xff) as u8).collect()
}

/// Variable-width signed: smallest n in {1,2,4,8} such that v fits in 8n-2 bits two's complement.
pub fn enc_varint(v: i128) -> Option<Vec<u8>> {
    for (code, n) in [(0u128, 1usize), (1, 2), (2, 4), (3, 8)] {
        let bits = 8 * n as u32 - 2;
        let lo = -(1i128 << (bits - 1));
        let hi = (1i128 << (bits - 1)) - 1;
        if v >= lo && v <= hi {
            let shifted = ((v << 2) as u128) & ((1u128 << (8 * n)) - 1);
            return Some(le_bytes(shifted | code, n));
        }
    }
    None
}

pub fn enc_varuint(v: u128) -> Option<Vec<u8>> {
    for (code, n) in [(0u128, 1usize), (1, 2), (2, 4), (3, 8)] {
        let bits = 8 * n as u32 - 2;
        if v < (1u128 << bits) {
            return Some(le_bytes((v << 2) | code, n));
        }
    }
    None
}

pub fn encode(ty: &Ty, v: &Val) -> Option<Vec<u8>> {
    Some(match (ty, v) {
        (Ty::Bool, Val::Bool(b)) => vec![*b as u8],
        (Ty::U8 | Ty::I8, Val::Int(i)) => le_bytes(*i as u128, 1),
        (Ty::U16 | Ty::I16, Val::Int(i)) => le_bytes(*i as u128, 2),
        (Ty::U32 | Ty::I32, Val::Int(i)) => le_bytes(*i as u128, 4),
        (Ty::U64 | Ty::I64, Val::Int(i)) => le_bytes(*i as u128, 8),
        (Ty::F32, Val::Bits32(b)) => le_bytes(*b as u128, 4),
        (Ty::F64, Val::Bits64(b)) => le_bytes(*b as u128, 8),
        (Ty::VarInt(_) | Ty::VarIntIn(..), Val::Int(i)) => enc_varint(*i)?,
        (Ty::VarUInt(_) | Ty::VarUIntIn(..) | Ty::Size, Val::Int(i)) => enc_varuint(*i as u128)?,
        (Ty::Str, Val::Str(s)) => {
            let mut o = enc_varuint(s.len() as u128)?;
            o.extend_from_slice(s.as_bytes());
            o
        }
        (Ty::Seq(e), Val::Seq(items)) => {
            let mut o = enc_varuint(items.len() as u128)?;
            for it in items {
                o.extend(encode(e, it)?);
            }
            o
        }
        (Ty::Map(k, vt), Val::Map(items)) => {
            let mut o = enc_varuint(items.len() as u128)?;
            for (a, b) in items {
                o.extend(encode(k, a)?);
                o.extend(encode(vt, b)?);
            }
            o
        }
        _ => panic!("refmodel::encode: type/value mismatch {ty:?} {v:?}"),
    })
}

struct R<'a> {
    d: &'a [u8],
    p: usize,
    max_announced: u128, // largest size prefix seen (used to keep Miri away from multi-gigabyte reservations)
}

impl<'a> R<'a> {
    fn take(&mut self, n: u128) -> Result<&'a [u8], Reject> {
        if n > (self.d.len() - self.p) as u128 {
            return Err(Reject::Eob);
        }
        let n = n as usize;
        let s = &self.d[self.p..self.p + n];
        self.p += n;
        Ok(s)
    }

    fn uint(&mut self, n: usize) -> Result<u128, Reject> {
        let b = self.take(n as u128)?;
        let mut v = 0u128;
        for (i, x) in b.iter().enumerate() {
            v |= (*x as u128) << (8 * i);
        }
        Ok(v)
    }

    fn sint(&mut self, n: usize) -> Result<i128, Reject> {
        let u = self.uint(n)?;
        let bits = 8 * n as u32;
        Ok(if u >> (bits - 1) & 1 == 1 { (u as i128) - (1i128 << bits) } else { u as i128 })
    }

    fn varuint(&mut self) -> Result<u128, Reject> {
        if self.p >= self.d.len() {
            return Err(Reject::Eob);
        }
        let n = 1usize << (self.d[self.p] & 3);
        Ok(self.uint(n)? >> 2)
    }

    fn varint(&mut self) -> Result<i128, Reject> {
        if self.p >= self.d.len() {
            return Err(Reject::Eob);
        }
        let n = 1usize << (self.d[self.p] & 3);
        Ok(self.sint(n)? >> 2)
    }

    fn size(&mut self) -> Result<u128, Reject> {
        let n = self.varuint()?;
        self.max_announced = self.max_announced.max(n);
        Ok(n)
    }

    fn string(&mut self) -> Result<String, Reject> {
        let n = self.size()?;
        let b = self.take(n)?;
        match std::str::from_utf8(b) {
            Ok(s) => Ok(s.to_owned()),
            Err(_) => Err(Reject::BadUtf8),
        }
    }

    fn skip_tagged(&mut self) -> Result<(), Reject> {
        loop {
            let t = self.varint()?;
            if !(-(1i128 << 31)..(1i128 << 31)).contains(&t) {
                return Err(Reject::OutOfRange);
            }
            if t == -1 {
                return Ok(());
            }
            let n = self.size()?;
            self.take(n)?;
        }
    }

    fn value(&mut self, ty: &Ty) -> Result<Val, Reject> {
        Ok(match ty {
            Ty::Bool => match self.uint(1)? {
                0 => Val::Bool(false),
                1 => Val::Bool(true),
                _ => return Err(Reject::BadBool),
            },
            Ty::U8 => Val::Int(self.uint(1)? as i128),
            Ty::I8 => Val::Int(self.sint(1)?),
            Ty::U16 => Val::Int(self.uint(2)? as i128),
            Ty::I16 => Val::Int(self.sint(2)?),
            Ty::U32 => Val::Int(self.uint(4)? as i128),
            Ty::I32 => Val::Int(self.sint(4)?),
            Ty::U64 => Val::Int(self.uint(8)? as i128),
            Ty::I64 => Val::Int(self.sint(8)?),
            Ty::F32 => Val::Bits32(self.uint(4)? as u32),
            Ty::F64 => Val::Bits64(self.uint(8)? as u64),
            Ty::VarInt(w) => {
                let v = self.varint()?;
                let lo = -(1i128 << (w - 1));
                let hi = (1i128 << (w - 1)) - 1;
                if v < lo || v > hi {
                    return Err(Reject::OutOfRange);
                }
                Val::Int(v)
            }
            Ty::VarUInt(w) => {
                let v = self.varuint()?;
                if v >= (1u128 << w) {
                    return Err(Reject::OutOfRange);
                }
                Val::Int(v as i128)
            }
            Ty::VarIntIn(lo, hi) => {
                let v = self.varint()?;
                if v < *lo as i128 || v > *hi as i128 {
                    return Err(Reject::OutOfRange);
                }
                Val::Int(v)
            }
            Ty::VarUIntIn(lo, hi) => {
                let v = self.varuint()?;
                if v < *lo as u128 || v > *hi as u128 {
                    return Err(Reject::OutOfRange);
                }
                Val::Int(v as i128)
            }
            Ty::Size => Val::Int(self.varuint()? as i128), // usize is 64 bits here: every 62-bit value fits
            Ty::Str => Val::Str(self.string()?),
            Ty::Seq(e) => {
                let n = self.size()?;
                let mut items = Vec::new();
                for _ in 0..n {
                    items.push(self.value(e)?);
                }
                Val::Seq(items)
            }
            Ty::Map(k, v) => {
                let n = self.size()?;
                let mut items: Vec<(Val, Val)> = Vec::new();
                for _ in 0..n {
                    let key = self.value(k)?;
                    let val = self.value(v)?;
                    if items.iter().any(|(k2, _)| *k2 == key) {
                        return Err(Reject::DuplicateKey);
                    }
                    items.push((key, val));
                }
                items.sort();
                Val::Map(items)
            }
            Ty::SkipTagged => {
                self.skip_tagged()?;
                Val::Unit
            }
            Ty::GeneratedFile => {
                let path = self.string()?;
                let contents = self.string()?;
                self.skip_tagged()?;
                Val::Rec(vec![Val::Str(path), Val::Str(contents)])
            }
            Ty::DiagnosticLevel => {
                let v = self.uint(1)?;
                if v > 2 {
                    return Err(Reject::BadLevel);
                }
                Val::Int(v as i128)
            }
            Ty::Diagnostic => {
                let has_source = match self.uint(1)? {
                    0 => false,
                    1 => true,
                    _ => return Err(Reject::BadBool),
                };
                let level = self.value(&Ty::DiagnosticLevel)?;
                let message = self.string()?;
                let source = if has_source { Val::Seq(vec![Val::Str(self.string()?)]) } else { Val::Seq(vec![]) };
                self.skip_tagged()?;
                Val::Rec(vec![level, Val::Str(message), source])
            }
        })
    }
}

/// Strict reference decode: value and number of bytes consumed, or the reason for rejection.
pub fn decode(ty: &Ty, data: &[u8]) -> Result<(Val, usize), Reject> {
    let mut r = R { d: data, p: 0, max_announced: 0 };
    let v = r.value(ty)?;
    Ok((v, r.p))
}

/// Largest size prefix the reference meets while parsing `data` as `ty` (whether or not parsing succeeds).
pub fn max_announced(ty: &Ty, data: &[u8]) -> u128 {
    let mut r = R { d: data, p: 0, max_announced: 0 };
    let _ = r.value(ty);
    r.max_announced
}
