// Small utilities: PRNG, JSON escaping, violation records, hex.

use std::collections::BTreeMap;

#[derive(Clone)]
pub struct Rng(pub u64);

impl Rng {
    pub fn new(seed: u64) -> Self {
        Rng(seed ^ 0x9E37_79B9_7F4A_7C15)
    }

    pub fn next(&mut self) -> u64 {
        // splitmix64
        self.0 = self.0.wrapping_add(0x9E37_79B9_7F4A_7C15);
        let mut z = self.0;
        z = (z ^ (z >> 30)).wrapping_mul(0xBF58_476D_1CE4_E5B9);
        z = (z ^ (z >> 27)).wrapping_mul(0x94D0_49BB_1331_11EB);
        z ^ (z >> 31)
    }

    pub fn below(&mut self, n: u64) -> u64 {
        if n == 0 {
            0
        } else {
            self.next() % n
        }
    }

    pub fn chance(&mut self, num: u64, den: u64) -> bool {
        self.below(den) < num
    }
}

pub fn hex(b: &[u8]) -> String {
    let mut s = String::with_capacity(b.len() * 2);
    for x in b {
        s.push_str(&format!("{x:02x}"));
    }
    s
}

pub fn unhex(s: &str) -> Vec<u8> {
    (0..s.len() / 2).map(|i| u8::from_str_radix(&s[2 * i..2 * i + 2], 16).unwrap()).collect()
}

pub fn jstr(s: &str) -> String {
    let mut o = String::from("\"");
    for c in s.chars() {
        match c {
            '"' => o.push_str("\\\""),
            '\\' => o.push_str("\\\\"),
            '\n' => o.push_str("\\n"),
            '\r' => o.push_str("\\r"),
            '\t' => o.push_str("\\t"),
            c if (c as u32) < 0x20 => o.push_str(&format!("\\u{:04x}", c as u32)),
            c => o.push(c),
        }
    }
    o.push('"');
    o
}

#[derive(Clone, Debug)]
pub struct Violation {
    pub sig: String,
    pub what: String,
    pub replay: String, // a `vc replay ...` argument string
}

#[derive(Default)]
pub struct Outcome {
    pub evaluations: u64,
    pub nontrivial: u64,
    pub counters: BTreeMap<String, u64>,
    pub violations: Vec<Violation>,
    pub samples: Vec<String>,
}

impl Outcome {
    pub fn count(&mut self, k: &str, n: u64) {
        *self.counters.entry(k.to_owned()).or_default() += n;
    }

    pub fn violate(&mut self, sig: &str, what: String, replay: String) {
        self.count("violations_raw", 1);
        if self.violations.len() < 50 {
            self.violations.push(Violation { sig: sig.to_owned(), what, replay });
        }
    }

    pub fn sample(&mut self, s: String) {
        if self.samples.len() < 8 {
            self.samples.push(s);
        }
    }

    pub fn merge(&mut self, o: Outcome) {
        self.evaluations += o.evaluations;
        self.nontrivial += o.nontrivial;
        for (k, v) in o.counters {
            *self.counters.entry(k).or_default() += v;
        }
        for v in o.violations {
            if self.violations.len() < 200 {
                self.violations.push(v);
            }
        }
        for s in o.samples {
            if self.samples.len() < 12 {
                self.samples.push(s);
            }
        }
    }

    pub fn to_json(&self) -> String {
        let mut s = String::from("{");
        s.push_str(&format!("\"evaluations\":{},\"nontrivial\":{},", self.evaluations, self.nontrivial));
        s.push_str("\"counters\":{");
        s.push_str(&self.counters.iter().map(|(k, v)| format!("{}:{}", jstr(k), v)).collect::<Vec<_>>().join(","));
        s.push_str("},\"violations\":[");
        s.push_str(
            &self
                .violations
                .iter()
                .map(|v| format!("{{\"sig\":{},\"what\":{},\"replay\":{}}}", jstr(&v.sig), jstr(&v.what), jstr(&v.replay)))
                .collect::<Vec<_>>()
                .join(","),
        );
        s.push_str("],\"samples\":[");
        s.push_str(&self.samples.iter().map(|x| jstr(x)).collect::<Vec<_>>().join(","));
        s.push_str("]}");
        s
    }
}

/// Runs `f(shard_index)` on `n` threads (or sequentially when n == 1) and merges the outcomes.
pub fn parallel<F>(n: usize, f: F) -> Outcome
where
    F: Fn(usize) -> Outcome + Sync,
{
    let mut total = Outcome::default();
    if n <= 1 {
        total.merge(f(0));
        return total;
    }
    std::thread::scope(|s| {
        let handles: Vec<_> = (0..n).map(|i| { let f = &f; s.spawn(move || f(i)) }).collect();
        for h in handles {
            match h.join() {
                Ok(o) => total.merge(o),
                Err(_) => total.violate("harness-thread-panicked", "a vc worker thread panicked outside catch_unwind".into(), String::new()),
            }
        }
    });
    total
}
