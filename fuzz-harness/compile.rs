// libFuzzer target: the whole library pipeline on arbitrary text. Monitors: panic = abort (libFuzzer reports a crash),
// AddressSanitizer, libFuzzer's own timeout / RSS limit. Every artifact is re-judged by the check through the real binary.
#![no_main]
use libfuzzer_sys::fuzz_target;
use slicec::diagnostic_emitter::DiagnosticEmitter;
use slicec::grammar::Symbol;
use slicec::slice_options::{DiagnosticFormat, SliceOptions};

fuzz_target!(|data: &[u8]| {
    let Ok(text) = std::str::from_utf8(data) else { return };
    // form feeds split the input into up to three files; a leading "\x01X" line defines preprocessor symbol X
    let mut options = SliceOptions::default();
    let mut text = text;
    while let Some(rest) = text.strip_prefix('\u{1}') {
        let (symbol, tail) = rest.split_once('\n').unwrap_or((rest, ""));
        options.defined_symbols.push(symbol.to_owned());
        text = tail;
    }
    let files: Vec<&str> = text.split('\u{c}').take(3).collect();
    let state = slicec::compile_from_strings(&files, Some(&options));
    let slicec::compilation_state::CompilationState { ast, diagnostics, files } = state;
    for f in &files {
        let mut v = Walk(0);
        f.visit_with(&mut v);
    }
    let updated = diagnostics.into_updated(&ast, &files, &options);
    let mut emit_options = SliceOptions::default();
    emit_options.diagnostic_format = if data.len() % 4 == 0 { DiagnosticFormat::Json } else { DiagnosticFormat::Human };
    emit_options.disable_color = true;
    let mut buffer: Vec<u8> = Vec::new();
    let mut emitter = DiagnosticEmitter::new(&mut buffer, &emit_options, &files);
    let _ = emitter.emit_diagnostics(updated);
});

struct Walk(usize);
impl slicec::visitor::Visitor for Walk {
    fn visit_type_ref(&mut self, t: &slicec::grammar::TypeRef) {
        self.0 += t.span().start.row;
    }
}
