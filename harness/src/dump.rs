// AST / diagnostics dump through the public API of the slicec library only.
// No oracle logic lives here: this file only turns what the library exposes into JSON.

use serde_json::{json, Value};
use slicec::ast::Ast;
use slicec::diagnostics::{Diagnostic, DiagnosticLevel};
use slicec::grammar::attributes::{Allow, Compress, Deprecated, Oneway, SlicedFormat, Unparsed};
use slicec::grammar::*;
use slicec::slice_file::{SliceFile, Span};
use slicec::visitor::Visitor;

pub fn span(s: &Span) -> Value {
    json!([s.start.row, s.start.col, s.end.row, s.end.col, s.file])
}

fn ident(i: &Identifier) -> Value {
    json!({"value": i.value, "span": span(&i.span)})
}

pub fn attribute(a: &Attribute) -> Value {
    let (kind, args): (&str, Value) = if let Some(u) = a.downcast::<Unparsed>() {
        ("unparsed", json!(u.args))
    } else if let Some(x) = a.downcast::<Allow>() {
        ("allow", json!(x.allowed_lints))
    } else if let Some(x) = a.downcast::<Compress>() {
        ("compress", json!({"args": x.compress_args, "return": x.compress_return}))
    } else if let Some(x) = a.downcast::<Deprecated>() {
        ("deprecated", json!({"reason": x.reason}))
    } else if a.downcast::<Oneway>().is_some() {
        ("oneway", json!([]))
    } else if let Some(x) = a.downcast::<SlicedFormat>() {
        ("slicedFormat", json!({"args": x.sliced_args, "return": x.sliced_return}))
    } else {
        ("other", Value::Null)
    };
    json!({"directive": a.kind.directive(), "kind": kind, "args": args, "span": span(&a.span),
           "repeatable": a.kind.is_repeatable()})
}

fn attributes(v: Vec<&Attribute>) -> Value {
    Value::Array(v.into_iter().map(attribute).collect())
}

fn entity_ref(e: &dyn Entity) -> Value {
    json!({"kind": e.kind(), "psid": e.parser_scoped_identifier(), "span": span(e.span())})
}

fn link(l: &TypeRefDefinition<dyn Entity>) -> Value {
    match l {
        TypeRefDefinition::Patched(p) => json!({"patched": entity_ref(p.borrow())}),
        TypeRefDefinition::Unpatched(i) => json!({"unpatched": ident(i)}),
    }
}

fn message(m: &Message) -> Value {
    let comps: Vec<Value> = m
        .value
        .iter()
        .map(|c| match c {
            MessageComponent::Text(t) => json!({"text": t}),
            MessageComponent::Link(l) => json!({"link": link(&l.link), "span": span(&l.span)}),
        })
        .collect();
    json!({"span": span(&m.span), "value": comps})
}

fn comment(c: Option<&DocComment>) -> Value {
    let Some(c) = c else { return Value::Null };
    json!({
        "span": span(&c.span),
        "overview": c.overview.as_ref().map(message),
        "params": c.params.iter().map(|p| json!({"id": ident(&p.identifier), "span": span(&p.span), "message": message(&p.message)})).collect::<Vec<_>>(),
        "returns": c.returns.iter().map(|p| json!({"id": p.identifier.as_ref().map(ident), "span": span(&p.span), "message": message(&p.message)})).collect::<Vec<_>>(),
        "see": c.see.iter().map(|s| json!({"span": span(&s.span), "link": link(&s.link)})).collect::<Vec<_>>(),
    })
}

fn scope_of(s: &dyn ScopedSymbol) -> Value {
    let raw = s.get_raw_scope();
    let module = raw.module.as_ref().map(|m| m.borrow().nested_module_identifier().to_owned());
    json!({"parser": s.parser_scope(), "module": module})
}

pub fn type_ref(t: &TypeRef) -> Value {
    let def = match &t.definition {
        TypeRefDefinition::Unpatched(i) => json!({"unpatched": ident(i)}),
        TypeRefDefinition::Patched(_) => match t.concrete_type() {
            Types::Struct(s) => json!({"struct": s.parser_scoped_identifier(), "at": span(s.span())}),
            Types::Enum(s) => json!({"enum": s.parser_scoped_identifier(), "at": span(s.span())}),
            Types::CustomType(s) => json!({"custom": s.parser_scoped_identifier(), "at": span(s.span())}),
            Types::Primitive(p) => json!({"primitive": p.kind()}),
            Types::Sequence(s) => json!({"sequence": type_ref(&s.element_type)}),
            Types::Dictionary(d) => json!({"dictionary": [type_ref(&d.key_type), type_ref(&d.value_type)]}),
            Types::ResultType(r) => json!({"result": [type_ref(&r.success_type), type_ref(&r.failure_type)]}),
        },
    };
    // Whether the patched pointer designates an alias node itself (should never be the case after patching).
    let points_at_alias = match &t.definition {
        TypeRefDefinition::Patched(p) => p.borrow().kind() == "type alias",
        _ => false,
    };
    json!({"span": span(&t.span), "optional": t.is_optional, "attrs": attributes(t.attributes()),
           "scope": scope_of(t), "def": def, "alias_ptr": points_at_alias})
}

fn base_ref(t: &TypeRef<Interface>) -> Value {
    let def = match &t.definition {
        TypeRefDefinition::Unpatched(i) => json!({"unpatched": ident(i)}),
        TypeRefDefinition::Patched(p) => {
            let i = p.borrow();
            json!({"interface": i.parser_scoped_identifier(), "at": span(i.span())})
        }
    };
    json!({"span": span(&t.span), "optional": t.is_optional, "attrs": attributes(t.attributes()),
           "scope": scope_of(t), "def": def})
}

fn underlying_ref(t: &TypeRef<Primitive>) -> Value {
    let def = match &t.definition {
        TypeRefDefinition::Unpatched(i) => json!({"unpatched": ident(i)}),
        TypeRefDefinition::Patched(p) => json!({"primitive": p.borrow().kind()}),
    };
    json!({"span": span(&t.span), "optional": t.is_optional, "attrs": attributes(t.attributes()),
           "scope": scope_of(t), "def": def})
}

fn tag(t: Option<&Integer<u32>>) -> Value {
    match t {
        Some(i) => json!({"value": i.value, "span": span(&i.span)}),
        None => Value::Null,
    }
}

macro_rules! lookup {
    ($ast:expr, $ty:ty, $e:expr) => {{
        let psid = $e.parser_scoped_identifier();
        match $ast.find_element::<$ty>(&psid) {
            Ok(found) => {
                if found.span() == $e.span() && found.identifier() == $e.identifier() {
                    json!("ok")
                } else {
                    json!({"other": span(found.span())})
                }
            }
            Err(e) => json!({"err": format!("{e:?}")}),
        }
    }};
}

fn common(e: &dyn Entity, kind: &str) -> serde_json::Map<String, Value> {
    let mut m = serde_json::Map::new();
    m.insert("kind".into(), json!(kind));
    m.insert("id".into(), json!(e.identifier()));
    m.insert("id_span".into(), span(e.raw_identifier().span()));
    m.insert("span".into(), span(e.span()));
    m.insert("psid".into(), json!(e.parser_scoped_identifier()));
    m.insert("msid".into(), json!(e.module_scoped_identifier()));
    m.insert("scope".into(), scope_of(e));
    m.insert("attrs".into(), attributes(e.attributes()));
    m.insert("all_attrs".into(), json!(e.all_attributes().len()));
    m
}

fn field(ast: &Ast, f: &Field) -> Value {
    let mut m = common(f, "field");
    m.insert("tag".into(), tag(f.raw_tag()));
    m.insert("type".into(), type_ref(&f.data_type));
    m.insert("comment".into(), comment(f.comment()));
    m.insert("parent".into(), json!({"kind": f.parent().kind(), "psid": f.parent().parser_scoped_identifier()}));
    m.insert("lookup".into(), lookup!(ast, Field, f));
    Value::Object(m)
}

fn parameter(ast: &Ast, p: &Parameter) -> Value {
    let mut m = common(p, "parameter");
    m.insert("tag".into(), tag(p.raw_tag()));
    m.insert("streamed".into(), json!(p.is_streamed));
    m.insert("type".into(), type_ref(&p.data_type));
    m.insert("parent".into(), json!({"kind": p.parent().kind(), "psid": p.parent().parser_scoped_identifier()}));
    m.insert("lookup".into(), lookup!(ast, Parameter, p));
    Value::Object(m)
}

fn operation(ast: &Ast, o: &Operation) -> Value {
    let mut m = common(o, "operation");
    m.insert("idempotent".into(), json!(o.is_idempotent));
    m.insert("params".into(), o.parameters().into_iter().map(|p| parameter(ast, p)).collect());
    m.insert("returns".into(), o.return_members().into_iter().map(|p| parameter(ast, p)).collect());
    m.insert("comment".into(), comment(o.comment()));
    m.insert("parent".into(), json!({"kind": o.parent().kind(), "psid": o.parent().parser_scoped_identifier()}));
    m.insert("lookup".into(), lookup!(ast, Operation, o));
    Value::Object(m)
}

fn enumerator(ast: &Ast, e: &Enumerator) -> Value {
    let mut m = common(e, "enumerator");
    let (explicit, vspan) = match &e.value {
        EnumeratorValue::Implicit(_) => (false, Value::Null),
        EnumeratorValue::Explicit(i) => (true, span(&i.span)),
    };
    m.insert("value".into(), json!(e.value().to_string()));
    m.insert("explicit".into(), json!(explicit));
    m.insert("value_span".into(), vspan);
    m.insert(
        "fields".into(),
        match &e.fields {
            None => Value::Null,
            Some(_) => e.fields().into_iter().map(|f| field(ast, f)).collect(),
        },
    );
    m.insert("comment".into(), comment(e.comment()));
    m.insert("parent".into(), json!({"kind": e.parent().kind(), "psid": e.parent().parser_scoped_identifier()}));
    m.insert("lookup".into(), lookup!(ast, Enumerator, e));
    Value::Object(m)
}

pub fn definition(ast: &Ast, d: &Definition) -> Value {
    match d {
        Definition::Struct(p) => {
            let s = p.borrow();
            let mut m = common(s, "struct");
            m.insert("compact".into(), json!(s.is_compact));
            m.insert("fields".into(), s.fields().into_iter().map(|f| field(ast, f)).collect());
            m.insert("comment".into(), comment(s.comment()));
            m.insert("lookup".into(), lookup!(ast, Struct, s));
            Value::Object(m)
        }
        Definition::Interface(p) => {
            let s = p.borrow();
            let mut m = common(s, "interface");
            m.insert("bases".into(), s.bases.iter().map(base_ref).collect());
            m.insert("operations".into(), s.operations().into_iter().map(|o| operation(ast, o)).collect());
            m.insert("comment".into(), comment(s.comment()));
            m.insert("lookup".into(), lookup!(ast, Interface, s));
            Value::Object(m)
        }
        Definition::Enum(p) => {
            let s = p.borrow();
            let mut m = common(s, "enum");
            m.insert("compact".into(), json!(s.is_compact));
            m.insert("unchecked".into(), json!(s.is_unchecked));
            m.insert("underlying".into(), s.underlying.as_ref().map(underlying_ref).unwrap_or(Value::Null));
            m.insert("enumerators".into(), s.enumerators().into_iter().map(|e| enumerator(ast, e)).collect());
            m.insert("comment".into(), comment(s.comment()));
            m.insert("lookup".into(), lookup!(ast, Enum, s));
            Value::Object(m)
        }
        Definition::CustomType(p) => {
            let s = p.borrow();
            let mut m = common(s, "custom");
            m.insert("comment".into(), comment(s.comment()));
            m.insert("lookup".into(), lookup!(ast, CustomType, s));
            Value::Object(m)
        }
        Definition::TypeAlias(p) => {
            let s = p.borrow();
            let mut m = common(s, "alias");
            m.insert("underlying".into(), type_ref(&s.underlying));
            m.insert("comment".into(), comment(s.comment()));
            m.insert("lookup".into(), lookup!(ast, TypeAlias, s));
            Value::Object(m)
        }
    }
}

pub fn file(ast: &Ast, f: &SliceFile) -> Value {
    let module = f.module.as_ref().map(|m| {
        let m = m.borrow();
        json!({"id": m.nested_module_identifier(), "id_span": span(&m.identifier.span), "span": span(&m.span),
               "attrs": attributes(m.attributes()), "short": m.identifier()})
    });
    json!({
        "path": f.relative_path, "filename": f.filename, "is_source": f.is_source,
        "module": module, "attrs": attributes(f.attributes()),
        "contents": f.contents.iter().map(|d| definition(ast, d)).collect::<Vec<_>>(),
    })
}

pub fn file_brief(f: &SliceFile) -> Value {
    json!({
        "path": f.relative_path, "is_source": f.is_source,
        "module": f.module.as_ref().map(|m| m.borrow().nested_module_identifier().to_owned()),
        "defs": f.contents.iter().map(|d| { let e = d.borrow(); json!([e.kind(), e.identifier(), span(e.span())]) }).collect::<Vec<_>>(),
    })
}

pub fn level(l: DiagnosticLevel) -> &'static str {
    match l {
        DiagnosticLevel::Error => "error",
        DiagnosticLevel::Warning => "warning",
        DiagnosticLevel::Allowed => "allowed",
    }
}

pub fn diagnostic(d: &Diagnostic) -> Value {
    json!({
        "code": d.code(), "level": level(d.level()), "message": d.message(),
        "span": d.span().map(span), "scope": d.scope(),
        "notes": d.notes().iter().map(|n| json!({"message": n.message, "span": n.span.as_ref().map(span)})).collect::<Vec<_>>(),
    })
}

pub fn diagnostic_brief(d: &Diagnostic) -> Value {
    json!([d.code(), level(d.level()), d.span().map(span)])
}

// ---------------------------------------------------------------------------------------------------------------
// Recording visitor: one entry per callback, in callback order.

pub struct Recorder {
    pub trace: Vec<Value>,
}

impl Visitor for Recorder {
    fn visit_file(&mut self, f: &SliceFile) {
        self.trace.push(json!(["file", f.relative_path]));
    }

    fn visit_module(&mut self, m: &Module) {
        self.trace.push(json!(["module", m.nested_module_identifier(), span(&m.span)]));
    }

    fn visit_struct(&mut self, e: &Struct) {
        self.trace.push(json!(["struct", e.parser_scoped_identifier(), span(e.span())]));
    }

    fn visit_interface(&mut self, e: &Interface) {
        self.trace.push(json!(["interface", e.parser_scoped_identifier(), span(e.span())]));
    }

    fn visit_enum(&mut self, e: &Enum) {
        self.trace.push(json!(["enum", e.parser_scoped_identifier(), span(e.span())]));
    }

    fn visit_operation(&mut self, e: &Operation) {
        self.trace.push(json!(["operation", e.parser_scoped_identifier(), span(e.span())]));
    }

    fn visit_custom_type(&mut self, e: &CustomType) {
        self.trace.push(json!(["custom", e.parser_scoped_identifier(), span(e.span())]));
    }

    fn visit_type_alias(&mut self, e: &TypeAlias) {
        self.trace.push(json!(["alias", e.parser_scoped_identifier(), span(e.span())]));
    }

    fn visit_field(&mut self, e: &Field) {
        self.trace.push(json!(["field", e.parser_scoped_identifier(), span(e.span())]));
    }

    fn visit_parameter(&mut self, e: &Parameter) {
        self.trace.push(json!(["parameter", e.parser_scoped_identifier(), span(e.span())]));
    }

    fn visit_enumerator(&mut self, e: &Enumerator) {
        self.trace.push(json!(["enumerator", e.parser_scoped_identifier(), span(e.span())]));
    }

    fn visit_type_ref(&mut self, t: &TypeRef) {
        // what the presented reference designates (aliases are transparent): enough to tell *which* type was presented
        let what = match &t.definition {
            TypeRefDefinition::Unpatched(_) => "unpatched".to_owned(),
            TypeRefDefinition::Patched(_) => match t.concrete_type() {
                Types::Struct(s) => format!("struct:{}", s.parser_scoped_identifier()),
                Types::Enum(s) => format!("enum:{}", s.parser_scoped_identifier()),
                Types::CustomType(s) => format!("custom:{}", s.parser_scoped_identifier()),
                Types::Primitive(p) => format!("primitive:{}", p.kind()),
                Types::Sequence(_) => "sequence".to_owned(),
                Types::Dictionary(_) => "dictionary".to_owned(),
                Types::ResultType(_) => "result".to_owned(),
            },
        };
        self.trace.push(json!(["type_ref", span(&t.span), what]));
    }
}
