// fakegen: a fake slicec code generator. The *name it is invoked under* selects its behaviour:
//   gen-<behaviour>[-<anything>]
// FAKEGEN_LOG names a directory; there it records that it was started, the bytes it read from stdin, and from there it
// takes the reply bytes to write (<name>.reply, prepared by the Python side; absent = empty reply).
// It contains no Slice encoding logic at all.

use std::io::{Read, Write};

fn main() {
    let argv: Vec<String> = std::env::args().collect();
    let name = std::path::Path::new(&argv[0]).file_name().unwrap().to_string_lossy().into_owned();
    let behaviour = name.split('-').nth(1).unwrap_or("ok").to_owned();
    let logdir = std::env::var("FAKEGEN_LOG").unwrap_or_else(|_| ".".to_owned());
    let pid = std::process::id();
    let cwd = std::env::current_dir().map(|p| p.display().to_string()).unwrap_or_default();

    // 1. invocation record, first thing.
    let record = format!("{{\"name\":{:?},\"pid\":{},\"argv\":{:?},\"cwd\":{:?}}}\n", name, pid, argv, cwd);
    let _ = std::fs::write(format!("{logdir}/{name}.{pid}.invoked"), record);

    let reply = std::fs::read(format!("{logdir}/{name}.reply")).unwrap_or_default();

    if behaviour == "floodfirst" {
        // Writes far more than a pipe buffer to stdout *before* reading any of its input (a streaming generator such as `cat`
        // behaves like this as soon as the request is larger than the pipe buffer), then reads its input and exits normally.
        let chunk = vec![b'x'; 65536];
        let mut out = std::io::stdout();
        for _ in 0..6 {
            if out.write_all(&chunk).is_err() {
                std::process::exit(0);
            }
        }
        let _ = out.flush();
        let mut request = Vec::new();
        let _ = std::io::stdin().read_to_end(&mut request);
        std::process::exit(0);
    }
    if behaviour == "noread" {
        // Exit without reading stdin at all (the reply is still written, so only the unread request is at fault).
        let _ = std::io::stdout().write_all(&reply);
        std::process::exit(0);
    }
    if behaviour == "noreadfail" {
        std::process::exit(3);
    }
    if behaviour == "slow" {
        std::thread::sleep(std::time::Duration::from_millis(150));
    }

    // 2. read the whole request.
    let mut request = Vec::new();
    let read_result = std::io::stdin().read_to_end(&mut request);
    let _ = std::fs::write(format!("{logdir}/{name}.{pid}.stdin"), &request);
    if read_result.is_err() {
        let _ = std::fs::write(format!("{logdir}/{name}.{pid}.readerr"), b"1");
    }

    match behaviour.as_str() {
        "sigkill" => unsafe {
            libc::kill(libc::getpid(), libc::SIGKILL);
        },
        "sigsegv" => unsafe {
            libc::signal(libc::SIGSEGV, libc::SIG_DFL);
            libc::kill(libc::getpid(), libc::SIGSEGV);
        },
        "sigterm" => unsafe {
            libc::kill(libc::getpid(), libc::SIGTERM);
        },
        "killmid" => {
            // Write half of the reply, then die.
            let half = reply.len() / 2;
            let _ = std::io::stdout().write_all(&reply[..half]);
            let _ = std::io::stdout().flush();
            unsafe {
                libc::kill(libc::getpid(), libc::SIGKILL);
            }
        }
        _ => {}
    }

    if behaviour == "stderr" {
        let _ = std::io::stderr().write_all(b"fakegen: something went wrong\n");
    }
    if behaviour == "stderrnl" {
        let _ = std::io::stderr().write_all(b"\n");
    }
    if behaviour == "stderrsp" {
        let _ = std::io::stderr().write_all(b" \t \r\n\n");
    }
    if behaviour == "stderrbin" {
        let _ = std::io::stderr().write_all(&[0xff, 0xfe, 0x00, b'x', b'\n']);
    }

    let _ = std::io::stdout().write_all(&reply);
    let _ = std::io::stdout().flush();

    // dies by a signal *after* a complete, flushed reply
    match behaviour.as_str() {
        "replykill" => unsafe {
            libc::kill(libc::getpid(), libc::SIGKILL);
        },
        "replysegv" => unsafe {
            libc::signal(libc::SIGSEGV, libc::SIG_DFL);
            libc::kill(libc::getpid(), libc::SIGSEGV);
        },
        "replyterm" => unsafe {
            libc::kill(libc::getpid(), libc::SIGTERM);
        },
        _ => {}
    }

    if let Some(code) = behaviour.strip_prefix("exit") {
        std::process::exit(code.parse::<i32>().unwrap_or(1));
    }
    std::process::exit(0);
}
