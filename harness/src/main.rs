// vh: thin instrumented executor around the slicec library. JSON lines in, JSON lines out.
// It holds no oracle logic; it only runs the real library entry points and reports what it observed.

mod dump;

use clap::Parser;
use serde_json::{json, Value};
use slicec::compilation_state::CompilationState;
use slicec::diagnostic_emitter::DiagnosticEmitter;
use slicec::slice_options::{DiagnosticFormat, SliceOptions};
use std::io::{BufRead, Write};
use std::panic::{catch_unwind, AssertUnwindSafe};
use std::sync::Mutex;

static LAST_PANIC: Mutex<Option<Value>> = Mutex::new(None);

fn thread_cpu_us() -> u64 {
    let mut ts = libc::timespec { tv_sec: 0, tv_nsec: 0 };
    unsafe { libc::clock_gettime(libc::CLOCK_THREAD_CPUTIME_ID, &mut ts) };
    (ts.tv_sec as u64) * 1_000_000 + (ts.tv_nsec as u64) / 1000
}

fn strs(v: Option<&Value>) -> Vec<String> {
    v.and_then(|x| x.as_array())
        .map(|a| a.iter().filter_map(|s| s.as_str().map(str::to_owned)).collect())
        .unwrap_or_default()
}

fn wants(req: &Value, what: &str) -> bool {
    req.get("want").and_then(|w| w.as_array()).is_some_and(|a| a.iter().any(|x| x.as_str() == Some(what)))
}

fn options_json(o: &SliceOptions) -> Value {
    json!({
        "sources": o.sources, "references": o.references,
        "generators": o.generators.iter().map(|g| json!({"path": g.path, "args": g.args})).collect::<Vec<_>>(),
        "output_dir": o.output_dir, "defined_symbols": o.defined_symbols, "allowed_lints": o.allowed_lints,
        "dry_run": o.dry_run, "diagnostic_format": format!("{:?}", o.diagnostic_format), "disable_color": o.disable_color,
    })
}

fn report(state: CompilationState, options: &SliceOptions, req: &Value, out: &mut serde_json::Map<String, Value>) {
    let CompilationState { ast, diagnostics, files } = state;

    out.insert("has_errors".into(), json!(diagnostics.has_errors()));
    if wants(req, "ast") {
        out.insert("files".into(), files.iter().map(|f| dump::file(&ast, f)).collect());
    }
    if wants(req, "brief") {
        out.insert("files".into(), files.iter().map(dump::file_brief).collect());
    }
    if wants(req, "nodes") {
        // Kind histogram of everything stored in the AST (used to decide "nothing was parsed").
        let mut counts = std::collections::BTreeMap::<String, usize>::new();
        for node in ast.as_slice() {
            *counts.entry(node.to_string()).or_default() += 1;
        }
        out.insert("nodes".into(), json!(counts));
    }
    if wants(req, "visit") {
        let traces: Vec<Value> = files
            .iter()
            .map(|f| {
                let mut r = dump::Recorder { trace: Vec::new() };
                f.visit_with(&mut r);
                Value::Array(r.trace)
            })
            .collect();
        out.insert("visit".into(), Value::Array(traces));
    }

    let updated = diagnostics.into_updated(&ast, &files, options);
    if wants(req, "diags") {
        out.insert("diags".into(), updated.iter().map(dump::diagnostic).collect());
    }
    if wants(req, "codes") {
        out.insert("codes".into(), updated.iter().map(dump::diagnostic_brief).collect());
    }
    let (w, e) = slicec::diagnostics::get_totals(&updated);
    out.insert("totals".into(), json!([w, e]));

    if let Some(fmt) = req.get("emit").and_then(|e| e.as_str()) {
        let mut emit_options = SliceOptions::default();
        emit_options.diagnostic_format = if fmt == "json" { DiagnosticFormat::Json } else { DiagnosticFormat::Human };
        emit_options.disable_color = true;
        let mut buffer: Vec<u8> = Vec::new();
        let result = {
            let mut emitter = DiagnosticEmitter::new(&mut buffer, &emit_options, &files);
            emitter.emit_diagnostics(updated)
        };
        out.insert("emit".into(), json!(String::from_utf8_lossy(&buffer)));
        out.insert("emit_ok".into(), json!(result.is_ok()));
    }
}

fn run_case(req: &Value) -> Value {
    let op = req.get("op").and_then(|o| o.as_str()).unwrap_or("");
    let mut out = serde_json::Map::new();
    if let Some(id) = req.get("id") {
        out.insert("id".into(), id.clone());
    }
    *LAST_PANIC.lock().unwrap() = None;
    let wall = std::time::Instant::now();
    let cpu = thread_cpu_us();

    let result = catch_unwind(AssertUnwindSafe(|| {
        let mut out = serde_json::Map::new();
        match op {
            "compile" => {
                let texts: Vec<String> = req["files"]
                    .as_array()
                    .map(|a| {
                        a.iter()
                            .map(|f| f.as_str().or_else(|| f["text"].as_str()).unwrap_or("").to_owned())
                            .collect()
                    })
                    .unwrap_or_default();
                let refs: Vec<&str> = texts.iter().map(String::as_str).collect();
                let mut options = SliceOptions::default();
                options.defined_symbols = strs(req.get("defines"));
                options.allowed_lints = strs(req.get("allow"));
                let state = slicec::compile_from_strings(&refs, Some(&options));
                report(state, &options, req, &mut out);
            }
            "compile_opts" => {
                if let Some(cwd) = req.get("cwd").and_then(|c| c.as_str()) {
                    std::env::set_current_dir(cwd).expect("chdir");
                }
                let argv = strs(req.get("argv"));
                match SliceOptions::try_parse_from(argv.iter()) {
                    Ok(options) => {
                        out.insert("options".into(), options_json(&options));
                        let state = slicec::compile_from_options(&options);
                        report(state, &options, req, &mut out);
                    }
                    Err(e) => {
                        out.insert("usage_error".into(), json!({"kind": format!("{:?}", e.kind()), "exit_code": e.exit_code(), "text": e.to_string()}));
                    }
                }
            }
            "options" => {
                let argv = strs(req.get("argv"));
                match SliceOptions::try_parse_from(argv.iter()) {
                    Ok(options) => {
                        out.insert("options".into(), options_json(&options));
                    }
                    Err(e) => {
                        out.insert("usage_error".into(), json!({"kind": format!("{:?}", e.kind()), "exit_code": e.exit_code(), "text": e.to_string()}));
                    }
                }
            }
            "ping" => {
                out.insert("pong".into(), json!(true));
            }
            other => {
                out.insert("bad_op".into(), json!(other));
            }
        }
        out
    }));

    match result {
        Ok(m) => {
            out.extend(m);
            out.insert("panic".into(), Value::Null);
        }
        Err(_) => {
            let p = LAST_PANIC.lock().unwrap().take().unwrap_or(json!({"message": "?", "location": "?"}));
            out.insert("panic".into(), p);
        }
    }
    out.insert("t_us".into(), json!(wall.elapsed().as_micros() as u64));
    out.insert("cpu_us".into(), json!(thread_cpu_us() - cpu));
    Value::Object(out)
}

fn worker() {
    std::panic::set_hook(Box::new(|info| {
        let message = if let Some(s) = info.payload().downcast_ref::<&str>() {
            (*s).to_owned()
        } else if let Some(s) = info.payload().downcast_ref::<String>() {
            s.clone()
        } else {
            "<non-string panic payload>".to_owned()
        };
        let location = info.location().map(|l| format!("{}:{}:{}", l.file(), l.line(), l.column())).unwrap_or_default();
        *LAST_PANIC.lock().unwrap() = Some(json!({"message": message, "location": location}));
    }));

    let stdin = std::io::stdin();
    let stdout = std::io::stdout();
    let mut line = String::new();
    let mut input = stdin.lock();
    loop {
        line.clear();
        match input.read_line(&mut line) {
            Ok(0) | Err(_) => break,
            Ok(_) => {}
        }
        let req: Value = match serde_json::from_str(&line) {
            Ok(v) => v,
            Err(e) => {
                let mut o = stdout.lock();
                let _ = writeln!(o, "{}", json!({"protocol_error": e.to_string()}));
                let _ = o.flush();
                continue;
            }
        };
        if req.get("op").and_then(|o| o.as_str()) == Some("batch") {
            // One response line per case, flushed as soon as it is known, so that the parent can attribute a
            // process death (stack overflow, abort) to exactly the case whose line is missing.
            let empty = Vec::new();
            let cases = req["cases"].as_array().unwrap_or(&empty);
            for (i, case) in cases.iter().enumerate() {
                let mut merged = case.clone();
                if let (Some(m), Some(d)) = (merged.as_object_mut(), req.get("defaults").and_then(|d| d.as_object())) {
                    for (k, v) in d {
                        m.entry(k.clone()).or_insert(v.clone());
                    }
                }
                let mut r = run_case(&merged);
                r["i"] = json!(i);
                let mut o = stdout.lock();
                let _ = writeln!(o, "{r}");
                let _ = o.flush();
            }
            let mut o = stdout.lock();
            let _ = writeln!(o, "{}", json!({"batch_end": cases.len()}));
            let _ = o.flush();
        } else {
            let r = run_case(&req);
            let mut o = stdout.lock();
            let _ = writeln!(o, "{r}");
            let _ = o.flush();
        }
    }
}

fn main() {
    let args: Vec<String> = std::env::args().collect();
    match args.get(1).map(String::as_str) {
        Some("worker") => worker(),
        _ => {
            eprintln!("usage: vh worker");
            std::process::exit(2);
        }
    }
}
