#!/bin/sh
# MANIFEST.setup_cmd: builds the framework from files on disk only (offline).
set -e
cd "$(dirname "$0")"
export CARGO_NET_OFFLINE=true
/usr/bin/python3 vlib/build.py slicec vh
