#!/bin/sh
# MANIFEST.setup_cmd: builds the framework from files on disk only (offline).
set -e
cd "$(dirname "$0")"
export CARGO_NET_OFFLINE=true
/usr/bin/python3 vlib/build.py slicec vh vc
# warm the sanitizer builds (the checks rebuild incrementally from /repo's working tree anyway)
/usr/bin/python3 - <<'PY'
import subprocess, sys
sys.path.insert(0, ".")
from vlib import build
try:
    print("asan:", build.build_vc_asan())
    print("asan (compiler, worker):", build.build_asan(("slicec", "vh")))
    pre, env, cwd = build.miri_cmd()
    w = subprocess.run(pre + ["warmup"], stdout=subprocess.PIPE, stderr=subprocess.PIPE, env=env, cwd=cwd)
    print("miri warm-up:", "ok" if b"usage: vc" in w.stderr else w.stderr[-500:])
except Exception as e:  # not fatal for setup: the checks report their own build problems as exit 2
    print("sanitizer warm-up skipped:", e)
PY
