#!/usr/bin/python3
"""Prints the markdown table rows of DESIGN.md appendix B for the seeded changes of a given round, from seeded/<id>/meta.json."""
import json, os, re, sys

WHY = {
 "C01-3": "diagnostics were only rendered for the 2 % of cases re-run through the binary; no family put a defect at the very end of a CRLF line",
 "C01-4": "C01 had no alias-graph family (C05's caught it at once)",
 "C02-3": "the printer wrote only two shapes of block comment",
 "C03-3": "no module path of three segments next to a definition named like its middle segment",
 "C03-4": "module segments were pairwise distinct (A, A::B, A::B::C): no A / A::A",
 "C04-3": "same as C03-3",
 "C04-4": "key structs came from a fixed list; no field type appeared twice in one key struct, optional after plain",
 "C05-3": "all generated types lived in one module: no two types of one identifier",
 "C05-4": "no tagged members among the containment edges",
 "C08-4": "C08 ran the capturing generator alone (C18 caught it at once)",
 "C10-3": "every decode ran on a buffer holding exactly the value: nothing followed it",
 "C10-4": "each dictionary was decoded by the container type that had encoded it",
 "C11-4": "random strings are almost never pure ASCII of length >= 25 with one invalid byte at a chosen offset",
 "C12-4": "counts stayed below 4 KiB; none near usize::MAX",
 "C13-3": "the errors seeded next to suppressions were separate definitions, never attributes on the suppressed element itself",
 "C14-4": "no generators in C14's runs",
 "C15-3": "collisions were two-level only (definition A::B vs module A::B), not with an implied module",
 "C15-4": "no module-less file in the multi-file programs",
 "C19-4": "the witness needs 7 characters; the quick tier enumerated 6",
 "C19-5": "padding was ASCII white space only",
 "C20-4": "the reference traversal followed the implementation's own alias resolution; generated programs rarely chain aliases across modules with relative names (C03 caught it at once)",
}
WHY.update({
 "C02-5": "no attribute string had an escape followed by a multi-byte character",
 "C02-6": "C02 compiles single programs without preprocessor directives (C06 and C15 caught it at once)",
 "C03-5": "no generated identifier was spelled like a primitive",
 "C04-6": "C04 compiles through compile_from_strings, where no DuplicateFile warning can exist (C07 and C17 caught it at once)",
 "C05-6": "alias chains stayed inside one module in C05 (C03 caught it at once)",
 "C06-5": "positions of diagnostics about malformed directives were not compared with anything; no non-ASCII text in front of them",
 "C06-6": "directives were only ever placed between whole probe definitions, never inside an attribute list",
 "C07-6": "no error class lived in a file without a module",
 "C08-5": "C08's reference is the AST, which the change corrupts consistently (C16, whose reference is the model, caught it at once)",
 "C08-6": "same; and C16's defect family had no well-formed comment after the defective one",
 "C10-5": "no string longer than 16 KiB with a multi-byte character across a block boundary",
 "C10-6": "every value was decoded by a fresh decoder",
 "C12-5": "sizes stayed below 4 KiB",
 "C12-6": "reservations were only ever used on the target that made them",
 "C14-5": "C14 takes suppression levels from the library (C13 caught it at once)",
 "C15-5": "no inheritance loop next to an interface deriving from it, without operations (C05 caught it at once)",
 "C15-6": "no file listed twice with another file in between (C17 caught it at once)",
 "C17-5": "C17 observes the compiled file set, not the generator request (C08 and C15 caught it at once)",
 "C18-5": "the truncated reply carried no diagnostics, so no count byte >= 1 ended the reply (C11 caught it at once)",
 "C19-6": "C19's multi-generator runs used healthy generators only (C18 caught it at once)",
 "C19-7": "two particular code points out of 1.1 million",
 "C16-6": "C16 observes the AST, not the request (C08 caught it at once)",
 "C11-6": "C11 observes the codec; the change is in the binary's reply handling (C18 caught it at once)",
 "C20-5": "no generated program held an empty file",
 "C01-5": "?", "C01-6": "?",
})

WHY.update({
 "C01-5": "the cmdline family had no module-less *reference* file next to a generator", "C01-6": "",
 "C01-7": "no multi-file case had a note pointing into another file at an element that spans several lines, on rows where the first file is short",
 "C01-8": "no family put long non-ASCII text inside a token that a syntax error quotes",
 "C02-7": "C02's programs hold no preprocessor directives (the change repeats third-round idea C06-6; C06 caught it at once)",
 "C03-8": "C03 observes bindings in the AST; the change is in the request converter (C08 caught it at once)",
 "C05-7": "all scoped names had the shape A::N3: no two sets of names that read the same once joined",
 "C05-8": "alias targets were wrapped in value position only, never as a dictionary key",
 "C06-7": "no doc comment was split by directives; lint positions were only planted on definitions",
 "C07-7": "C07's error classes are single-file; here the error hides behind another file's #define (C06 caught it at once)",
 "C07-8": "C07's error classes hold no inheritance loop below an outsider (C05 caught it at once)",
 "C08-7": "C08's reference is the AST, which the change corrupts consistently (C03 and C05 caught it at once)",
 "C08-8": "same (C16 caught it at once)",
 "C09-7": "diagnostic locations were checked for sanity and against the injected snippet's lines, not against the element the message names",
 "C10-8": "no map had more than a few hundred entries",
 "C11-7": "C11 observes the codec; the change is in the binary's reply handling (C18 caught it at once)",
 "C12-7": "no position came near 2^32",
 "C13-8": "the unfinished-container witnesses had no same-named element in an enclosing scope",
 "C15-7": "collisions were between definitions and modules, not between two spellings of one non-existent name (C03 caught it at once)",
 "C15-8": "no lint arose twice in one module from different files (C13 does not see it either: it compiles in one order)",
 "C18-8": "seen in the agent's report before the first run - every stderr behaviour of the fake generator wrote visible text - and added first",
 "C19-8": "every generator of a run had an executable of its own",
})


WHY.update({
 "C02-9": "the generator's foreign directives never ended in the name of a built-in attribute",
 "C02-10": "no module named like a primitive next to an *alias* of that primitive (C01's keyword-names family has such modules, but judges crashes only)",
 "C03-10": "C03 observes bindings in the AST; the change is in the request converter (C08 caught it at once)",
 "C04-10": "`B()` under an underlying type is outside the check by a stated assumption: the statement says 'no fields', and an empty list has none - the change makes the compiler agree with the literal reading",
 "C08-10": "C08's reference is the AST, which the change corrupts consistently (C16 caught it at once)",
 "C14-9": "C14 takes suppression levels from the library (the change is fourth-round C13-7 again; C13 caught it at once)",
 "C16-9": "white-space-only lines shorter than the common indentation are not generated: the statement does not say whether they count towards it (textwrap.dedent says no, the implementation says yes), and the check takes no side",
 "C16-10": "C16 observes the AST, not the request (C08 caught it at once)",
})


def main():
    rnd = int(sys.argv[1]) if len(sys.argv) > 1 else 2
    for sid in sorted(os.listdir("/verif/seeded")):
        mp = "/verif/seeded/%s/meta.json" % sid
        if not os.path.exists(mp):
            continue
        m = json.load(open(mp))
        if m.get("round", 1) != rnd:
            continue
        first = m.get("check_result_first_run", "?")
        final = m.get("check_result", "?")
        prop = m["property"]
        fm = re.search(r"%s=(\w+)" % prop, first)
        first_own = fm.group(1).lower() if fm else first
        sigs = m.get("violation_signatures", {})
        if isinstance(sigs, dict):
            flat = []
            for k in sorted(sigs):
                flat += ["%s: %s" % (k, x) for x in sigs[k][:2]]
        else:
            flat = sigs[:2]
        files = ", ".join(os.path.basename(f) for f in m.get("files_changed", []))
        why = WHY.get(sid, "")
        print("| %s | %s | %s | %s | %s |" % (sid, files, (first_own + (": " + why if why and first_own == "missed" else "")), final.replace("CAUGHT", "caught"),
                                          "; ".join(flat)[:260]))

if __name__ == "__main__":
    main()
