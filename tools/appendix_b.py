#!/usr/bin/python3
"""Prints the markdown table rows of DESIGN.md appendix B for the seeded changes of a given round, from seeded/<id>/meta.json."""
import json, os, re, sys

WHY = {
 "C01-3": "diagnostics were only rendered for the 2 % of cases re-run through the binary; no family put a defect at the very end of a CRLF line",
 "C01-4": "C01 had no alias-graph family (C05's caught it at once)",
 "C02-3": "the printer wrote only two shapes of block comment",
 "C03-3": "no module path of three segments next to a definition named like its middle segment",
 "C03-4": "module segments were pairwise distinct (A, A::B, A::B::C): no A / A::A",
 "C04-3": "same as C03-3",
 "C04-4": "key structs came from a fixed list; no field type appeared twice in one key struct, optional after plain",
 "C05-3": "all generated types lived in one module: no two types of one identifier",
 "C05-4": "no tagged members among the containment edges",
 "C08-4": "C08 ran the capturing generator alone (C18 caught it at once)",
 "C10-3": "every decode ran on a buffer holding exactly the value: nothing followed it",
 "C10-4": "each dictionary was decoded by the container type that had encoded it",
 "C11-4": "random strings are almost never pure ASCII of length >= 25 with one invalid byte at a chosen offset",
 "C12-4": "counts stayed below 4 KiB; none near usize::MAX",
 "C13-3": "the errors seeded next to suppressions were separate definitions, never attributes on the suppressed element itself",
 "C14-4": "no generators in C14's runs",
 "C15-3": "collisions were two-level only (definition A::B vs module A::B), not with an implied module",
 "C15-4": "no module-less file in the multi-file programs",
 "C19-4": "the witness needs 7 characters; the quick tier enumerated 6",
 "C19-5": "padding was ASCII white space only",
 "C20-4": "the reference traversal followed the implementation's own alias resolution; generated programs rarely chain aliases across modules with relative names (C03 caught it at once)",
}

def main():
    rnd = int(sys.argv[1]) if len(sys.argv) > 1 else 2
    for sid in sorted(os.listdir("/verif/seeded")):
        mp = "/verif/seeded/%s/meta.json" % sid
        if not os.path.exists(mp):
            continue
        m = json.load(open(mp))
        if m.get("round", 1) != rnd:
            continue
        first = m.get("check_result_first_run", "?")
        final = m.get("check_result", "?")
        prop = m["property"]
        fm = re.search(r"%s=(\w+)" % prop, first)
        first_own = fm.group(1).lower() if fm else first
        sigs = m.get("violation_signatures", {})
        if isinstance(sigs, dict):
            flat = []
            for k in sorted(sigs):
                flat += ["%s: %s" % (k, x) for x in sigs[k][:2]]
        else:
            flat = sigs[:2]
        files = ", ".join(os.path.basename(f) for f in m.get("files_changed", []))
        why = WHY.get(sid, "")
        print("| %s | %s | %s | %s | %s |" % (sid, files, (first_own + (": " + why if why and first_own == "missed" else "")), final.replace("CAUGHT", "caught"),
                                          "; ".join(flat)[:260]))

if __name__ == "__main__":
    main()
