#!/usr/bin/python3
"""Copies confirmed seeded changes from the scratch worktrees into /verif/seeded/<id>/ and evaluates them with the checks."""
import json, os, re, shutil, subprocess, sys

SRC = "/tmp/mut"
DST = "/verif/seeded"
KEEP = re.compile(r"^(patch\.diff|demo.*\.(sh|rs|py)|decode_request\.py|README\.md)$")

def main():
    confirm = {}
    for f in os.listdir(SRC):
        if f.endswith(".txt") and ("confirm" in f):
            for line in open(os.path.join(SRC, f)):
                m = re.match(r"/tmp/mut/(C\d+) (MUTANT\d) tests_exit=(\d+) passed/failed=(\S+) demo_with=(\S+) demo_without=(\S+)", line)
                if m:
                    confirm[(m.group(1), m.group(2))] = {"tests_exit": int(m.group(3)), "passed/failed": m.group(4), "demo_with_change": m.group(5), "demo_without_change": m.group(6)}
    # later confirmations (re-runs) override earlier ones: read reconfirm files last
    for f in ["reconfirm.txt", "reconfirm2.txt"]:
        p = os.path.join(SRC, f)
        if os.path.exists(p):
            for line in open(p):
                m = re.match(r"/tmp/mut/(C\d+) (MUTANT\d) tests_exit=(\d+) passed/failed=(\S+) demo_with=(\S+) demo_without=(\S+)", line)
                if m:
                    confirm[(m.group(1), m.group(2))] = {"tests_exit": int(m.group(3)), "passed/failed": m.group(4), "demo_with_change": m.group(5), "demo_without_change": m.group(6)}
    results = []
    for c in sorted(os.listdir(SRC)):
        if not re.match(r"^C\d+$", c):
            continue
        for mdir in sorted(os.listdir(os.path.join(SRC, c))):
            if not re.match(r"^(MUTANT\d|EXTRA_MUTANT\d)$", mdir):
                continue
            n = mdir[-1]
            sid = "%s-%s" % (c, n)
            src = os.path.join(SRC, c, mdir)
            dst = os.path.join(DST, sid)
            os.makedirs(dst, exist_ok=True)
            for f in os.listdir(src):
                if KEEP.match(f):
                    shutil.copy(os.path.join(src, f), os.path.join(dst, f))
            if os.path.isdir(os.path.join(src, "demo-crate")):
                shutil.copytree(os.path.join(src, "demo-crate"), os.path.join(dst, "demo-crate"), dirs_exist_ok=True,
                                ignore=shutil.ignore_patterns("target", "Cargo.lock"))
            readme = open(os.path.join(src, "README.md")).read() if os.path.exists(os.path.join(src, "README.md")) else ""
            # evaluate
            p = subprocess.run(["/verif/tools/try_mutant.py", os.path.join(dst, "patch.diff"), c], capture_output=True, text=True)
            viol = re.findall(r"VIOLATION property=(\S+) replay=\S*/([^/\s]+)-[0-9a-f]{8}\.json", p.stdout)
            summary = re.search(r"SUMMARY (.*)", p.stdout)
            meta = {
                "id": sid, "property": c, "origin": "written by an independent sub-agent that saw only the property text and a scratch worktree",
                "files_changed": sorted(set(re.findall(r"^\+\+\+ b/(\S+)", open(os.path.join(dst, "patch.diff")).read(), flags=re.M))),
                "needs_to_manifest": _extract(readme),
                "confirmed_in_scratch_worktree": confirm.get((c, mdir), confirm.get((c, "MUTANT" + n))),
                "confirmation_commands": "tools/confirm_mutant.sh /tmp/mut/%s %s  (git apply; cargo test --workspace --offline; demo; git apply -R; cargo build; demo)" % (c, n),
                "check_run": "tools/try_mutant.py seeded/%s/patch.diff %s  (git -C /repo apply; ./check %s --tier quick; git -C /repo apply -R)" % (sid, c, c),
                "check_result": summary.group(1) if summary else "?",
                "violation_signatures": sorted(set(v[1] for v in viol))[:8],
            }
            with open(os.path.join(dst, "meta.json"), "w") as f:
                json.dump(meta, f, indent=1)
            results.append((sid, meta["check_result"], meta["violation_signatures"][:3]))
            print(sid, meta["check_result"], meta["violation_signatures"][:3], flush=True)
    with open(os.path.join(DST, "RESULTS.json"), "w") as f:
        json.dump(results, f, indent=1)

def _extract(readme):
    # the paragraph(s) that say what is needed for the change to manifest
    m = re.search(r"(?is)(what (?:is|it) need[^\n]*|trigger[^\n]*|needs? to manifest[^\n]*|manifest[^\n]*)\n(.{0,900})", readme)
    text = (m.group(0) if m else readme[:900]).strip()
    return text[:1200]

if __name__ == "__main__":
    main()
