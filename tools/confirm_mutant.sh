#!/bin/sh
# Confirms a seeded change in its scratch worktree: applies, tests compile + pass, demo fails; reverted, demo passes.
#   tools/confirm_mutant.sh /tmp/mut/C05 1
W=$1; N=$2; M=$W/MUTANT$N
export CARGO_NET_OFFLINE=true CARGO_TARGET_DIR=$W/target
cd $W || exit 2
git checkout -q -- . 2>/dev/null
LOG=$M/confirm.log; : > $LOG
git apply --whitespace=nowarn $M/patch.diff >> $LOG 2>&1 || { echo "$W $N APPLY-FAILED"; exit 1; }
cargo test --workspace --offline --no-fail-fast >> $LOG 2>&1; T=$?
PASSED=$(grep -E "^test result" $LOG | awk '{p+=$4; f+=$6} END {print p"/"f}')
DEMO=$(ls $M/demo.sh 2>/dev/null)
if [ -n "$DEMO" ]; then (cd $M && timeout 900 bash ./demo.sh) >> $LOG 2>&1; D1=$?; else D1=na; fi
git apply -R --whitespace=nowarn $M/patch.diff >> $LOG 2>&1; git checkout -q -- .
cargo build --offline --workspace >> $LOG 2>&1
if [ -n "$DEMO" ]; then (cd $M && timeout 900 bash ./demo.sh) >> $LOG 2>&1; D0=$?; else D0=na; fi
echo "$W MUTANT$N tests_exit=$T passed/failed=$PASSED demo_with=$D1 demo_without=$D0"
