#!/usr/bin/python3
"""Re-evaluates every kept seeded change with the current checks, in a scratch copy of the repository (never /repo), and records
the outcome in seeded/<id>/meta.json ("check_result", "violation_signatures") and seeded/RESULTS.json.

  tools/eval_all.py [--repo /tmp/mrepo] [--only C01,C02-3,...]
"""
import json, os, re, subprocess, sys

EXTRA = {"C08-4": ["C18"], "C01-4": ["C05"], "C20-4": ["C03"], "C15-4": ["C08"], "C15-3": ["C04", "C03"], "C18-3": ["C07"],
         # third round: the property a change was written for is not always the one whose clause it breaks
         "C01-5": ["C08"], "C02-6": ["C06", "C15"], "C04-6": ["C07", "C17"], "C05-6": ["C03"], "C08-5": ["C16"], "C08-6": ["C16"], "C14-5": ["C13"],
         "C15-5": ["C05"], "C15-6": ["C17"], "C17-5": ["C08", "C15"], "C18-5": ["C11"], "C19-6": ["C18"], "C16-6": ["C08"], "C11-6": ["C18"],
         "C07-5": ["C13"], "C04-5": ["C07"],
         # fourth round
         "C02-7": ["C06"], "C11-7": ["C18"], "C03-8": ["C08"], "C08-7": ["C03", "C05"], "C08-8": ["C16"], "C07-7": ["C06"], "C07-8": ["C05"],
         "C15-7": ["C03"], "C15-8": ["C13"], "C01-7": ["C09", "C14"],
         # fifth round
         "C14-9": ["C13"], "C08-10": ["C16"], "C03-10": ["C08"], "C16-10": ["C08"], "C02-10": ["C03", "C04"], "C02-9": ["C01"],
         # sixth round
         "C15-9": ["C06"], "C06-9": ["C15"], "C11-9": ["C18"]}

def main():
    a = sys.argv[1:]
    repo = "/tmp/mrepo"
    only = None
    if "--repo" in a:
        i = a.index("--repo"); repo = a[i + 1]; del a[i:i + 2]
    if "--only" in a:
        i = a.index("--only"); only = a[i + 1].split(","); del a[i:i + 2]
    results = {}
    rp = "/verif/seeded/RESULTS.json"
    if os.path.exists(rp):
        try:
            old = json.load(open(rp))
            if isinstance(old, dict):
                results = old
        except ValueError:
            pass
    ids = sorted(d for d in os.listdir("/verif/seeded") if re.match(r"^C\d+-\d+$", d))
    for sid in ids:
        prop = sid.split("-")[0]
        if only and sid not in only and prop not in only:
            continue
        checks = [prop] + EXTRA.get(sid, [])
        p = subprocess.run(["/verif/tools/try_mutant.py", "/verif/seeded/%s/patch.diff" % sid] + checks + ["--repo", repo], capture_output=True, text=True)
        summary = re.search(r"SUMMARY (.*)", p.stdout)
        sigs = {}
        cur = None
        for line in p.stdout.splitlines():
            m = re.match(r"== (C\d+) ", line)
            if m:
                cur = m.group(1)
            m = re.search(r"VIOLATION property=(\S+) replay=\S*/([^/\s]+)-[0-9a-f]{8}\.json", line)
            if m:
                sigs.setdefault(m.group(1), []).append(m.group(2))
        res = summary.group(1) if summary else "error: " + (p.stdout[-300:] + p.stderr[-300:])
        mp = "/verif/seeded/%s/meta.json" % sid
        meta = json.load(open(mp))
        meta["check_result"] = res
        meta["violation_signatures"] = {k: sorted(set(v))[:6] for k, v in sigs.items()}
        meta["check_run"] = "tools/try_mutant.py seeded/%s/patch.diff %s --repo <scratch copy of /repo at its HEAD>" % (sid, " ".join(checks))
        json.dump(meta, open(mp, "w"), indent=1)
        try:   # several evaluations may run side by side on different scratch copies: merge, do not overwrite
            results = json.load(open(rp))
        except (OSError, ValueError):
            pass
        results[sid] = res
        json.dump(results, open(rp + ".%d" % os.getpid(), "w"), indent=1, sort_keys=True)
        os.replace(rp + ".%d" % os.getpid(), rp)
        print(sid, res, flush=True)

if __name__ == "__main__":
    main()
