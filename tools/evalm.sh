#!/bin/bash
# tools/evalm.sh <seeded-id> <Cnn> [...]: evaluates one kept seeded change in a scratch copy of the repository (never /repo)
ID=$1; shift
R=${VERIF_SCRATCH_REPO:-/tmp/mrepo2}
/verif/tools/try_mutant.py /verif/seeded/$ID/patch.diff "$@" --repo $R 2>&1 | grep -v "KNOWN\|conda" | grep "^SUMMARY\|^     \[" | cut -c1-260 | tail -4
