#!/usr/bin/python3
"""Regenerates MANIFEST.json from the table below (only properties whose check module exists are claimed)."""
import json
import os

HERE = os.path.dirname(os.path.dirname(os.path.abspath(__file__)))

TRUST = ("rustc/cargo, the Linux process/rusage interfaces, Python's json; the reference model in vlib/ (the part most "
         "likely to be wrong: it is validated against seeded breaks, see DESIGN.md appendix B)")

CHECKS = {
    "C01": ("process-boundary monitor + library worker under catch_unwind, generated hostile inputs (bounded-exhaustive token soups, mutations, truncations, cycles, scaling families); AddressSanitizer builds (with overflow checks and debug assertions) of worker and binary; thorough: libFuzzer + ASan exploration with artifacts re-judged by the uninstrumented binary",
            "exploration", "4/C01",
            "No crash/abort/stack overflow/hang observed on the executed inputs; exit status, signal, stderr and CPU time (rusage) of the real binary and of an isolated library worker are the observation points. Universality is approximated by bounded-exhaustive token sequences plus families aimed at each recursion, each unwrap and each point where a syntax error can interrupt the construction of the AST; memory errors in the pointer-based AST are observed by AddressSanitizer."),
    "C02": ("model-generated programs + position-recording printer vs. AST dump (field-by-field), layout metamorphic relation",
            "exploration", "4/C02",
            "Every declared thing of a generated well-formed program is compared with the library's AST dump, under several token-level layouts of the same program."),
    "C03": ("bounded-exhaustive scope arrangements vs. reference resolver; AST lookups by scoped name",
            "exploration", "4/C03",
            "Binding of every reference spelling from every position is compared with an independent implementation of the scoping rule; wrong-kind and missing targets must produce E017/E033."),
    "C04": ("reference rule checker + single-rule violation injectors at boundary values vs. emitted error codes",
            "exploration", "4/C04",
            "Accept/reject and the diagnostic code are compared with a reference checker for every rule of the statement, with boundary-value injectors and small-scope exhaustive families."),
    "C05": ("bounded-exhaustive containment/alias/inheritance graphs vs. Tarjan SCC reference; chains parsed from E032 notes",
            "exploration", "4/C05",
            "All digraphs on <=3 (thorough: 4) nodes with every wrapper form on edges; every reported chain is validated edge by edge against the source."),
    "C06": ("bounded-exhaustive directive sequences x -D subsets vs. line-oriented reference preprocessor; probes read from the AST",
            "exploration", "4/C06",
            "Each source line is a probe definition, so the set that reached the parser and their positions are read off the AST and compared with a reference preprocessor."),
    "C07": ("fake generators' invocation logs + output-directory snapshots + exit status over the error-phase x option product",
            "exploration", "4/C07",
            "Generation gating is decided at the process boundary: whether generator processes were started and files written, against the presence of error diagnostics and --dry-run."),
    "C08": ("captured generator stdin decoded by a schema-driven reader (schema parsed from slice/Compiler at run time) vs. library AST dump",
            "exploration", "4/C08",
            "The byte stream really handed to a generator process is decoded completely and compared with the AST obtained through the library API."),
    "C09": ("printer-recorded token positions vs. spans of every AST symbol and diagnostic; reference renderer for human snippets",
            "exploration", "4/C09",
            "Spans of every symbol reachable from the files and of diagnostics are compared with the positions recorded while printing the program under hostile layouts."),
    "C10": ("exhaustive/boundary value sweeps through the real encoder/decoder vs. bit-level reference encoder; Miri (Stacked Borrows; thorough also Tree Borrows + symbolic alignment) + ASan/overflow-check runs",
            "exploration", "4/C10",
            "Round trip, exact consumption and byte-for-byte wire format on exhaustive small domains and boundary neighbourhoods, plus sanitizer runs of the same workload."),
    "C11": ("exhaustive short byte strings + mutations + lying size prefixes under catch_unwind with per-decode RSS/CPU monitor; strict reference decoder, incl. user-defined (zero-sized / oversized) var-int targets; Miri (thorough: both aliasing models) + ASan with overflow checks; the real binary fed malformed generator replies (every truncation, undecodable and lying replies); thorough: the same differential oracle inside a libFuzzer target",
            "exploration", "4/C11",
            "Every decodable type is fed every byte string up to length 2 (thorough: 3), mutated valid encodings and lying prefixes; results are compared with a strict reference decoder and cost is measured per decode."),
    "C12": ("bounded-exhaustive operation histories in lock-step with a reference append-only log; canary-padded buffers; Miri (thorough: both aliasing models) + ASan with overflow checks",
            "exploration", "4/C12",
            "History + executable model: after every operation contents, position, remaining and reservation ranges are compared with the reference."),
    "C13": ("template product lint x placement x argument and random programs with injected lints and scattered suppressions vs. reference suppression rule; metamorphic with/without pairs; witnesses for lints of members of unfinished definitions",
            "exploration", "4/C13",
            "Levels of every seeded lint are compared with the reference rule; adding a suppression must change nothing else."),
    "C14": ("emitter output (JSON lines / human blocks / totals / escape bytes) vs. the diagnostics returned by the library",
            "exploration", "4/C14",
            "Independent JSON reader and block counter over the real emitter output for programs with many diagnostics and hostile text."),
    "C15": ("metamorphic monitor: repeated fresh-process runs, file permutations and source/reference moves compared byte-wise / per decoded file",
            "exploration", "4/C15",
            "Two-execution relations over the real binary: identical runs byte-identical, permutations keep acceptance, per-file content and warning multiset."),
    "C16": ("doc-comment model (text, indentation, tags, links) vs. AST comment dump; defect catalogue must yield warnings only",
            "exploration", "4/C16",
            "Generated comments in every commentable position are compared with the comment structure exposed by the library; links are resolved by the reference scope search."),
    "C17": ("random directory trees + aliasing argument lists vs. Python reference of the file-set rule (realpath)",
            "exploration", "4/C17",
            "CompilationState.files from compile_from_options and the binary's captured request are compared with an independent computation of the file set."),
    "C18": ("fault-injecting fake generators (behaviour catalogue, reply truncated at every byte) observed at the process boundary",
            "fault_enumeration", "4/C18",
            "Every catalogue fault alone and paired with a healthy generator; slicec must report, survive, exit non-zero and still honour the healthy generator."),
    "C19": ("exhaustive short strings over the separator alphabet vs. reference parser; escaped round trip; captured generator arguments",
            "exploration", "4/C19",
            "All strings up to length 5/6 over {a, space, ',', '=', backslash} are compared with a reference parser through SliceOptions::try_parse_from; arguments are read back from a real generator's stdin."),
    "C20": ("recording visitor trace vs. reference traversal derived from the AST containment structure",
            "exploration", "4/C20",
            "The callback sequence on every file of generated programs is compared with an independently computed traversal; duplicates, omissions and foreign elements are violations."),
}

PENDING_REASON = "check not built yet in this session (runtime-monitoring design exists in DESIGN.md section 4); not claimed until its monitor runs silent on the unchanged tree"


def main():
    checks = []
    na = []
    for pid in sorted(CHECKS):
        technique, level, ref, text = CHECKS[pid]
        if os.path.exists(os.path.join(HERE, "vlib", "checks", pid.lower() + ".py")):
            checks.append({
                "property_id": pid,
                "quick_cmd": "./check %s --tier quick" % pid,
                "thorough_cmd": "./check %s --tier thorough" % pid,
                "evidence_file": "evidence/%s.json" % pid,
                "replay_cmd_template": "./check %s --replay {path}" % pid,
                "engine": "vlib",
                "level_claimed": {"category": level, "text": text, "design_ref": "DESIGN.md " + ref},
                "level_note": TRUST,
                "technique": "runtime monitoring: " + technique,
            })
        else:
            na.append({"property_id": pid, "reason": PENDING_REASON})
    manifest = {
        "version": 1,
        "setup_cmd": "./setup.sh",
        "hooks": {
            "guard": "--cfg slicec_verif",
            "enable": "RUSTFLAGS='--cfg slicec_verif' (set by vlib/build.py for every build of /repo; no hook code exists in /repo at present, all observation points are public boundaries)",
            "baseline_off_cmd": "cd /repo && cargo test --workspace --no-fail-fast --offline",
            "source_commits": [],
            "add_only": True,
        },
        "engines": [
            {"name": "vlib", "path": "check", "serves_properties": [c["property_id"] for c in checks],
             "kind_free_text": "Python oracles/generators (vlib/) driving the real slicec binary, a library worker (harness/) and a codec harness (codec-harness/); Miri/ASan for slice-codec"},
        ],
        "checks": checks,
        "not_applicable": na,
        "notes": "Technique family: runtime monitoring and sanitizers. See DESIGN.md. Known findings: known_findings.json.",
    }
    with open(os.path.join(HERE, "MANIFEST.json"), "w") as f:
        json.dump(manifest, f, indent=1)
    print("claimed:", [c["property_id"] for c in checks])
    print("pending:", [n["property_id"] for n in na])


if __name__ == "__main__":
    main()
