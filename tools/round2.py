#!/usr/bin/python3
"""Second-round seeded changes: confirm one in its scratch worktree, copy it to /verif/seeded/<id>/, evaluate it in a scratch
copy of the repository (never /repo) and write meta.json.

  tools/round2.py <Cnn> <N> <new-id> [--repo /tmp/mrepo] [--checks Cnn,Cmm] [--no-confirm]
"""
import json, os, re, shutil, subprocess, sys

def main():
    a = sys.argv[1:]
    repo = "/tmp/mrepo"
    checks = None
    confirm = True
    if "--repo" in a:
        i = a.index("--repo"); repo = a[i + 1]; del a[i:i + 2]
    if "--checks" in a:
        i = a.index("--checks"); checks = a[i + 1].split(","); del a[i:i + 2]
    root, rnd = "/tmp/mut", 2
    if "--root" in a:
        i = a.index("--root"); root = a[i + 1]; del a[i:i + 2]
    if "--round" in a:
        i = a.index("--round"); rnd = int(a[i + 1]); del a[i:i + 2]
    if "--no-confirm" in a:
        a.remove("--no-confirm"); confirm = False
    prop, n, sid = a[0], a[1], a[2]
    W = "%s/%s" % (root, prop)
    src = os.path.join(W, "MUTANT%s" % n)
    dst = os.path.join("/verif/seeded", sid)
    conf = None
    if confirm:
        p = subprocess.run(["/verif/tools/confirm_mutant.sh", W, n], capture_output=True, text=True)
        line = p.stdout.strip().splitlines()[-1] if p.stdout.strip() else "?"
        m = re.match(r"\S+ MUTANT\d tests_exit=(\d+) passed/failed=(\S+) demo_with=(\S+) demo_without=(\S+)", line)
        if not m:
            print("CONFIRM-FAILED", line); return 1
        conf = {"tests_exit": int(m.group(1)), "passed/failed": m.group(2), "demo_with_change": m.group(3), "demo_without_change": m.group(4)}
        ok = conf["tests_exit"] == 0 and conf["demo_with_change"] not in ("0", "na") and conf["demo_without_change"] == "0"
        print("confirm:", conf, "OK" if ok else "NOT-CONFIRMED", flush=True)
        if not ok:
            return 1
    os.makedirs(dst, exist_ok=True)
    for root, dirs, files in os.walk(src):
        dirs[:] = [d for d in dirs if d not in ("target", "out", "scratch", "tmp", "work") and not d.startswith(".")]
        for f in files:
            p = os.path.join(root, f)
            if f in ("Cargo.lock", "confirm.log") or os.path.getsize(p) > 200_000 or os.access(p, os.X_OK) and not f.endswith((".sh", ".py")):
                continue
            rel = os.path.relpath(p, src)
            os.makedirs(os.path.dirname(os.path.join(dst, rel)) or dst, exist_ok=True)
            shutil.copy(p, os.path.join(dst, rel))
    readme = open(os.path.join(src, "README.md")).read() if os.path.exists(os.path.join(src, "README.md")) else ""
    checks = checks or [prop]
    p = subprocess.run(["/verif/tools/try_mutant.py", os.path.join(dst, "patch.diff")] + checks + ["--repo", repo], capture_output=True, text=True)
    viol = re.findall(r"VIOLATION property=(\S+) replay=\S*/([^/\s]+)-[0-9a-f]{8}\.json", p.stdout)
    summary = re.search(r"SUMMARY (.*)", p.stdout)
    meta = {
        "id": sid, "property": prop, "round": rnd,
        "origin": "written by an independent sub-agent that saw only the property text, the list of first-round ideas to avoid and a scratch worktree",
        "files_changed": sorted(set(re.findall(r"^\+\+\+ b/(\S+)", open(os.path.join(dst, "patch.diff")).read(), flags=re.M))),
        "needs_to_manifest": readme[:1500],
        "confirmed_in_scratch_worktree": conf,
        "confirmation_commands": "tools/confirm_mutant.sh <scratch worktree of %s> %s  (git apply; cargo test --workspace --offline; bash demo.sh; git apply -R; cargo build; bash demo.sh)" % (prop, n),
        "check_run": "tools/try_mutant.py seeded/%s/patch.diff %s --repo <scratch copy of /repo>  (git apply; ./check --tier quick with VERIF_REPO; git apply -R)" % (sid, " ".join(checks)),
        "check_result_first_run": summary.group(1) if summary else "?",
        "violation_signatures_first_run": sorted(set(v[1] for v in viol))[:8],
    }
    old = os.path.join(dst, "meta.json")
    if os.path.exists(old):
        o = json.load(open(old))
        for k in ("confirmed_in_scratch_worktree", "check_result_first_run", "violation_signatures_first_run"):
            if o.get(k) and (k != "confirmed_in_scratch_worktree" or conf is None):
                meta[k] = o[k]
        meta["check_result"] = summary.group(1) if summary else "?"
        meta["violation_signatures"] = sorted(set(v[1] for v in viol))[:8]
    with open(old, "w") as f:
        json.dump(meta, f, indent=1)
    print(sid, summary.group(1) if summary else "?", sorted(set(v[1] for v in viol))[:4], flush=True)
    if not summary:
        print(p.stdout[-1500:], p.stderr[-1500:])
    return 0

if __name__ == "__main__":
    sys.exit(main())
