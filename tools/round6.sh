#!/bin/bash
# tools/round6.sh <Cnn> <new-id> <scratch repo> [extra checks...]: confirms the sub-agent's change in its own scratch worktree
# (/tmp/mut/Cnn/MUTANT1), copies it to seeded/<new-id>/ and evaluates it with the quick tier in a scratch copy of the repository.
C=$1; ID=$2; R=$3; shift 3
W=/tmp/mut/$C
/verif/tools/confirm_mutant.sh $W 1 > /tmp/mut/confirm6-$C.txt 2>&1
cat /tmp/mut/confirm6-$C.txt
D=/verif/seeded/$ID; mkdir -p $D
for f in $W/MUTANT1/*; do case $(basename $f) in patch.diff|README.md|demo*.sh|demo*.rs|demo*.py|*.slice) cp $f $D/;; esac; done
[ -d $W/MUTANT1/demo-crate ] && rsync -a --exclude target --exclude Cargo.lock $W/MUTANT1/demo-crate $D/
/verif/tools/try_mutant.py $D/patch.diff $C "$@" --repo $R > /tmp/mut/eval6-$C.txt 2>&1
grep -v "KNOWN\|conda" /tmp/mut/eval6-$C.txt | grep "^SUMMARY\|^VIOLATION\|^== " | cut -c1-240 | head -12
