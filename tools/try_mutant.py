#!/usr/bin/python3
"""Applies a seeded change to /repo, runs the given checks, and undoes the change straight afterwards.

  tools/try_mutant.py <patch.diff> <Cnn> [<Cnn> ...] [--tier quick|thorough] [--seed N]

Prints, per check, the exit status and the VIOLATION / verdict lines. Never leaves /repo modified.
"""
import subprocess
import sys


def main():
    args = sys.argv[1:]
    tier, seed = "quick", "0"
    if "--tier" in args:
        i = args.index("--tier")
        tier = args[i + 1]
        del args[i:i + 2]
    if "--seed" in args:
        i = args.index("--seed")
        seed = args[i + 1]
        del args[i:i + 2]
    repo = "/repo"
    if "--repo" in args:
        i = args.index("--repo")
        repo = args[i + 1]
        del args[i:i + 2]
    import os
    env = dict(os.environ)
    if repo != "/repo":
        env["VERIF_REPO"] = repo
    patch, props = args[0], args[1:]
    st = subprocess.run(["git", "-C", repo, "status", "--porcelain", "--untracked-files=no"], capture_output=True, text=True).stdout
    if st.strip():
        print("refusing: /repo has uncommitted changes:\n" + st)
        return 2
    r = subprocess.run(["git", "-C", repo, "apply", "--whitespace=nowarn", patch], capture_output=True, text=True)
    if r.returncode != 0:
        print("patch does not apply:", r.stderr)
        return 2
    results = {}
    try:
        for p in props:
            try:
                c = subprocess.run(["/verif/check", p, "--tier", tier, "--seed", seed], capture_output=True, text=True, cwd="/verif", timeout=2400, env=env)
            except subprocess.TimeoutExpired:
                subprocess.run(["pkill", "-f", "vh worker"])
                results[p] = 99
                print("== %s TIMEOUT" % p)
                continue
            lines = [l for l in (c.stdout + c.stderr).splitlines() if l.startswith("VIOLATION") or l.startswith("[" + p) or
                     l.startswith("  [" + p) or "too little" in l or "BUILD ERROR" in l or "machinery error" in l]
            results[p] = c.returncode
            print("== %s exit %d" % (p, c.returncode))
            for l in lines[:12]:
                print("   " + l[:300])
    finally:
        subprocess.run(["git", "-C", repo, "apply", "-R", "--whitespace=nowarn", patch], capture_output=True)
        subprocess.run(["git", "-C", repo, "checkout", "--", "."], capture_output=True)
        st = subprocess.run(["git", "-C", repo, "status", "--porcelain", "--untracked-files=no"], capture_output=True, text=True).stdout
        if st.strip():
            print("WARNING: /repo still modified:\n" + st)
    print("SUMMARY", " ".join("%s=%s" % (p, "CAUGHT" if rc == 1 else "missed" if rc == 0 else "error(%d)" % rc) for p, rc in results.items()))
    return 0


if __name__ == "__main__":
    sys.exit(main())
