#!/usr/bin/python3
"""Applies a seeded change to /repo, runs the given checks, and undoes the change straight afterwards.

  tools/try_mutant.py <patch.diff> <Cnn> [<Cnn> ...] [--tier quick|thorough] [--seed N]

Prints, per check, the exit status and the VIOLATION / verdict lines. Never leaves /repo modified.
"""
import subprocess
import sys


def main():
    args = sys.argv[1:]
    tier, seed = "quick", "0"
    if "--tier" in args:
        i = args.index("--tier")
        tier = args[i + 1]
        del args[i:i + 2]
    if "--seed" in args:
        i = args.index("--seed")
        seed = args[i + 1]
        del args[i:i + 2]
    repo = "/repo"
    if "--repo" in args:
        i = args.index("--repo")
        repo = args[i + 1]
        del args[i:i + 2]
    import os
    env = dict(os.environ)
    if repo != "/repo":
        env["VERIF_REPO"] = repo
    patch, props = args[0], args[1:]
    st = subprocess.run(["git", "-C", repo, "status", "--porcelain", "--untracked-files=no"], capture_output=True, text=True).stdout
    if st.strip():
        print("refusing: %s has uncommitted changes:\n" % repo + st)
        return 2
    r = subprocess.run(["git", "-C", repo, "apply", "--whitespace=nowarn", patch], capture_output=True, text=True)
    if r.returncode != 0:
        print("patch does not apply:", r.stderr)
        return 2
    results = {}
    try:
        for p in props:
            import signal
            proc = subprocess.Popen(["/verif/check", p, "--tier", tier, "--seed", seed], stdout=subprocess.PIPE, stderr=subprocess.PIPE,
                                    text=True, cwd="/verif", env=env, start_new_session=True)
            try:
                out, err = proc.communicate(timeout=2400)
            except subprocess.TimeoutExpired:
                os.killpg(proc.pid, signal.SIGKILL)   # only this check's own process group
                proc.wait()
                results[p] = 99
                print("== %s TIMEOUT" % p)
                continue

            class C:
                pass
            c = C()
            c.stdout, c.stderr, c.returncode = out, err, proc.returncode
            lines = [l for l in (c.stdout + c.stderr).splitlines() if l.startswith("VIOLATION") or l.startswith("[" + p) or
                     l.startswith("  [" + p) or "too little" in l or "BUILD ERROR" in l or "machinery error" in l]
            results[p] = c.returncode
            if c.returncode == 1 and not any(l.startswith("VIOLATION property=") for l in lines):
                results[p] = 98   # exit 1 without a VIOLATION line: not a verdict
                print("   (exit 1 without a VIOLATION line)\n" + (c.stdout + c.stderr)[-1500:])
            print("== %s exit %d" % (p, c.returncode))
            for l in lines[:12]:
                print("   " + l[:300])
    finally:
        subprocess.run(["git", "-C", repo, "apply", "-R", "--whitespace=nowarn", patch], capture_output=True)
        subprocess.run(["git", "-C", repo, "checkout", "--", "."], capture_output=True)
        st = subprocess.run(["git", "-C", repo, "status", "--porcelain", "--untracked-files=no"], capture_output=True, text=True).stdout
        if st.strip():
            print("WARNING: %s still modified:\n" % repo + st)
    print("SUMMARY", " ".join("%s=%s" % (p, "CAUGHT" if rc == 1 else "missed" if rc == 0 else "error(%d)" % rc) for p, rc in results.items()))
    return 0


if __name__ == "__main__":
    sys.exit(main())
