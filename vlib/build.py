"""(Re)builds everything the checks execute, from the repository's *current working tree*, offline.

Artifacts (per repository path, so that scratch copies used for mutant self-tests never mix with /repo):
  target/<tag>/cargo/<profile>/slicec     the real compiler binary
  target/<tag>/cargo/<profile>/vh         library worker (harness/src/main.rs)
  target/<tag>/cargo/<profile>/fakegen    fake generator (harness/src/fakegen.rs)
  target/<tag>/cargo/<profile>/vc         codec harness (codec-harness/src/*.rs + a copy of definition_types.rs)
"""
import fcntl
import hashlib
import os
import shutil
import subprocess
import sys
import time

VERIF = os.path.dirname(os.path.dirname(os.path.abspath(__file__)))
GUARD_CFG = "slicec_verif"


def repo():
    return os.path.abspath(os.environ.get("VERIF_REPO", "/repo"))


def tag():
    r = repo()
    if r == "/repo":
        return "repo"
    return "alt-" + hashlib.sha1(r.encode()).hexdigest()[:10]


def tdir():
    return os.path.join(VERIF, "target", tag())


def cargo_dir():
    return os.path.join(tdir(), "cargo")


def _write_if_changed(path, content):
    if isinstance(content, str):
        content = content.encode()
    try:
        with open(path, "rb") as f:
            if f.read() == content:
                return False
    except FileNotFoundError:
        pass
    os.makedirs(os.path.dirname(path), exist_ok=True)
    with open(path, "wb") as f:
        f.write(content)
    return True


def _copy_if_changed(src, dst):
    with open(src, "rb") as f:
        return _write_if_changed(dst, f.read())


VH_MANIFEST = """[package]
name = "vh"
version = "0.0.0"
edition = "2021"

[[bin]]
name = "vh"
path = "{verif}/harness/src/main.rs"

[[bin]]
name = "fakegen"
path = "{verif}/harness/src/fakegen.rs"

[dependencies]
slicec = {{ path = "{repo}/slicec" }}
slice-codec = {{ path = "{repo}/slice-codec" }}
serde_json = "1"
libc = "0.2"
clap = "4.5"

[workspace]

[profile.release]
debug = "line-tables-only"

[profile.dev]
debug = "line-tables-only"
"""

VC_MANIFEST = """[package]
name = "vc"
version = "0.0.0"
edition = "2021"

[[bin]]
name = "vc"
path = "src/main.rs"

[dependencies]
slice-codec = {{ path = "{repo}/slice-codec" }}
libc = "0.2"

[workspace]

[profile.release]
debug = "line-tables-only"

[profile.dev]
debug = "line-tables-only"
"""


def env_for_cargo(extra_rustflags=""):
    env = dict(os.environ)
    env["CARGO_NET_OFFLINE"] = "true"
    env["RUSTFLAGS"] = ("--cfg %s %s" % (GUARD_CFG, extra_rustflags)).strip()
    env.pop("RUST_BACKTRACE", None)
    return env


class BuildError(Exception):
    pass


def _run(cmd, env, cwd=None, log=None):
    t0 = time.time()
    p = subprocess.run(cmd, env=env, cwd=cwd, stdout=subprocess.PIPE, stderr=subprocess.STDOUT)
    if p.returncode != 0:
        sys.stderr.write(p.stdout.decode(errors="replace")[-6000:])
        raise BuildError("build failed: %s" % " ".join(cmd))
    return time.time() - t0


def _gen_vh():
    g = os.path.join(tdir(), "gen", "vh")
    os.makedirs(g, exist_ok=True)
    _write_if_changed(os.path.join(g, "Cargo.toml"), VH_MANIFEST.format(verif=VERIF, repo=repo()))
    lock = os.path.join(g, "Cargo.lock")
    if not os.path.exists(lock):
        shutil.copy(os.path.join(repo(), "Cargo.lock"), lock)
    return g


def _gen_vc():
    g = os.path.join(tdir(), "gen", "vc")
    os.makedirs(os.path.join(g, "src"), exist_ok=True)
    _write_if_changed(os.path.join(g, "Cargo.toml"), VC_MANIFEST.format(verif=VERIF, repo=repo()))
    src = os.path.join(VERIF, "codec-harness", "src")
    for name in os.listdir(src):
        if name.endswith(".rs"):
            _copy_if_changed(os.path.join(src, name), os.path.join(g, "src", name))
    _copy_if_changed(os.path.join(repo(), "slicec", "src", "definition_types.rs"),
                     os.path.join(g, "src", "definition_types.rs"))
    lock = os.path.join(g, "Cargo.lock")
    if not os.path.exists(lock):
        shutil.copy(os.path.join(repo(), "Cargo.lock"), lock)
    return g


def build(profile="release", what=("slicec", "vh"), quiet=True):
    """Builds the requested artifacts and returns {name: path}. Raises BuildError."""
    os.makedirs(tdir(), exist_ok=True)
    prof_flag = ["--release"] if profile == "release" else []
    prof_dir = "release" if profile == "release" else "debug"
    out = {}
    with open(os.path.join(tdir(), ".build.lock"), "w") as lk:
        fcntl.flock(lk, fcntl.LOCK_EX)
        env = env_for_cargo()
        td = cargo_dir()
        if "slicec" in what:
            _run(["cargo", "build", "--offline", "--manifest-path", os.path.join(repo(), "Cargo.toml"),
                  "-p", "slicec", "--bin", "slicec", "--target-dir", td] + prof_flag, env)
            out["slicec"] = os.path.join(td, prof_dir, "slicec")
        if "vh" in what:
            g = _gen_vh()
            _run(["cargo", "build", "--offline", "--manifest-path", os.path.join(g, "Cargo.toml"),
                  "--target-dir", td] + prof_flag, env)
            out["vh"] = os.path.join(td, prof_dir, "vh")
            out["fakegen"] = os.path.join(td, prof_dir, "fakegen")
        if "vc" in what:
            g = _gen_vc()
            _run(["cargo", "build", "--offline", "--manifest-path", os.path.join(g, "Cargo.toml"),
                  "--target-dir", td] + prof_flag, env)
            out["vc"] = os.path.join(td, prof_dir, "vc")
    return out


def build_vc_asan():
    """AddressSanitizer build of vc (nightly). Returns path or raises BuildError."""
    g = _gen_vc()
    td = os.path.join(tdir(), "cargo-asan")
    env = env_for_cargo(ASAN_RUSTFLAGS)
    with open(os.path.join(tdir(), ".build.lock"), "w") as lk:
        fcntl.flock(lk, fcntl.LOCK_EX)
        _run(["cargo", "+nightly", "build", "--offline", "--release", "--target", "x86_64-unknown-linux-gnu",
              "--manifest-path", os.path.join(g, "Cargo.toml"), "--target-dir", td], env)
    return os.path.join(td, "x86_64-unknown-linux-gnu", "release", "vc")


def build_asan(what=("slicec", "vh")):
    """AddressSanitizer builds (nightly) of the real compiler binary and of the library worker / fake generator, from the
    working tree. Returns {name: path} like build()."""
    td = os.path.join(tdir(), "cargo-asan")
    env = env_for_cargo(ASAN_RUSTFLAGS)
    base = ["cargo", "+nightly", "build", "--offline", "--release", "--target", "x86_64-unknown-linux-gnu", "--target-dir", td]
    out = {}
    rel = os.path.join(td, "x86_64-unknown-linux-gnu", "release")
    with open(os.path.join(tdir(), ".build.lock"), "w") as lk:
        fcntl.flock(lk, fcntl.LOCK_EX)
        if "slicec" in what:
            _run(base + ["--manifest-path", os.path.join(repo(), "Cargo.toml"), "-p", "slicec", "--bin", "slicec"], env)
            out["slicec"] = os.path.join(rel, "slicec")
        if "vh" in what:
            g = _gen_vh()
            _run(base + ["--manifest-path", os.path.join(g, "Cargo.toml")], env)
            out["vh"] = os.path.join(rel, "vh")
            out["fakegen"] = os.path.join(rel, "fakegen")
    return out


# address + overflow checks + debug assertions in one instrumented build (the in-code monitors of the dev profile, at release speed)
ASAN_RUSTFLAGS = "-Zsanitizer=address -Cforce-frame-pointers=yes -Coverflow-checks=on -Cdebug-assertions=on"
ASAN_OPTIONS = "halt_on_error=1:abort_on_error=1:allocator_may_return_null=1:detect_leaks=0:detect_stack_use_after_return=0"


def miri_cmd():
    """Command prefix + env to run vc under Miri: returns (argv_prefix, env, cwd)."""
    g = _gen_vc()
    td = os.path.join(tdir(), "cargo-miri")
    env = env_for_cargo()
    env["MIRIFLAGS"] = "-Zmiri-disable-isolation"
    return (["cargo", "+nightly", "miri", "run", "--offline", "--manifest-path", os.path.join(g, "Cargo.toml"),
             "--target-dir", td, "--"], env, g)


if __name__ == "__main__":
    what = tuple(sys.argv[1:]) or ("slicec", "vh", "vc")
    t0 = time.time()
    print(build("release", what))
    print("built in %.1fs" % (time.time() - t0))


FUZZ_MANIFEST = """[package]
name = "vfuzz"
version = "0.0.0"
edition = "2021"
publish = false

[package.metadata]
cargo-fuzz = true

[dependencies]
libfuzzer-sys = "0.4"
slicec = {{ path = "{repo}/slicec" }}
slice-codec = {{ path = "{repo}/slice-codec" }}
libc = "0.2"

[[bin]]
name = "compile"
path = "compile.rs"
test = false
doc = false
bench = false

[[bin]]
name = "decode"
path = "decode.rs"
test = false
doc = false
bench = false

[workspace]
"""


def build_fuzz(target="compile"):
    """libFuzzer + AddressSanitizer build of a fuzz target (cargo-fuzz, nightly): `compile` (the library pipeline, C01) or `decode`
    (the codec's decoders against the reference decoder, C11). Returns the path of the fuzzer binary."""
    outer = os.path.join(tdir(), "gen", "fuzzproj")
    g = os.path.join(outer, "fuzz")
    os.makedirs(os.path.join(outer, "src"), exist_ok=True)
    os.makedirs(g, exist_ok=True)
    _write_if_changed(os.path.join(outer, "Cargo.toml"), '[package]\nname = "fuzzproj"\nversion = "0.0.0"\nedition = "2021"\n[workspace]\nmembers = ["."]\nexclude = ["fuzz"]\n')
    _write_if_changed(os.path.join(outer, "src", "lib.rs"), "")
    _write_if_changed(os.path.join(g, "Cargo.toml"), FUZZ_MANIFEST.format(verif=VERIF, repo=repo()))
    vcsrc = os.path.join(_gen_vc(), "src")
    with open(os.path.join(VERIF, "fuzz-harness", "compile.rs.in")) as f:
        _write_if_changed(os.path.join(g, "compile.rs"), f.read().replace("@REPO@", repo()))
    with open(os.path.join(VERIF, "fuzz-harness", "decode.rs.in")) as f:
        _write_if_changed(os.path.join(g, "decode.rs"), f.read().replace("@VCSRC@", vcsrc))
    lock = os.path.join(g, "Cargo.lock")
    if not os.path.exists(lock):
        shutil.copy(os.path.join(repo(), "Cargo.lock"), lock)
    td = os.path.join(tdir(), "cargo-fuzz")
    env = env_for_cargo()
    env["CARGO_TARGET_DIR"] = td
    with open(os.path.join(tdir(), ".build.lock"), "w") as lk:
        fcntl.flock(lk, fcntl.LOCK_EX)
        _run(["cargo", "+nightly", "fuzz", "build", target], env, cwd=outer)
    return os.path.join(td, "x86_64-unknown-linux-gnu", "release", target)
