"""C01 - every input yields a verdict: no crash, abort or hang.

Monitors: (1) library worker under catch_unwind with a recording panic hook, worker death attributed to the case in
flight, thread CPU time per case; (2) the real binary observed at the process boundary (exit status, signal, stderr,
rusage CPU time and peak RSS). Every in-process crash/slow candidate, every error-free input (the binary alone runs the
AST-to-schema converter and the encoder) and a fixed fraction of the rest are re-executed through the binary.
"""
import itertools
import os
import re

from .. import build, core
from . import c01_families as fam

PROP = "C01"
MAX_INPUT = 8192


def plan(tier, seed):
    specs = []
    soup_len = 2 if tier == "quick" else 3
    nsh = 16 if tier == "quick" else 64
    for i in range(nsh):
        specs.append(("soup-exhaustive", soup_len, i, nsh))
    n = 3000 if tier == "quick" else 50000
    for i in range(16):
        specs.append(("soup-random", n // 16, i))
    n = 1500 if tier == "quick" else 30000
    for i in range(16):
        specs.append(("mutation", n // 16, i))
    specs.append(("typeforms", 0, 2))
    specs.append(("typeforms", 1, 2))
    specs.append(("cycles-chains",))
    specs.append(("deep-nesting",))
    for name in fam.SCALING:
        specs.append(("scaling", name))
    for i in range(4):
        specs.append(("doc-product", i, 4))
    specs.append(("doc-indentation", 0, 2))
    specs.append(("doc-indentation", 1, 2))
    for i in range(4):
        specs.append(("eol-defects", i, 4))
    for i in range(4):
        specs.append(("truncations", i, 4))
    specs += [("keyword-names", i, 2) for i in range(2)]
    specs += [("quoted-text", i, 8) for i in range(8)]
    specs.append(("cross-file-notes",))
    specs.append(("large-inputs",))
    n = 8000 if tier == "quick" else 100000
    for i in range(16):
        specs.append(("alias-graphs", n // 16, i))
    specs.append(("variants", 0))
    for i in range(4):
        specs.append(("cmdline", i, 4))
    n = 200 if tier == "quick" else 3000
    for i in range(8):
        specs.append(("multifile", n // 8, i))
    return specs


def asan_plan(tier):
    """The part of the workload repeated under AddressSanitizer (no scaling / nesting families: time and stack depth of an
    instrumented build say nothing about the real one)."""
    k = 1 if tier == "quick" else 10
    specs = []
    for i in range(16):
        specs.append(("soup-random", 60 * k, 100 + i))
        specs.append(("mutation", 60 * k, 100 + i))
    specs += [("typeforms", i, 8 if tier == "quick" else 2) for i in range(2)]
    specs.append(("cycles-chains",))
    specs += [("doc-product", i, 64 if tier == "quick" else 8) for i in range(8)]
    specs.append(("variants", 0))
    specs += [("eol-defects", i, 8) for i in range(2)]
    specs += [("truncations", i, 4) for i in range(4)]
    specs += [("keyword-names", i, 2) for i in range(2)]
    specs += [("multifile", 40 * k, 100 + i) for i in range(8)]
    specs += [("quoted-text", i, 8) for i in range(8)]
    specs.append(("cross-file-notes",))
    specs += [("valid-programs", 25 * k, i) for i in range(16)]
    return specs


class Screen:
    """Runs cases in-process, then re-executes the interesting ones through the binary."""

    def __init__(self, ctx, family):
        self.ctx = ctx
        self.family = family
        self.dir = os.path.join(ctx.tmpdir(), re.sub(r"\W+", "_", family) + "-%d" % os.getpid())
        os.makedirs(self.dir, exist_ok=True)
        self.n = 0
        self.bin_budget_clean = 400 if ctx.tier == "quick" else 4000
        # sanitizer pass: only memory-error reports and crashes are verdicts (the instrumented build is slower and larger,
        # so CPU / RSS observations mean nothing), and the worker also dumps and walks the whole AST so that every
        # OwnedPtr / WeakPtr reachable from the result is dereferenced under the sanitizer
        self.asan = ctx.profile == "asan"
        self.want = ["codes", "ast", "visit"] if self.asan else ["codes"]

    def run(self, cases, sample_rate=0.02):
        """cases: list of {"files": [text...], "defines": [...], "malformed": bool|None, "key": ...}"""
        ctx = self.ctx
        # diagnostics are rendered for every case (human format with snippets / JSON alternately): emitting is part of
        # "ends by returning diagnostics", and only the binary would otherwise run that code
        reqs = [{"op": "compile", "files": c["files"], "defines": c.get("defines", []), "want": self.want,
                 "emit": "human" if i % 3 else "json"} for i, c in enumerate(cases)]
        resps = ctx.worker.batch(reqs)
        rng = ctx.rng("screen/" + self.family)
        for c, r in zip(cases, resps):
            size = sum(len(t.encode("utf-8", "surrogatepass")) for t in c["files"])
            ctx.note_case((self.family, c.get("key", tuple(c["files"])), tuple(c.get("defines", []))),
                          nontrivial=size > 0)
            ctx.stats["inproc_cases"] += 1
            crashed = "died" in r or bool(r.get("panic"))
            slow = (not crashed) and r.get("cpu_us", 0) > 2_000_000 and not self.asan
            clean = (not crashed) and not r.get("has_errors", True)
            if clean:
                ctx.stats["inproc_error_free"] += 1
            else:
                ctx.stats["inproc_with_errors_or_crash"] += 1
            if crashed:
                ctx.stats["inproc_crash_candidates"] += 1
            if slow:
                ctx.stats["inproc_slow_candidates"] += 1
            if size <= MAX_INPUT and not crashed:
                cpu = r.get("cpu_us", 0) / 1e6
                if cpu > ctx.extra.get("max_cpu_s", {}).get("v", 0):
                    ctx.extra["max_cpu_s"] = {"v": round(cpu, 3), "family": self.family}
            # malformed input must be reported through an error diagnostic
            if not crashed and c.get("malformed") and not r.get("has_errors"):
                ctx.violate("malformed-accepted:" + self.family,
                            "input known to be malformed (%s) compiled without any error" % c["malformed"],
                            {"kind": "library", "call": "compile_from_strings", "files": c["files"], "family": self.family})
            to_binary = crashed or slow
            if clean and self.bin_budget_clean > 0:
                self.bin_budget_clean -= 1
                to_binary = True
            if not to_binary and rng.random() < sample_rate:
                to_binary = True
            if to_binary:
                self.binary(c, r, crashed, slow, size)

    def binary(self, c, r, crashed, slow, size):
        ctx = self.ctx
        self.n += 1
        d = os.path.join(self.dir, "c%d" % self.n)
        os.makedirs(d)
        names = []
        for i, t in enumerate(c["files"]):
            name = "f%d.slice" % i
            with open(os.path.join(d, name), "wb") as f:
                f.write(t.encode("utf-8", "surrogatepass"))
            names.append(name)
        argv = names + [x for s in c.get("defines", []) for x in ("-D", s)]
        res = ctx.run_slicec(argv, cwd=d)
        ctx.stats["binary_runs"] += 1
        replay = {"kind": "binary", "argv": argv, "files": dict(zip(names, c["files"])), "family": self.family,
                  "observed": res.brief(), "inproc": {k: r.get(k) for k in ("panic", "died", "cpu_us", "has_errors")},
                  "profile": ctx.profile,
                  "how_to": "write the files, then: slicec " + " ".join(argv)}
        if res.timed_out:
            if res.cpu_s > core.CPU_BOUND_S and size <= MAX_INPUT and not self.asan:
                ctx.violate("cpu-bound:" + c.get("sig", self.family), "input of %d bytes used %.1f s CPU (bound %.0f s) and was "
                            "still running" % (size, res.cpu_s, core.CPU_BOUND_S), replay)
            else:
                ctx.inconclusive.append({"family": self.family, "why": "watchdog", "cpu_s": res.cpu_s})
            return
        crash = res.crashed()
        if crash:
            p = core.stderr_panic(res.stderr) or {"message": crash, "location": "?"}
            sig = core.panic_signature(p) if p["location"] != "?" else "crash:" + (c.get("sig") or crash)
            ctx.stats["binary_crashes"] += 1
            ctx.violate(sig, "slicec %s on %d bytes of input (%s): %s" % (crash, size, self.family, p["message"][:160]), replay)
            return
        if size <= MAX_INPUT and res.cpu_s > core.CPU_BOUND_S and not self.asan:
            ctx.violate("cpu-bound:" + c.get("sig", self.family), "input of %d bytes took %.1f s CPU (bound %.0f s)"
                        % (size, res.cpu_s, core.CPU_BOUND_S), replay)
            return
        if res.maxrss_kb > core.RSS_BOUND_KB and size <= MAX_INPUT and not self.asan:
            ctx.violate("rss-bound:" + c.get("sig", self.family), "input of %d bytes needed %d MiB" % (size, res.maxrss_kb // 1024), replay)
            return
        if crashed:
            # the library crashed but the binary did not reproduce it: still a violation of "compilation never panics"
            p = r.get("panic") or core.stderr_panic(r.get("stderr_tail", "").encode()) or {"message": "worker " + r["died"], "location": "?"}
            replay["kind"] = "library"
            if r.get("stderr_tail"):
                replay["worker_stderr_tail"] = r["stderr_tail"][-4000:]
            ctx.violate(core.panic_signature(p) if p["location"] != "?" else "crash:library:" + self.family,
                        "compile_from_strings crashed (not reproduced through the binary): %s" % p, replay)
            return
        # exit status must agree with the presence of errors
        has_err = (b"error [" in res.stderr)
        if (res.status == 0) == has_err:
            ctx.violate("status-vs-errors:" + self.family, "exit status %r with error output %r" % (res.status, has_err), replay)
        if c.get("malformed") and res.status == 0:
            ctx.violate("malformed-accepted-binary:" + self.family, "malformed input (%s) exits 0" % c["malformed"], replay)
        if not os.environ.get("VERIF_KEEP_SCRATCH"):
            for nme in names:
                os.unlink(os.path.join(d, nme))
            os.rmdir(d)


def run_shard(ctx, spec):
    kind = spec[0]
    scr = Screen(ctx, kind)
    if kind == "soup-exhaustive":
        _, maxlen, idx, n = spec
        batch = []
        count = 0
        for length in range(0, maxlen + 1):
            for toks in itertools.product(range(len(fam.TOKENS)), repeat=length):
                count += 1
                if count % n != idx:
                    continue
                text = fam.join_soup([fam.TOKENS[t] for t in toks])
                for prefix in ("", "module M\n"):
                    batch.append({"files": [prefix + text], "malformed": fam.soup_malformed(prefix + text), "key": (prefix, toks)})
                if len(batch) >= 1000:
                    scr.run(batch, sample_rate=0.004)
                    batch = []
        scr.run(batch, sample_rate=0.004)
        ctx.sample({"family": "token soup (exhaustive)", "alphabet_size": len(fam.TOKENS), "example": fam.join_soup(["interface", ":", "bool"])}, limit=1)
    elif kind == "soup-random":
        _, count, idx = spec
        rng = ctx.rng("soup/%d" % idx)
        batch = []
        for _ in range(count):
            toks = [rng.choice(fam.TOKENS) for _ in range(rng.randint(4, 60))]
            text = fam.join_soup(toks, rng)
            if rng.random() < 0.15:
                text = text.replace("\n", "\r\n")
            prefix = rng.choice(["", "module M\n", "module A::B\n"])
            batch.append({"files": [prefix + text], "malformed": fam.soup_malformed(prefix + text)})
        scr.run(batch)
    elif kind == "mutation":
        _, count, idx = spec
        rng = ctx.rng("mut/%d" % idx)
        batch = []
        for _ in range(count):
            base = rng.choice(fam.VALID_PROGRAMS)
            text = fam.mutate(base, rng)
            r = rng.random()
            if r < 0.15:
                text = text.replace("\n", "\r\n")
            elif r < 0.2:
                text = text.replace("\n", "\r")
            elif r < 0.25:
                text = text.replace("    ", "\t")
            batch.append({"files": [text]})
            if rng.random() < 0.1:
                batch.append({"files": [base]})
        scr.run(batch)
        ctx.sample({"family": "mutation", "example": batch[0]["files"][0][:300]}, limit=1)
    elif kind == "typeforms":
        _, idx, n = spec
        batch = [{"files": [t], "key": k} for i, (k, t) in enumerate(fam.typeform_programs()) if i % n == idx]
        scr.run(batch, sample_rate=0.2)
        ctx.stats["typeform_position_pairs"] += len(batch)
        ctx.sample({"family": "every type form in every type position", "example": batch[7]["files"][0]}, limit=1)
    elif kind == "cycles-chains":
        batch = [{"files": [t], "key": k} for k, t in fam.cycle_and_chain_programs()]
        scr.run(batch, sample_rate=1.0)
    elif kind == "deep-nesting":
        batch = [{"files": [t], "key": k} for k, t in fam.deep_nesting_programs(MAX_INPUT)]
        scr.run(batch, sample_rate=1.0)
    elif kind == "scaling":
        name = spec[1]
        curve = []
        gen = fam.SCALING[name]
        n = 4
        while True:
            text = gen(n)
            if len(text.encode()) > MAX_INPUT:
                break
            c = {"files": [text], "key": (name, n), "sig": name}
            # scaling instances always go through the binary (authoritative rusage CPU time)
            res = scr.binary_case_with_curve(c, curve, n)
            if res.cpu_s > core.CPU_BOUND_S or res.timed_out:
                break  # one witness per family is enough; larger instances would only burn time
            if name.startswith("deep-"):
                n = int(n * 1.6) + 1      # cost grows like n^4: geometric steps keep the whole curve near the cost of its last point
            else:
                n += (2 if name.startswith("doubling") else 4) if n < 40 else 16
        ctx.extra.setdefault("scaling_curves", {})[name] = curve
    elif kind == "doc-product":
        _, idx, n = spec
        batch = [{"files": [t], "key": k} for i, (k, t) in enumerate(fam.doc_product_programs()) if i % n == idx]
        scr.run(batch, sample_rate=0.02)
        ctx.stats["doc_product_cases"] += len(batch)
    elif kind == "eol-defects":
        _, idx, n = spec
        batch = [{"files": [t], "key": k} for i, (k, t) in enumerate(fam.eol_defect_programs()) if i % n == idx]
        scr.run(batch, sample_rate=0.1)
        ctx.stats["eol_defect_cases"] += len(batch)
        if idx == 0:
            ctx.sample({"family": "defect at the end of a line x line ending x context", "example": batch[len(batch) // 2]["files"][0]}, limit=1)
    elif kind == "quoted-text":
        _, idx, n = spec
        batch = [{"files": [t], "key": k} for i, (k, t) in enumerate(fam.quoted_text_programs()) if i % n == idx]
        if ctx.profile == "asan":
            batch = batch[::8]
        for k0 in range(0, len(batch), 500):
            scr.run(batch[k0:k0 + 500], sample_rate=0.01)
        ctx.stats["quoted_text_cases"] += len(batch)
    elif kind == "cross-file-notes":
        batch = [{"files": t, "key": k} for k, t in fam.cross_file_note_programs()]
        for shift in range(3):   # the screen alternates the output format by position: every case is rendered in both
            scr.run(batch[shift:], sample_rate=0.1)
        ctx.stats["cross_file_note_cases"] += len(batch)
    elif kind == "alias-graphs":
        _, count, idx = spec
        rng = ctx.rng("aliasgraph/%d" % idx)
        batch = [{"files": fam.alias_graph_program(rng)} for _ in range(count)]
        # small batches: a stack overflow kills the worker and is attributed to its case; a hang costs one time-out
        for k0 in range(0, len(batch), 100):
            scr.run(batch[k0:k0 + 100], sample_rate=0.02)
        ctx.stats["alias_graph_cases"] += len(batch)
    elif kind == "large-inputs":
        # far beyond the 8 KiB of the time bound: only "never overflows the stack or aborts" is decided here
        tmp = os.path.join(ctx.tmpdir(), "large")
        os.makedirs(tmp, exist_ok=True)
        log = os.path.join(tmp, "log")
        os.makedirs(log, exist_ok=True)
        gen = os.path.join(tmp, "gen-ok-large")
        if not os.path.exists(gen):
            core.link_tool(ctx.paths["fakegen"], gen)
        from .. import wire as _wire
        with open(os.path.join(log, "gen-ok-large.reply"), "wb") as f:
            f.write(_wire.enc_reply([]))
        for name, (text, extra, needs_gen) in fam.large_input_witnesses():
            path = os.path.join(tmp, name + ".slice")
            with open(path, "w") as f:
                f.write(text)
            argv = [name + ".slice"] + extra + (["-G", gen] if needs_gen else ["--dry-run"])
            res = ctx.run_slicec(argv, cwd=tmp, env={"FAKEGEN_LOG": log}, timeout=120)
            os.unlink(path)
            ctx.stats["binary_runs"] += 1
            ctx.stats["large_input_runs"] += 1
            ctx.note_case(("large", name))
            replay = {"kind": "binary", "argv": argv, "family": "large-inputs", "witness": name, "input_bytes": len(text),
                      "how_to": "generate the input with vlib/checks/c01_families.py: large_input_witnesses()", "observed": res.brief()}
            if res.timed_out:
                ctx.inconclusive.append({"family": "large-inputs", "witness": name, "why": "watchdog"})
                continue
            crash = res.crashed()
            if crash:
                p = core.stderr_panic(res.stderr) or {"message": crash, "location": "?"}
                if p["location"] == "stack":
                    sig = "stack-overflow:" + name
                else:
                    sig = core.panic_signature(p) if p["location"] != "?" else "crash:large-inputs:" + name
                ctx.violate(sig, "slicec %s on the %d KB input %s: %s" % (crash, len(text) // 1024, name, p["message"][:120]), replay)
            elif name.startswith("control-") and res.status != 0:
                ctx.violate("large-control-rejected:" + name, "the control input %s was rejected: %s" % (name, res.stderr[:200]), replay)
    elif kind == "keyword-names":
        _, idx, n = spec
        batch = [{"files": t, "key": k} for i, (k, t) in enumerate(fam.keyword_name_programs()) if i % n == idx]
        scr.run(batch, sample_rate=0.1)
        ctx.stats["keyword_name_cases"] += len(batch)
    elif kind == "truncations":
        _, idx, n = spec
        batch = [{"files": [t], "key": k} for i, (k, t) in enumerate(fam.truncation_programs()) if i % n == idx]
        scr.run(batch, sample_rate=0.05)
        ctx.stats["truncation_cases"] += len(batch)
        if idx == 0:
            ctx.sample({"family": "lint-rich program cut at every token boundary (+ stray token)", "example": batch[len(batch) // 3]["files"][0][-300:]}, limit=1)
    elif kind == "doc-indentation":
        _, idx, n = spec
        batch = [{"files": [t], "key": k} for i, (k, t) in enumerate(fam.doc_indentation_programs()) if i % n == idx]
        scr.run(batch, sample_rate=0.05)
        ctx.stats["doc_indentation_cases"] += len(batch)
    elif kind == "variants":
        rng = ctx.rng("variants")
        batch = []
        for base in fam.VALID_PROGRAMS + [t for _, t in list(fam.typeform_programs())[::37]]:
            for name, f in fam.TEXT_VARIANTS:
                batch.append({"files": [f(base)], "key": (name, base)})
        scr.run(batch, sample_rate=0.3)
    elif kind == "cmdline":
        _, idx, n = spec
        cmdline_family(ctx, idx, n)
    elif kind == "fuzz-artifacts":
        # inputs on which the coverage-guided fuzzer stopped (crash / timeout / out of memory under the instrumented build):
        # re-judged here through the uninstrumented worker and the real binary, whose observations alone are verdicts
        _, adir = spec
        cases = []
        for name in sorted(os.listdir(adir)):
            with open(os.path.join(adir, name), "rb") as f:
                data = f.read()
            try:
                text = data.decode("utf-8")
            except UnicodeDecodeError:
                continue
            defines = []
            while text.startswith("\x01"):
                line, _, text = text[1:].partition("\n")
                defines.append(line)
            cases.append({"files": text.split("\x0c")[:3], "defines": defines, "key": name, "artifact": name})
        ctx.stats["fuzz_artifacts_rejudged"] += len(cases)
        before = len(ctx.violations)
        # a slow artifact is not given a verdict here: the CPU bound is decided by the scaling families, whose instances are
        # identified by family (a fuzzer-found variant of a known finding could not be told from a new one)
        scr.asan = True
        scr.want = ["codes", "ast", "visit"]
        scr.run(cases, sample_rate=1.0)
        for c_ in cases:
            ctx.sample({"family": "fuzz artifact", "artifact": c_["artifact"], "files": [t[:200] for t in c_["files"]]}, limit=3)
        if len(ctx.violations) == before and cases:
            ctx.extra["fuzz_artifacts_not_reproduced"] = [c_["artifact"] for c_ in cases][:10]
    elif kind == "valid-programs":
        # model-generated valid multi-file programs: the only family in which patching, validation, conversion and
        # encoding all run to the end on rich ASTs
        from ..slicegen import gen as sgen, printer as sprinter
        import random as _random
        _, count, idx = spec
        rng = ctx.rng("valid/%d" % idx)
        batch = []
        for _ in range(count):
            prog = sgen.valid_program(_random.Random(rng.random()), max_files=3, type_depth=3)
            sgen.add_comments(prog, _random.Random(rng.random()), density=0.5)
            texts = sprinter.print_program(prog, [sprinter.Layout(_random.Random(rng.random()), "random") for _ in prog.files])
            batch.append({"files": texts})
        scr.bin_budget_clean = len(batch)
        scr.run(batch, sample_rate=1.0)
        ctx.stats["valid_model_programs"] += len(batch)
    elif kind == "multifile":
        _, count, idx = spec
        rng = ctx.rng("multi/%d" % idx)
        batch = []
        pools = fam.VALID_PROGRAMS + [t for _, t in list(fam.typeform_programs())[::23]] + ["", "// only a comment\n", "module Q\n"]
        for _ in range(count):
            k = rng.randint(2, 4)
            files = []
            for _f in range(k):
                t = rng.choice(pools)
                if rng.random() < 0.3:
                    t = fam.mutate(t, rng) if t else t
                files.append(t)
            batch.append({"files": files})
        scr.run(batch, sample_rate=0.1)


def _binary_case_with_curve(self, c, curve, n):
    ctx = self.ctx
    self.n += 1
    d = os.path.join(self.dir, "s%d" % self.n)
    os.makedirs(d)
    with open(os.path.join(d, "f.slice"), "w") as f:
        f.write(c["files"][0])
    res = ctx.run_slicec(["f.slice"], cwd=d, timeout=26)
    ctx.stats["binary_runs"] += 1
    ctx.stats["scaling_instances"] += 1
    size = len(c["files"][0].encode())
    ctx.note_case(("scaling", c["key"]))
    curve.append({"n": n, "bytes": size, "cpu_s": round(res.cpu_s, 3), "status": res.status, "timed_out": res.timed_out})
    replay = {"kind": "binary", "argv": ["f.slice"], "files": {"f.slice": c["files"][0]}, "family": "scaling/" + c["sig"],
              "observed": res.brief()}
    if res.cpu_s > core.CPU_BOUND_S or (res.timed_out and res.cpu_s > core.CPU_BOUND_S * 0.9):
        ctx.violate("cpu-bound:" + c["sig"], "%s with n=%d (%d bytes) used %.1f s CPU (bound %.0f s)"
                    % (c["sig"], n, size, res.cpu_s, core.CPU_BOUND_S), replay)
    elif res.timed_out:
        ctx.inconclusive.append({"family": c["sig"], "n": n, "why": "watchdog"})
    else:
        crash = res.crashed()
        if crash:
            p = core.stderr_panic(res.stderr) or {"message": crash, "location": "?"}
            ctx.violate(core.panic_signature(p) if p["location"] != "?" else "crash:" + c["sig"],
                        "%s with n=%d: %s" % (c["sig"], n, crash), replay)
    os.unlink(os.path.join(d, "f.slice"))
    os.rmdir(d)
    return res


Screen.binary_case_with_curve = _binary_case_with_curve


def cmdline_family(ctx, idx, n):
    """All combinations of option values (incl. empty strings) on a few base programs, through the real binary."""
    tmp = os.path.join(ctx.tmpdir(), "cmd%d" % idx)
    os.makedirs(tmp, exist_ok=True)
    bases = {"ok.slice": fam.VALID_PROGRAMS[0], "warn.slice": fam.WARNING_PROGRAM, "bad.slice": "module M\nstruct {\n",
             "empty.slice": "", "comment.slice": "// nothing\n", "nomodule.slice": "struct S {}\n", "modonly.slice": "module M\n"}
    for k, v in bases.items():
        with open(os.path.join(tmp, k), "w") as f:
            f.write(v)
    os.makedirs(os.path.join(tmp, "refdir"), exist_ok=True)
    with open(os.path.join(tmp, "refdir", "r.slice"), "w") as f:
        f.write("module R\nstruct RS {}\n")
    os.makedirs(os.path.join(tmp, "out"), exist_ok=True)
    log = os.path.join(tmp, "log")
    os.makedirs(log, exist_ok=True)
    gen = os.path.join(tmp, "gen-ok-x")
    if not os.path.exists(gen):
        core.link_tool(ctx.paths["fakegen"], gen)
    D = [[], ["-D", ""], ["-D", "A"], ["-D", "1x"], ["-D", "A", "-D", "A"]]
    A = [[], ["-A", "All"], ["-A", "Deprecated"], ["-A", "deprecated"], ["-A", ""], ["-A", "Nope"], ["--allow", "BrokenDocLink", "-A", "ALL"]]
    G = [[], ["-G", ""], ["-G", " "], ["-G", ","], ["-G", "=,"], ["-G", "/nonexistent/gen"], ["-G", gen], ["-G", gen + ",a=b,c"],
         ["-G", gen, "-G", "/nonexistent/gen"]]
    DR = [[], ["--dry-run"]]
    F = [[], ["--diagnostic-format", "json"], ["--diagnostic-format", "JSON"], ["--diagnostic-format", ""], ["--diagnostic-format", "xml"],
         ["--disable-color"]]
    O = [[], ["-O", "out"], ["-O", "missing-dir"], ["-O", ""]]
    R = [[], ["-R", "refdir"], ["-R", "refdir/r.slice"], ["-R", "missing"], ["-R", ""], ["-R", "ok.slice"],
         # files that hold no module, as references (they are compiled, and skipped when the request is built)
         ["-R", "empty.slice"], ["-R", "comment.slice"], ["-R", "modonly.slice"], ["-R", "empty.slice", "-R", "refdir"],
         ["-R", "refdir", "-R", "comment.slice"]]
    S = [[], ["ok.slice"], ["warn.slice"], ["bad.slice"], ["empty.slice"], ["comment.slice"], ["nomodule.slice"], ["modonly.slice"],
         ["ok.slice", "ok.slice"], ["missing.slice"], ["refdir"], [""], ["ok.slice", "empty.slice"]]
    rng = ctx.rng("cmd/%d" % idx)
    combos = []
    # pairwise-complete: every value of every option with every source list, plus random full combinations
    dims = [D, A, G, DR, F, O, R]
    for s in S:
        for di, dim in enumerate(dims):
            for v in dim:
                combos.append(v + s)
    # with a generator (the only way the request is built), every reference list with every source list
    for r_ in R:
        for s in S:
            combos.append(["-G", gen] + r_ + s)
    for _ in range(600 if ctx.tier == "quick" else 6000):
        combos.append(sum((rng.choice(dim) for dim in dims), []) + rng.choice(S))
    for ci, argv in enumerate(combos):
        if ci % n != idx:
            continue
        res = ctx.run_slicec(argv, cwd=tmp, env={"FAKEGEN_LOG": log})
        ctx.stats["binary_runs"] += 1
        ctx.stats["cmdline_runs"] += 1
        ctx.note_case(("cmd", tuple(argv)))
        replay = {"kind": "binary", "argv": argv, "cwd_files": {k: v for k, v in bases.items()}, "family": "cmdline", "observed": res.brief()}
        if res.timed_out:
            ctx.inconclusive.append({"family": "cmdline", "argv": argv})
            continue
        crash = res.crashed()
        if crash:
            p = core.stderr_panic(res.stderr) or {"message": crash, "location": "?"}
            ctx.stats["binary_crashes"] += 1
            ctx.violate(core.panic_signature(p) if p["location"] != "?" else "crash:cmdline", "slicec %s: %s (%s)"
                        % (" ".join(repr(a) for a in argv), crash, p["message"][:120]), replay)
    ctx.sample({"family": "cmdline", "example": combos[min(len(combos) - 1, 57)]}, limit=1)


FUZZ_SECONDS = int(os.environ.get("VERIF_FUZZ_SECONDS", "240"))


def fuzz_phase(seed, paths):
    """Coverage-guided exploration (libFuzzer + AddressSanitizer, 16 processes) of the library pipeline - compile, walk, emit -
    seeded with members of the other families. The fuzzer only proposes inputs; verdicts come from re-running what it stopped
    on through the uninstrumented worker and the real binary."""
    import random
    import shutil
    import subprocess
    import tempfile
    run = core.Run(PROP, "thorough", seed)
    try:
        fz = build.build_fuzz()
    except build.BuildError as e:
        run.errors.append("fuzz target does not build: %s" % e)
        return run
    work = tempfile.mkdtemp(prefix="verif-C01-fuzz-", dir=core.scratch_root())
    corpus, art = os.path.join(work, "corpus"), os.path.join(work, "art")
    os.makedirs(corpus)
    os.makedirs(art)
    rng = random.Random("fuzz/%d" % seed)
    seeds = list(fam.VALID_PROGRAMS) + [fam.WARNING_PROGRAM]
    seeds += [t for _, t in rng.sample(list(fam.typeform_programs()), 150)]
    seeds += [t for _, t in rng.sample(list(fam.eol_defect_programs()), 150)]
    seeds += [t for _, t in rng.sample(list(fam.doc_product_programs()), 150)]
    seeds += [t for _, t in fam.cycle_and_chain_programs()][:40]
    from ..slicegen import gen as sgen, printer as sprinter
    for _ in range(60):
        prog = sgen.valid_program(random.Random(rng.random()), max_files=3, type_depth=2)
        sgen.add_comments(prog, random.Random(rng.random()), density=0.4)
        seeds.append("\x0c".join(sprinter.print_program(prog)))
    seeds += ["\x01A\nmodule M\n#if A\nstruct S {}\n#endif\n", "module M\n\x0cmodule N\nstruct T { s: M::S }\n"]
    for i, t in enumerate(seeds):
        if len(t.encode("utf-8", "ignore")) <= 8192:
            with open(os.path.join(corpus, "seed%04d" % i), "wb") as f:
                f.write(t.encode("utf-8", "ignore"))
    with open(os.path.join(work, "dict"), "w") as f:
        for tok in fam.TOKENS + ["\x0c", "\x01A\n", "@param", "@returns", "@see", "{@link ", "#elif", "#undef", "[[", "]]"]:
            if tok:
                # libFuzzer dictionary syntax: printable ASCII, everything else (and quote / backslash) as \xNN
                f.write('"%s"\n' % "".join(chr(b) if 0x20 <= b < 0x7f and b not in (0x22, 0x5c) else "\\x%02x" % b for b in tok.encode("utf-8")))
    env = dict(os.environ, ASAN_OPTIONS="detect_odr_violation=0:detect_leaks=0:allocator_may_return_null=1")
    cmd = [fz, corpus, "-dict=" + os.path.join(work, "dict"), "-timeout=10", "-rss_limit_mb=3000", "-max_len=8192", "-fork=%d" % core.NPROC,
           "-max_total_time=%d" % FUZZ_SECONDS, "-artifact_prefix=" + art + "/", "-ignore_crashes=1", "-ignore_timeouts=1", "-ignore_ooms=1",
           "-seed=%d" % (seed + 1)]
    try:
        p = subprocess.run(cmd, env=env, cwd=work, stdout=subprocess.PIPE, stderr=subprocess.STDOUT, timeout=FUZZ_SECONDS + 300)
        log = p.stdout.decode("utf-8", "replace")
    except subprocess.TimeoutExpired as e:
        log = (e.stdout or b"").decode("utf-8", "replace")
        run.inconclusive.append({"family": "fuzz", "why": "fuzzer did not stop in time"})
    stats = re.findall(r"^#(\d+): cov: (\d+) ft: (\d+) corp: (\d+)", log, flags=re.M)
    if stats:
        n, cov, ft, corp = map(int, stats[-1])
        run.stats["fuzz_executions"] = n
        run.stats["fuzz_coverage_edges"] = cov
        run.stats["fuzz_features"] = ft
        run.stats["fuzz_corpus_units"] = corp
        run.evaluations += n
    else:
        run.errors.append("no progress line in the fuzzer log: %s" % log[-600:])
    run.stats["fuzz_seed_inputs"] = len(os.listdir(corpus)) if not stats else len(seeds)
    arts = os.listdir(art)
    run.stats["fuzz_artifacts"] = len(arts)
    run.extra["fuzz"] = {"seconds": FUZZ_SECONDS, "processes": core.NPROC, "artifacts": sorted(arts)[:20],
                         "note": "fork mode is not reproducible run to run; artifacts are re-judged deterministically"}
    if arts:
        r2 = core.run_shards(__name__, PROP, "thorough", seed, paths, [("fuzz-artifacts", art)], jobs=1)
        run.stats.update(r2.stats)
        for v in r2.violations:
            v["what"] = "[found by the fuzzer] " + v["what"]
        run.violations.extend(r2.violations)
        run.errors.extend(r2.errors)
        run.samples.extend(r2.samples)
        run.extra.update({k: v for k, v in r2.extra.items() if k.startswith("fuzz")})
    shutil.rmtree(work, ignore_errors=True)
    return run


def main(tier, seed):
    paths = build.build("release", ("slicec", "vh"))
    run = core.run_shards(__name__, PROP, tier, seed, paths, plan(tier, seed))
    if tier == "thorough":
        # the dev profile turns debug_assert!/overflow checks into free in-code monitors: re-run a sample under it
        dev = build.build("dev", ("slicec", "vh"))
        specs = [s for s in plan("quick", seed) if s[0] not in ("scaling",)]
        run2 = core.run_shards(__name__, PROP, "quick", seed + 1000, dev, specs, profile="dev")
        run.stats.update({"dev." + k: v for k, v in run2.stats.items()})
        for v in run2.violations:
            v["what"] = "[dev profile] " + v["what"]
            v["replay"]["profile"] = "dev"
        run.violations.extend(run2.violations)
        run.evaluations += run2.evaluations
        run.nontrivial |= run2.nontrivial
        run.errors.extend(run2.errors)
    if tier == "thorough":
        run4 = fuzz_phase(seed, paths)
        run.stats.update(run4.stats)
        run.violations.extend(run4.violations)
        run.evaluations += run4.evaluations
        run.errors.extend(run4.errors)
        run.extra.update(run4.extra)
        for s in run4.samples:
            run.samples.append(s)
    # AddressSanitizer pass: the AST is a graph of OwnedPtr / WeakPtr (raw pointers dereferenced in unsafe code); a dangling one
    # is a crash that an uninstrumented run may not show. Both the worker (which walks every pointer of the result) and
    # the real binary (converter + encoder + generator pipe) run instrumented.
    asan = build.build_asan(("slicec", "vh"))
    os.environ["ASAN_OPTIONS"] = build.ASAN_OPTIONS
    errdir = os.path.join(core.scratch_root(), "asan-stderr")
    os.makedirs(errdir, exist_ok=True)
    os.environ["VERIF_WORKER_STDERR_DIR"] = errdir
    try:
        run3 = core.run_shards(__name__, PROP, "quick" if tier == "quick" else "thorough", seed + 2000, asan, asan_plan(tier), profile="asan")
    finally:
        os.environ.pop("ASAN_OPTIONS", None)
        os.environ.pop("VERIF_WORKER_STDERR_DIR", None)
    run.stats.update({"asan." + k: v for k, v in run3.stats.items()})
    for v in run3.violations:
        v["what"] = "[AddressSanitizer build] " + v["what"]
    run.violations.extend(run3.violations)
    run.evaluations += run3.evaluations
    run.nontrivial |= run3.nontrivial
    run.errors.extend(run3.errors)
    run.inconclusive.extend(run3.inconclusive)
    return core.finish(
        run, "exploration",
        rule=("cases = input file sets (and argv vectors). Families: token soups over the full token alphabet (%d tokens; exhaustive "
              "for length <= %d, each also after `module M`; random length 4-60), byte/char/token mutations of valid programs, every "
              "type form in every type position, cycles and long chains, nesting to the 8 KiB cap, scaling families (CPU-time curve "
              "per size, through the binary), doc comments with mixed-width Unicode indentation, CRLF/tab/BOM/NUL variants, command-"
              "line value combinations incl. empty strings, multi-file sets, programs whose every element carries a lint cut at every token "
              "boundary (bare and followed by a stray token), alias graphs with loops through anonymous types and by-name uses in every "
              "order, escaped identifiers spelled like every keyword in every naming position next to a file using the real keywords. A sample of the soup, mutation, type-form, cycle, doc-comment, "
              "variant and multi-file families plus model-generated valid programs is repeated under AddressSanitizer builds of the "
              "worker (which dereferences every pointer of the resulting AST) and of the binary (counters prefixed asan.). Thorough tier: "
              "a libFuzzer + AddressSanitizer build of the library pipeline explores from seeds of these families for a fixed time on "
              "all cores; whatever it stops on is re-judged through the uninstrumented worker and binary (counters prefixed fuzz_). "
              "distinct_nontrivial = distinct non-empty inputs"
              % (len(fam.TOKENS), 2 if tier == "quick" else 3)),
        required={"inproc_cases": 5000, "binary_runs": 500, "inproc_error_free": 50, "typeform_position_pairs": 300,
                  "scaling_instances": 20, "cmdline_runs": 300, "doc_indentation_cases": 100, "doc_product_cases": 1000, "eol_defect_cases": 1000, "truncation_cases": 1500, "asan.truncation_cases": 1500, "alias_graph_cases": 5000, "keyword_name_cases": 900, "large_input_runs": 12,
                  "asan.inproc_cases": 1500, "asan.binary_runs": 300, "asan.valid_model_programs": 200,
                  **({"fuzz_executions": 200000, "fuzz_coverage_edges": 3000} if tier == "thorough" else {})},
        assumptions=["the time bound is decided on CPU time (rusage / thread clock), never on wall-clock; a watchdog firing below the "
                     "bound is inconclusive", "'grows gently' is only decided as the stated hard bound: 20 s CPU for <= 8 KiB"],
        exhaustive=True,
        extra_coverage={"exhaustive_space": "all token sequences of length <= %d over the token alphabet, with and without a module line"
                        % (2 if tier == "quick" else 3)},
    )
