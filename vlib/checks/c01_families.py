"""Input families for C01 (hostile inputs). Pure text generation, no oracle logic."""
import re

KEYWORDS = ["module", "struct", "interface", "enum", "custom", "typealias", "Result", "Sequence", "Dictionary", "bool", "int8",
            "uint8", "int16", "uint16", "int32", "uint32", "varint32", "varuint32", "int64", "uint64", "varint62", "varuint62",
            "float32", "float64", "string", "compact", "idempotent", "stream", "tag", "unchecked"]
SYMBOLS = ["(", ")", "[", "]", "[[", "]]", "{", "}", "<", ">", ",", ":", "::", "=", "?", "->", "-"]
OTHERS = ["x", "Y1", "\\struct", "1", "0x1F", "0b1", "9z", "1_0", '"s"', '"a\\"b"', '"unterminated', "/// doc {@link x}", "/// @param x: y",
          "// c", "/* c */", "/*", "#if A", "#endif", "#define A", "$", "@", "\\", "/", "é", "　"]
TOKENS = KEYWORDS + SYMBOLS + OTHERS

LINE_TOKENS = ("///", "//", "#")


def join_soup(tokens, rng=None):
    out = []
    for t in tokens:
        if t.startswith("#"):
            # a directive must be first on its line
            if out and not out[-1].endswith("\n"):
                out.append("\n")
            out.append(t + "\n")
        elif t.startswith("//"):
            out.append(t + "\n")
        else:
            sep = " "
            if rng is not None:
                sep = rng.choice([" ", " ", "\n", "\t", "", "\r\n"])
                # never glue two word-like tokens together (that would make a different token)
                if sep == "" and out and re.search(r"[A-Za-z0-9_]$", out[-1]) and re.match(r"[A-Za-z0-9_]", t):
                    sep = " "
            out.append(t + sep)
    return "".join(out)


def soup_malformed(text):
    """Returns a reason if the text is known to be malformed by construction, else None (= unknown)."""
    if re.search(r"^\s*#", text, flags=re.M):
        return None  # directives may remove text; not decided here
    # strip comments and strings (single pass, left to right)
    i, n = 0, len(text)
    depth = {"{": 0, "(": 0, "<": 0}
    close = {"}": "{", ")": "(", ">": "<"}
    stray = None
    while i < n:
        c = text[i]
        if text.startswith("//", i):
            j = text.find("\n", i)
            i = n if j < 0 else j
            continue
        if text.startswith("/*", i):
            j = text.find("*/", i + 2)
            if j < 0:
                return "unterminated block comment"
            i = j + 2
            continue
        if c == '"':
            j = i + 1
            esc = False
            while j < n and text[j] != "\n":
                if esc:
                    esc = False
                elif text[j] == "\\":
                    esc = True
                elif text[j] == '"':
                    break
                j += 1
            if j >= n or text[j] != '"':
                return "unterminated string literal"
            i = j + 1
            continue
        if c in "$@" or (c == "é") or (c == "/"):
            stray = stray or ("stray %r" % c)
        if c == "\\" and not (i + 1 < n and text[i + 1].isascii() and text[i + 1].isalpha()):
            stray = stray or "stray backslash"
        if c in depth:
            depth[c] += 1
        elif c in close:
            if text.startswith("->", i - 1) and c == ">":
                pass
            else:
                depth[close[c]] -= 1
        i += 1
    if stray:
        return stray
    if depth["{"] != 0 or depth["("] != 0:
        return "unbalanced brackets"
    return None


VALID_PROGRAMS = [
    """module A::B
/// A struct. See {@link I}.
/// @see E
struct S { a: int32, tag(1) b: Sequence<[x::y("q")] string?>?, c: Dictionary<varuint62, Result<S2, string>> }
compact struct S2 { k: bool, v: E }
[deprecated("use J")]
interface I : J {
    /// Does it.
    /// @param a: the a
    /// @returns x: the x
    idempotent op(a: S, tag(3) b: bool?) -> (x: bool, y: T)
    [oneway] fire(data: stream uint8)
    get() -> stream S2
}
interface J { [compress(Args, Return)] [slicedFormat(Args)] base(x: \\struct) -> string? }
typealias T = [z::q] Dictionary<string, S>
unchecked enum E : uint8 { A, B = 5, C = 0x10, D = 0b1_1 }
enum V { One, Two(x: bool, tag(2) y: int32?) = 7, Three() }
compact enum W { P(a: bool), Q }
[deprecated] custom C
struct \\struct { \\tag: C }
""",
    """[[allow(All)]]
[[foo::bar(a, "b c")]]
module M
struct Empty {}
interface K { op() }
enum Big : varint62 { Min = -2305843009213693952, Max = 2305843009213693951 }
enum U32 : uint32 { A = 4294967295 }
typealias Seq = Sequence<Sequence<Sequence<bool>>>
typealias A2 = Seq
struct Uses { s: A2, t: ::M::Empty, u: M::Empty }
""",
    "module X\ninterface P {\n    /// {@link P::op}\n    op(tag(0) a: int32?, tag(2147483647) b: string?) -> (tag(1) r: bool?, s: stream string)\n}\n",
]

WARNING_PROGRAM = "module M\n[deprecated] struct D {}\nstruct U { d: D }\n/// {@link Nope}\n/// @param q: x\nstruct V {}\n"


def mutate(text, rng):
    kind = rng.random()
    toks = re.findall(r"\s+|[A-Za-z_][A-Za-z0-9_]*|\d\w*|\"[^\"\n]*\"?|///[^\n]*|//[^\n]*|::|->|\[\[|\]\]|.", text, flags=re.S)
    if kind < 0.35:
        # token level
        for _ in range(rng.randint(1, 3)):
            if not toks:
                break
            i = rng.randrange(len(toks))
            op = rng.random()
            if op < 0.3:
                del toks[i]
            elif op < 0.5:
                toks.insert(i, toks[i])
            elif op < 0.7:
                j = rng.randrange(len(toks))
                toks[i], toks[j] = toks[j], toks[i]
            else:
                toks[i] = rng.choice(TOKENS)
        return "".join(toks)
    if kind < 0.5:
        # truncate at a token boundary
        return "".join(toks[:rng.randrange(len(toks) + 1)])
    if kind < 0.7:
        # char level
        chars = list(text)
        for _ in range(rng.randint(1, 4)):
            if not chars:
                break
            i = rng.randrange(len(chars))
            op = rng.random()
            if op < 0.3:
                del chars[i]
            elif op < 0.6:
                chars.insert(i, rng.choice("{}()[]<>,:=?-\\/\"#@$ \t\n\r\x00é　\U0001F600"))
            else:
                chars[i] = rng.choice("{}()[]<>,:=?-\\/\"#@$ \t\n\r\x00é　\U0001F600abc019_")
        return "".join(chars)
    if kind < 0.85:
        # byte level (may produce lone surrogate escapes -> replaced)
        b = bytearray(text.encode())
        for _ in range(rng.randint(1, 4)):
            if not b:
                break
            i = rng.randrange(len(b))
            op = rng.random()
            if op < 0.3:
                del b[i]
            elif op < 0.6:
                b[i] ^= 1 << rng.randrange(8)
            else:
                b.insert(i, rng.randrange(256))
        return bytes(b).decode("utf-8", "replace")
    # splice two programs
    other = rng.choice(VALID_PROGRAMS)
    a = rng.randrange(len(text) + 1)
    b = rng.randrange(len(other) + 1)
    return text[:a] + other[b:]


TYPE_FORMS = (["bool", "int8", "uint8", "int16", "uint16", "int32", "uint32", "varint32", "varuint32", "int64", "uint64", "varint62",
               "varuint62", "float32", "float64", "string"] +
              ["Sequence<bool>", "Dictionary<string, bool>", "Result<bool, string>",
               "St", "En", "Eu", "Cu", "Al", "Ao", "If", "M", "St::f", "En::A", "If::op", "Nope", "::M::St", "M::St", "::St",
               "Sequence<St>", "Sequence<Nope>", "Dictionary<St, St>", "Dictionary<If, bool>", "Result<If, En>"])


def typeform_programs():
    """Every type form (also optional and attributed) in every type position."""
    defs = ("struct St { f: bool }\nenum En { A, B }\nenum Eu : uint8 { A }\ncustom Cu\ntypealias Al = Sequence<bool>\n"
            "typealias Ao = St\ninterface If { op() }\n")
    positions = {
        "field": "struct P { p: %s }",
        "parameter": "interface P { q(p: %s) }",
        "stream-parameter": "interface P { q(p: stream %s) }",
        "return": "interface P { q() -> %s }",
        "tuple-return": "interface P { q() -> (a: %s, b: bool) }",
        "enumerator-field": "enum P { X(p: %s) }",
        "alias-target": "typealias P = %s",
        "sequence-element": "struct P { p: Sequence<%s> }",
        "dictionary-key": "struct P { p: Dictionary<%s, bool> }",
        "dictionary-value": "struct P { p: Dictionary<bool, %s> }",
        "result-success": "struct P { p: Result<%s, bool> }",
        "result-failure": "struct P { p: Result<bool, %s> }",
        "interface-base": "interface P : %s {}",
        "interface-base-2": "interface P : If, %s {}",
        "enum-underlying": "enum P : %s { X }",
        "tagged-field": "struct P { tag(1) p: %s }",
        "compact-field": "compact struct P { p: %s }",
    }
    for pname, template in positions.items():
        for form in TYPE_FORMS:
            for deco in ("%s", "%s?", "[foo::bar] %s", "[deprecated] %s?"):
                t = deco % form
                yield (pname, t), "module M\n" + defs + template % t + "\n"


def cycle_and_chain_programs():
    yield "self-struct", "module M\nstruct S { s: S }\n"
    yield "self-opt", "module M\nstruct S { s: S? }\n"
    yield "self-seq", "module M\nstruct S { s: Sequence<S> }\n"
    yield "enum-self", "module M\nenum E { A(e: E) }\n"
    yield "alias-self", "module M\ntypealias A = A\nstruct S { a: A }\n"
    yield "alias-loop", "module M\ntypealias A = B\ntypealias B = Sequence<A>\nstruct S { a: A }\n"
    yield "alias-loop-3", "module M\ntypealias A = B\ntypealias B = C\ntypealias C = A\ninterface I { op(a: A) -> B }\n"
    yield "inherit-self", "module M\ninterface I : I {}\n"
    yield "inherit-loop", "module M\ninterface I : J { a() }\ninterface J : K { b() }\ninterface K : I { c() }\n"
    yield "inherit-loop-ops", "module M\ninterface I : J { a() }\ninterface J : I { a() }\n"
    yield "alias-chain-400", "module M\n" + "".join("typealias A%d = A%d\n" % (i, i + 1) for i in range(400)) + "typealias A400 = bool\nstruct S { a: A0 }\n"
    yield "inherit-chain-300", "module M\ninterface I0 { z() }\n" + "".join("interface I%d : I%d { o%d() }\n" % (i + 1, i, i) for i in range(300))
    yield "contain-chain-200", "module M\nstruct S0 { x: bool }\n" + "".join("struct S%d { s: S%d }\n" % (i + 1, i) for i in range(200))
    yield "contain-chain-200-loop", "module M\nstruct S0 { x: S200 }\n" + "".join("struct S%d { s: S%d }\n" % (i + 1, i) for i in range(200))
    yield "key-chain-150", "module M\ncompact struct K0 { x: bool }\n" + "".join("compact struct K%d { k: K%d }\n" % (i + 1, i) for i in range(150)) + "struct U { d: Dictionary<K150, bool> }\n"
    yield "many-enumerators", "module M\nenum E { " + ", ".join("E%d" % i for i in range(1200)) + " }\n"
    yield "dup-enumerators", "module M\nenum E : uint8 { " + ", ".join("E%d = %d" % (i, i % 7) for i in range(300)) + " }\n"


def deep_nesting_programs(cap):
    def fit(prefix, open_, close, suffix):
        n = (cap - len(prefix) - len(suffix) - 8) // (len(open_) + len(close))
        return prefix + open_ * n + "bool" + close * n + suffix
    yield "deep-sequence", fit("module M\nstruct S { a: ", "Sequence<", ">", " }\n")
    yield "deep-result", fit("module M\nstruct S { a: ", "Result<bool,", ">", " }\n")
    yield "deep-dictionary", fit("module M\nstruct S { a: ", "Dictionary<bool,", ">", " }\n")
    yield "deep-dictionary-key", fit("module M\nstruct S { a: ", "Dictionary<", ",bool>", " }\n")
    yield "deep-optional-seq", fit("module M\ntypealias A = ", "Sequence<", "?>", "\n")
    n = (cap - 40) // 14
    yield "deep-if", "module M\n" + "#if A\n" * n + "struct S {}\n" + "#endif\n" * n
    n = (cap - 40) // 2
    yield "deep-paren-expr", "module M\n#if " + "(" * n + "A" + ")" * n + "\nstruct S {}\n#endif\n"
    n = (cap - 40) // 5
    yield "long-or-expr", "module M\n#if " + " || ".join(["A"] * (n // 2)) + "\nstruct S {}\n#endif\n"
    yield "deep-braces", "module M\n" + "struct S {" * ((cap - 20) // 10)
    yield "deep-brackets", "module M\n" + "[" * (cap - 20)
    yield "deep-parens", "module M\ninterface I { op" + "(" * (cap - 40)
    yield "deep-attr-args", "module M\n[a(" + ",".join(["x"] * ((cap - 30) // 2)) + ")] struct S {}\n"
    yield "long-scoped-id", "module M\nstruct S { a: " + "::".join(["A"] * ((cap - 40) // 3)) + " }\n"
    yield "long-module", "module " + "::".join(["A"] * ((cap - 20) // 3)) + "\nstruct S {}\n"
    yield "many-doc-lines", "module M\n" + "/// x {@link S}\n" * ((cap - 30) // 16) + "struct S {}\n"
    yield "long-doc-line", "module M\n/// " + "{@link S} " * ((cap - 40) // 10) + "\nstruct S {}\n"
    yield "many-tags", "module M\ninterface I {\n" + "/// @param p: x\n" * ((cap - 60) // 16) + "op(p: bool)\n}\n"
    yield "big-int", "module M\nenum E : int64 { A = " + "9" * 200 + " }\n"
    yield "big-tag", "module M\nstruct S { tag(" + "9" * 200 + ") a: bool? }\n"
    yield "neg-big", "module M\nenum E : int64 { A = -170141183460469231731687303715884105728 }\n"
    yield "neg-max", "module M\nenum E : int64 { A = -170141183460469231731687303715884105727, B }\n"
    yield "implicit-after-max", "module M\nenum E : int64 { A = 170141183460469231731687303715884105727, B }\n"


def _dense_containment(n):
    return "module M\n" + "".join("struct S%d { %s }\n" % (i, ", ".join(["x: bool"] + ["f%d: S%d" % (j, j) for j in range(i)])) for i in range(n))


def _dense_inheritance(n):
    return "module M\n" + "".join("interface I%d%s { o%d() }\n" % (i, (" : " + ", ".join("I%d" % j for j in range(i))) if i else "", i) for i in range(n))


def _dense_keys(n):
    return ("module M\n" + "".join("compact struct K%d { %s }\n" % (i, ", ".join(["x: bool"] + ["f%d: K%d" % (j, j) for j in range(i)])) for i in range(n))
            + "struct U { d: Dictionary<K%d, bool> }\n" % (n - 1))


def _dense_cyclic(n):
    return "module M\n" + "".join("struct S%d { %s }\n" % (i, ", ".join("f%d: S%d?" % (j, j) for j in range(n) if j != i)) for i in range(n))


def _enumerators(n):
    return "module M\nenum E { " + ", ".join("E%d" % i for i in range(n * 12)) + " }\n"


def _alias_fan(n):
    return "module M\n" + "".join("typealias A%d = Sequence<A%d>\n" % (i, i + 1) for i in range(n * 4)) + "typealias A%d = bool\n" % (n * 4) + \
        "struct S { " + ", ".join("f%d: A0" % i for i in range(n)) + " }\n"


def _diamond_ops(n):
    # layered diamonds with operations: all_inherited_operations on every level
    out = ["module M", "interface B0 { o0() }"]
    for i in range(1, n):
        out.append("interface L%d : %s { l%d() }" % (i, "B%d" % (i - 1), i))
        out.append("interface R%d : %s { r%d() }" % (i, "B%d" % (i - 1), i))
        out.append("interface B%d : L%d, R%d { o%d() }" % (i, i, i, i))
    return "\n".join(out) + "\n"


def _doubling(kind):
    """Each definition refers to the next one twice: n definitions, 2^n paths. Leaves valid / invalid / closing a cycle."""
    def gen(n, kind=kind):
        n = n * 2
        out = ["module M"]
        if kind.startswith("keys"):
            for i in range(n):
                out.append("compact struct K%d { a: K%d, b: K%d }" % (i, i + 1, i + 1))
            out.append("compact struct K%d { x: %s }" % (n, "float64" if kind == "keys-invalid-leaf" else "int32"))
            out.append("struct U { d: Dictionary<K0, bool> }")
        elif kind.startswith("contain"):
            for i in range(n):
                out.append("struct S%d { a: S%d, b: Sequence<S%d> }" % (i, i + 1, i + 1))
            out.append("struct S%d { x: %s }" % (n, "S0?" if kind == "contain-cycle-at-leaf" else "bool"))
        elif kind == "alias-result":
            for i in range(n):
                out.append("typealias A%d = Result<A%d, A%d>" % (i, i + 1, i + 1))
            out.append("typealias A%d = bool" % n)
            out.append("struct U { a: A0 }")
        elif kind == "alias-dictionary-value":
            for i in range(n):
                out.append("typealias A%d = Dictionary<string, Sequence<A%d>>" % (i, i + 1))
            out.append("typealias A%d = Dictionary<float32, bool>" % n)
            out.append("interface I { op(a: A0, b: A0) -> A0 }")
        elif kind == "inherit":
            out.append("interface I%d { z() }" % n)
            for i in range(n - 1, -1, -1):
                out.append("interface L%d : I%d { l%d() }" % (i, i + 1, i))
                out.append("interface I%d : L%d, I%d { o%d() }" % (i, i, i + 1, i))
        elif kind == "inherit-redeclare":
            out.append("interface I%d { z() }" % n)
            for i in range(n - 1, -1, -1):
                out.append("interface L%d : I%d {}" % (i, i + 1))
                out.append("interface I%d : L%d, I%d {}" % (i, i, i + 1))
            out.append("interface Bad : I0 { z() }")
        return "\n".join(out) + "\n"
    return gen


def _deep_module_scope(n):
    """One module name of n segments, one alias whose anonymous type holds n/6 unresolvable names, n/3 uses of the alias: every
    lookup walks the n enclosing scopes, building a candidate name of O(n) characters for each."""
    m, uses = max(1, n // 6), max(1, n // 3)
    t = "Q"
    for _ in range(m - 1):
        t = "Result<Q,%s>" % t
    return "module " + "::".join(["a"] * n) + "\ntypealias T=" + t + "\nstruct S{" + ",".join("f%d:T" % i for i in range(uses)) + "}\n"


SCALING = {
    "deep-module-scope": _deep_module_scope,
    "doubling-keys-valid-leaf": _doubling("keys-valid-leaf"),
    "doubling-keys-invalid-leaf": _doubling("keys-invalid-leaf"),
    "doubling-containment": _doubling("contain-acyclic"),
    "doubling-containment-cycle-at-leaf": _doubling("contain-cycle-at-leaf"),
    "doubling-alias-result": _doubling("alias-result"),
    "doubling-alias-dictionary-value": _doubling("alias-dictionary-value"),
    "doubling-inheritance": _doubling("inherit"),
    "doubling-inheritance-redeclare": _doubling("inherit-redeclare"),
    "dense-containment-dag": _dense_containment,
    "dense-inheritance-dag": _dense_inheritance,
    "dense-compact-key-dag": _dense_keys,
    "dense-cyclic-containment": _dense_cyclic,
    "many-enumerators": _enumerators,
    "alias-chains": _alias_fan,
    "layered-diamonds": _diamond_ops,
}

WS = [" ", "\u0009", " ", " ", "　"]


def doc_indentation_programs():
    """Mixed-width Unicode indentation in all pairs across two and three lines, in several commentable positions."""
    for a in WS:
        for b in WS:
            for la, lb in ((1, 1), (1, 2), (2, 1), (3, 1), (1, 3)):
                body = "///%sfirst\n///%ssecond\n" % (a * la, b * lb)
                yield ("2", a, b, la, lb), "module M\n" + body + "struct S {}\n"
                yield ("2tag", a, b, la, lb), "module M\ninterface I {\n/// @param p:%sx\n///%smore\n///%sagain\nop(p: bool)\n}\n" % (a, a * la, b * lb)
            for c in WS:
                yield ("3", a, b, c), "module M\n///%sx\n///%sy {@link S}\n///%sz\nenum S { A }\n" % (a, b + a, c + c)
    for w in WS:
        yield ("ws-only", w), "module M\n/// x\n///%s\n///  y\nstruct S {}\n" % (w * 2)
        yield ("link-first", w), "module M\n///%s{@link S} x\n///%sy\nstruct S {}\n" % (w, w)
        yield ("empty", w), "module M\n///\n///%s\n///\nstruct S {}\n" % w


TEXT_VARIANTS = [
    ("crlf", lambda t: t.replace("\n", "\r\n")),
    ("cr-only", lambda t: t.replace("\n", "\r")),
    ("tabs", lambda t: t.replace(" ", "\t")),
    ("no-final-newline", lambda t: t.rstrip("\n")),
    ("bom", lambda t: "﻿" + t),
    ("nul", lambda t: t.replace("{", "{\x00", 1)),
    ("nul-end", lambda t: t + "\x00"),
    ("double-space", lambda t: t.replace(" ", "  ")),
    ("one-line", lambda t: re.sub(r"//[^\n]*", "", t).replace("\n", " ")),
    ("form-feed", lambda t: t.replace("\n", "\n\x0c")),
    ("nbsp", lambda t: t.replace(" ", " ")),
    ("line-sep", lambda t: t.replace("\n", " ")),
    ("upper", lambda t: t.upper()),
]


def doc_product_programs():
    """Every tag kind x message with / without a link (resolvable or not) x every commentable position (and the operation
    shapes), including the combinations that are lints."""
    positions = {
        "struct": "module M\n{doc}struct Host {{ a: bool }}\n",
        "field": "module M\nstruct Host {{\n{doc}a: bool }}\n",
        "interface": "module M\n{doc}interface Host {{ op() }}\n",
        "op-void": "module M\ninterface Host {{\n{doc}hostop(p: bool) }}\n",
        "op-single": "module M\ninterface Host {{\n{doc}hostop(p: bool) -> bool }}\n",
        "op-tuple": "module M\ninterface Host {{\n{doc}hostop(p: bool) -> (a: bool, b: bool) }}\n",
        "enum": "module M\n{doc}enum Host {{ A }}\n",
        "enumerator": "module M\nenum Host {{\n{doc}A(f: bool) }}\n",
        "enumerator-field": "module M\nenum Host {{ A(\n{doc}f: bool) }}\n",
        "custom": "module M\n{doc}custom Host\n",
        "alias": "module M\n{doc}typealias Host = bool\n",
        "module": "{doc}module M\nstruct Host {{}}\n",
        "parameter": "module M\ninterface Host {{ hostop(\n{doc}p: bool) }}\n",
    }
    msgs = ["text", "{@link Host}", "x {@link Nope} y", "{@link Host} {@link Host::a} {@link ::M::Host}", "", "{@link", "{@link }", "{@see Host}"]
    tags = ["@param", "@see", "@returns", "@param p", "@", "@param :", "@see ::", "@returns :", "%s", "@param p: %s", "@param nope: %s", "@returns: %s", "@returns a: %s", "@returns nope: %s", "@see Host", "@see Nope", "@param p\n///   %s",
            "@returns\n///     %s\n/// @see Host", "@unknown %s"]
    for pname, tpl in positions.items():
        for tag in tags:
            for m in (msgs if "%s" in tag else [""]):
                line = tag % m if "%s" in tag else tag
                doc = "/// " + line + "\n"
                yield (pname, tag, m), tpl.format(doc=doc)
                # two tags of the same kind, and a tag after an overview with a link
                yield (pname, tag, m, "x2"), tpl.format(doc="/// intro {@link Host}\n" + doc + doc)


def eol_defect_programs():
    """A construct that is cut off exactly at the end of its line (operand missing, bracket / literal / comment left open) x how
    the line ends x where the line stands. Spans of the resulting diagnostics start or end at the line terminator."""
    doc = ["/// @param", "/// @see", "/// @returns", "/// @param p", "/// {@link", "/// {@link Host", "/// x {@link Host::", "/// @", "///",
           "/// @param p:", "/// {@", "/// {", "/// }", "/// @see Host::", "//// four", "/// text \\"]
    directive = ["#define", "#undef", "#if", "#if A &&", "#if A ||", "#if !", "#if (", "#if (A", "#elif", "#else x", "#endif x", "#", "#if A)",
                 "# define", "#define A B", "#if A && !", "#nope"]
    code = ["struct", "struct Host {", "struct Host { a:", "struct Host { a: Sequence<", "typealias X =", "[foo(\"abc", "[foo(", "[", "[[", "/* open",
            "interface Host { op(", "interface Host { op() ->", "enum Host :", "enum Host { A =", "tag(", "struct Host { tag(1", "custom",
            "module", "Host::", "::", "struct Host { a: bool?", "enum Host { A = 0x", "struct Host { a: Dictionary<bool,", "\\", "struct \\"]
    eols = [("lf", "\n"), ("crlf", "\r\n"), ("cr", "\r"), ("eof", ""), ("space-lf", " \n"), ("tab-crlf", "\t\r\n"), ("crcrlf", "\r\r\n"),
            ("ls", "\u2028"), ("nel", "\u0085\n"), ("wide-crlf", " \u4e2d\r\n")]
    for ename, eol in eols:
        nl = "\r\n" if "crlf" in ename else "\n"
        for d in doc:
            for ctxname, before, after in (("struct", "module M" + nl, "struct Host {{ a: bool }}" + nl),
                                           ("op", "module M" + nl + "interface Host {{" + nl, "hostop(p: bool) -> bool" + nl + "}}" + nl),
                                           ("field", "module M" + nl + "struct Host {{" + nl + "    ", "a: bool" + nl + "}}" + nl),
                                           ("last", "module M" + nl + "struct Host {{}}" + nl, "")):
                yield ("doc", d, ename, ctxname), before.replace("{{", "{").replace("}}", "}") + d + eol + after.replace("{{", "{").replace("}}", "}")
        for d in directive:
            for ctxname, before, after in (("first", "", "module M" + nl + "struct Host {}" + nl), ("middle", "module M" + nl, "struct Host {}" + nl),
                                           ("indented", "module M" + nl + "  \t", "struct Host {}" + nl), ("last", "module M" + nl + "struct Host {}" + nl, ""),
                                           ("in-if", "module M" + nl + "#if X" + nl, "#endif" + nl)):
                yield ("directive", d, ename, ctxname), before + d + eol + after
        for d in code:
            for ctxname, before, after in (("top", "module M" + nl, ""), ("top-followed", "module M" + nl, "struct Other {}" + nl),
                                           ("no-module", "", "")):
                yield ("code", d, ename, ctxname), before + d + eol + after


LINT_RICH_PROGRAMS = [
    # every commentable element carries a doc comment that yields a lint (recorded at parse time with the element as its scope);
    # every container holds children that are built before the container itself is complete
    """module M
/// {@link
[allow(BrokenDocLink)] struct S {
    /// {@link
    a: bool,
    /// @unknown x
    [deprecated] b: Sequence<Dictionary<string, S?>>
}
/// {@link
enum E {
    /// {@link
    A(
        /// {@link
        f: bool,
        /// @unknown y
        [allow(All)] g: Sequence<S>
    ),
    /// @unknown z
    B(
        /// {@link
        h: Result<bool, string>
    ) = 7,
    C
}
/// {@link
interface I {
    /// {@link
    /// @param p: {@link
    op(p: bool, tag(1) q: Sequence<S>?) -> (r: bool, s: string)
    /// @unknown w
    [oneway] op2(x: E)
}
/// {@link
typealias T = Dictionary<string, Sequence<E>>
/// {@link
custom C
""",
    """module A::B
/// @returns: nothing {@link Nope}
unchecked enum U : uint8 {
    /// {@link
    X = 1,
    /// {@link
    Y
}
compact enum K {
    /// {@link
    P(
        /// {@link
        v: U
    )
}
/// {@link
compact struct CS { /// {@link
 a: int32 }
interface J : I {
    /// {@link
    idempotent get(/// no
 a: bool) -> stream bool
}
interface I {}
""",
]


LINT_RICH_PROGRAMS.append(
    # the same scoped names claimed by several kinds of element (redefinitions): a lint recorded for one of them is looked up by
    # that name and may find another - one whose container was discarded by a later syntax error
    """module M
enum E { A( /// {@link}
 f: int32, /// @unknown u
 g: bool ), /// {@link
 B }
interface E { /// {@link}
 A(f: int32, g: bool) -> (f: bool, h: string) /// @unknown v
 B() }
struct E { /// {@link}
 A: bool, /// {@link
 B: Sequence<E> }
interface I { /// {@link}
 op(/// nope
 p: bool) }
enum I { op( /// {@link}
 p: bool ) }
""")


def truncation_programs():
    """Every prefix of the lint-rich programs cut at a token boundary, bare and followed by a stray token, so that a syntax
    error follows each element at the moment it has just been built (its children built, its container not yet)."""
    import re as _re
    for pi, text in enumerate(LINT_RICH_PROGRAMS):
        bounds = sorted(set([m.end() for m in _re.finditer(r"[A-Za-z_0-9]+|///[^\n]*|[^\sA-Za-z_0-9]", text)]))
        for b in bounds:
            prefix = text[:b]
            for tail in ("", "\n}", "\n=", "\n$", "\n)", "\nstruct", "\n}\n}\n", "\n/// {@link\n", "\n, ,"):
                yield ("truncate", pi, b, tail), prefix + tail


def alias_graph_program(rng):
    """Four aliases whose targets are each other - directly or inside anonymous types -, by-name uses before, between and after
    them, in one or two files: loops must end in diagnostics whatever the order in which references are resolved."""
    n = 4
    forms = ["A{j}", "A{j}", "Sequence<A{j}>", "Dictionary<bool, A{j}>", "Result<A{j}, bool>", "Sequence<Dictionary<string, A{j}?>>",
             "Result<bool, Sequence<A{j}>>", "Result<A{j}, A{k}>"]
    defs = []
    for i in range(n):
        t = rng.randrange(n + 1)
        if t < n:
            defs.append("typealias A%d = %s" % (i, rng.choice(forms).format(j=t, k=rng.randrange(n))))
        else:
            defs.append("typealias A%d = %s" % (i, rng.choice(["bool", "Sequence<int32>", "string"])))
    uses = ["typealias Outer%d = A%d" % (i, rng.randrange(n)) for i in range(rng.randint(0, 2))]
    uses += ["struct U%d { f: A%d, g: Sequence<A%d> }" % (i, rng.randrange(n), rng.randrange(n)) for i in range(rng.randint(0, 2))]
    uses += ["interface I%d { op(a: A%d) -> A%d }" % (i, rng.randrange(n), rng.randrange(n)) for i in range(rng.randint(0, 1))]
    lines = defs + uses
    rng.shuffle(lines)
    if rng.random() < 0.3:
        cut = rng.randrange(1, len(lines)) if len(lines) > 1 else 1
        return ["module M\n" + "\n".join(lines[:cut]) + "\n", "module M\n" + "\n".join(lines[cut:]) + "\n"]
    return ["module M\n" + "\n".join(lines) + "\n"]


KEYWORD_NAMES = ["bool", "int8", "uint8", "int16", "uint16", "int32", "uint32", "varint32", "varuint32", "int64", "uint64", "varint62",
                 "varuint62", "float32", "float64", "string", "AnyClass", "module", "struct", "exception", "class", "interface", "enum",
                 "custom", "typealias", "Sequence", "Dictionary", "Result", "compact", "idempotent", "mode", "stream", "tag", "throws",
                 "unchecked"]


def keyword_name_programs():
    """Escaped identifiers spelled like every keyword / primitive, in every naming position (module, nested module, definition,
    member, alias, reference), alone and next to a second file that uses the real keywords - in both file orders."""
    prims = ["bool", "int32", "string", "varuint62"]
    for k in KEYWORD_NAMES:
        e = "\\" + k
        user = "module N\nstruct T { a: %s, b: Sequence<%s>, c: Dictionary<string, int32> }\ninterface I { op(x: bool) -> string }\n" % (
            k if k in prims or k in ("int8", "uint8", "int16", "uint16", "uint32", "varint32", "varuint32", "int64", "uint64", "varint62", "float32", "float64")
            else "int32", prims[len(k) % 4])
        singles = [
            ("module-named", "module %s\nstruct S { a: bool }\n" % e),
            ("nested-module-named", "module A::%s\nstruct S { a: bool, b: string }\n" % e),
            ("module-and-use", "module %s\nstruct S { a: %s, b: int32 }\n" % (e, e)),
            ("struct-named", "module M\nstruct %s { %s: bool }\ntypealias X = %s\nstruct U { a: %s, b: M::%s, c: ::M::%s, d: Sequence<%s?> }\n" % (e, e, e, e, e, e, e)),
            ("enum-named", "module M\nenum %s { %s, B(%s: bool) }\nstruct U { a: %s }\n" % (e, e, e, e)),
            ("interface-named", "module M\ninterface %s { %s(%s: bool) -> (%s: bool, x: string) }\ninterface J : %s {}\n" % (e, e, e, e, e)),
            ("custom-and-alias", "module M\ncustom %s\ntypealias Y = Dictionary<string, %s>\n" % (e, e)),
            ("alias-named", "module M\ntypealias %s = string\nstruct U { a: %s, b: string }\n" % (e, e)),
            ("reference-to-nothing", "module M\nstruct U { a: %s, b: ::%s, c: M::%s }\n" % (e, e, e)),
            ("doc-links", "module M\n/// {@link %s} {@link %s::%s}\n/// @see %s\nstruct %s { %s: bool }\n" % (e, e, e, e, e, e)),
        ]
        for name, text in singles:
            yield ("kw", k, name, "alone"), [text]
            yield ("kw", k, name, "before-user"), [text, user]
            yield ("kw", k, name, "after-user"), [user, text]


def large_input_witnesses():
    """Machine-generated inputs of 250-600 KB whose depth (of nesting, of a chain of definitions, of a condition) is in the tens
    of thousands. name -> (text, extra argv, needs a generator)"""
    n = 14000
    yield "struct-chain-14000", ("module M\n" + "".join("struct S%d { a: S%d }\n" % (i, i + 1) for i in range(n)) + "struct S%d { a: bool }\n" % n, [], False)
    n = 60000
    yield "preprocessor-and-chain-60000", ("module M\n#if " + " && ".join(["A"] * n) + "\nstruct S {}\n#endif\n", ["-D", "A"], False)
    n = 20000
    yield "nested-if-20000", ("module M\n" + "#if A\n" * n + "struct S {}\n" + "#endif\n" * n, ["-D", "A"], False)
    n = 60000
    yield "nested-sequence-60000-request", ("module M\nstruct S { a: " + "Sequence<" * n + "bool" + ">" * n + " }\n", [], True)
    # single lines of more than 65535 characters, with a diagnostic that starts beyond that column or spans more than that many
    # characters (rendered with a snippet in the human format): ordinary diagnostics are expected, nothing else
    n = 70000
    yield "long-line-returns-message", ("module M\n/// @returns: " + "x" * n + "\nstruct S {}\n", [], False)
    yield "long-line-broken-link", ("module M\n/// {@link " + "Y" * n + "}\nstruct S {}\n", [], False)
    yield "long-line-late-error", ("module M\nstruct S { " + " " * n + "a: Nope }\n", [], False)
    yield "long-line-long-identifier", ("module M\nstruct S { a: " + "Z" * n + " }\n", [], False)
    yield "long-line-attribute-string", ("module M\n[foo(\"" + "s" * n + "\")] struct S {}\n", [], False)
    yield "long-line-tabs", ("module M\nstruct S { a:" + "\t" * 20000 + "Nope }\n", [], False)
    # controls one order of magnitude smaller: these must simply compile
    n = 1200
    yield "control-struct-chain-1200", ("module M\n" + "".join("struct S%d { a: S%d }\n" % (i, i + 1) for i in range(n)) + "struct S%d { a: bool }\n" % n, [], False)
    n = 3000
    yield "control-nested-sequence-3000-request", ("module M\nstruct S { a: " + "Sequence<" * n + "bool" + ">" * n + " }\n", [], True)


def quoted_text_programs():
    """User text that ends up *inside* a diagnostic message or a snippet - a misplaced doc comment or string literal ("unexpected
    token"), a deprecation reason, a link target, an unknown directive / symbol / attribute - x every length 1..96 and a few beyond
    x characters of 1-4 bytes x 0-3 ASCII characters in front, so that every byte offset falls inside a character for some case.
    Message formatting that cuts, pads or aligns such text by bytes instead of characters panics on one of them."""
    carriers = [
        ("doc-comment-as-token", "module M\nstruct S { name: /// %s\n }\n"),
        ("doc-comment-after-type", "module M\nstruct S { name: bool /// %s\n }\n"),
        ("string-as-token", "module M\nstruct \"%s\" {}\n"),
        ("string-as-type", "module M\nstruct S { a: \"%s\" }\n"),
        ("string-in-enum", "module M\nenum E { A = \"%s\" }\n"),
        ("deprecation-reason", "module M\n[deprecated(\"%s\")] struct Old {}\nstruct U { o: Old }\n"),
        ("link-target", "module M\n/// {@link %s}\nstruct S {}\n"),
        ("link-tail", "module M\n/// {@link S %s}\nstruct S {}\n"),
        ("param-name", "module M\ninterface I {\n/// @param %s: x\nop()\n}\n"),
        ("see-target", "module M\n/// @see %s\nstruct S {}\n"),
        ("unknown-tag", "module M\n/// @%s x\nstruct S {}\n"),
        ("if-symbol", "module M\n#if %s\n#endif\nstruct S {}\n"),
        ("directive", "#%s\nmodule M\n"),
        ("define-tail", "#define A %s\nmodule M\n"),
        ("attribute-directive", "module M\n[foo::%s] struct S {}\n"),
        ("attribute-argument", "module M\n[foo(%s)] struct S {}\n"),
        ("attribute-string", "module M\n[foo(\"%s\", \"%s\")] [foo(\"%s\")] struct S {}\n[deprecated(\"%s\", \"%s\")] struct T {}\n"),
        ("type-position", "module M\nstruct S { a: %s }\n"),
        ("module-name", "module %s\n"),
        ("block-comment-then-error", "module M\n/* %s */ struct S { a: Nope }\n"),
        ("line-comment-then-error", "module M\nstruct S { a: Nope } // %s\n"),
        ("doc-then-error", "module M\n/// %s\nstruct S { a: Nope }\n"),
        ("doc-then-redefinition", "module M\n/// %s\nstruct S {}\n/// %s\nstruct S {}\n"),
        ("after-token-on-line", "module M\nstruct S { a: bool } \"%s\" struct T { a: Nope }\n"),
    ]
    fills = ["e", "\u00e9", "\u4e2d", "\U0001F600", "e\u0301"]
    lengths = list(range(1, 97)) + [100, 127, 128, 129, 160, 255, 256, 257, 300, 1000]
    for cname, tpl in carriers:
        for fi, fill in enumerate(fills):
            for pad in range(4):
                for n in lengths:
                    if n > 96 and pad > 1:
                        continue
                    text = "a" * pad + fill * n
                    yield (cname, fi, pad, n), tpl.replace("%s", text)


def cross_file_note_programs():
    """A diagnostic in one file whose note points into *another* file, where the noted element spans several lines, does not
    start in column 1, and stands on rows on which the first file has short, empty or no lines. (file order both ways)"""
    def pad_rows(k):
        return "\n" * k
    noted = [
        # (name, text of the file that holds the noted element - {P} = blank rows in front, text of the file with the diagnostic)
        ("dictionary-key-field", "module K\n{P}compact struct Key {\n        labels: Sequence<\n            string\n        >\n}\n",
         "module R\nstruct Reg { d: Dictionary<K::Key, string> }\n"),
        ("dictionary-key-two-fields", "module K\n{P}compact struct Key {\n   x: Dictionary<\n bool,\n bool>,\n                      y:\n float32\n}\n",
         "module R\n\n}\n\nstruct Reg { d: Dictionary<K::Key, string> }"),
        ("dictionary-key-nested", "module K\n{P}compact struct Inner {\n                 f:\n\n\n float64 }\ncompact struct Key { i: Inner }\n",
         "module R\ntypealias D = Dictionary<K::Key, string>"),
        ("dictionary-key-struct", "module K\n{P}        struct\n\n   Key\n {\n a: bool }\n", "module R\n\n\n\nstruct Reg { d: Dictionary<K::Key, string> }\n"),
        ("deprecated-attribute", "module K\n{P}        [deprecated(\n\"reason\"\n   )]\n struct Old {}\n", "module R\nstruct U { o: K::Old }\n"),
        ("deprecated-attribute-short-user", "module K\n{P}  [\n deprecated\n]\n struct Old {}\n", "module R\nstruct U {\no\n:\nK::Old\n}\n"),
        ("cycle-field", "module K\n{P}struct A {\n            b:\n\n     R::B\n}\n", "module R\nstruct B { a: K::A }\n"),
        ("redefinition", "module K\n{P}                struct\n\nS\n{}\n", "module K\nstruct S {}\n"),
        ("shadowed-operation", "module K\n{P}interface Base {\n            op(\n a: bool\n )\n}\n", "module K\ninterface D : Base { op() }\n"),
        ("enumerator-redefinition", "module K\n{P}enum E {\n            A(\n x: bool\n ),\n}\n", "module K\nenum E { A }\n"),
        ("alias-of-key", "module K\n{P}        typealias\n  T\n =\n Sequence<bool>\n", "module R\nstruct Reg { d: Dictionary<K::T, string> }\n"),
        ("optional-key", "module K\n{P}        typealias\n  T\n =\n bool\n", "module R\nstruct Reg { d: Dictionary<K::T?, string> }\n"),
    ]
    for name, other, main in noted:
        for k in range(0, 7):
            o = other.replace("{P}", pad_rows(k))
            for main_variant, m in (("as-is", main), ("one-line", main.replace("\n", " ").replace("module R ", "module R\n").replace("module K ", "module K\n")),
                                    ("trailing-blank", main + "\n\n\n\n\n\n\n\n")):
                yield (name, k, main_variant, "main-first"), [m, o]
                yield (name, k, main_variant, "other-first"), [o, m]
