"""C02 - source-to-AST fidelity: the AST says exactly what the source says, under every layout.

Workload: model-generated valid programs (vlib/slicegen) printed under several token-level layouts, plus
bounded-exhaustive micro-families. Oracle: the expected dump computed from the model (slicegen/expect.py) compared
field by field with the library's AST dump; the dumps of all layouts of one program must be identical apart from
locations.
"""
import itertools
import json
import random

from .. import build, core
from ..slicegen import expect, gen, printer
from ..slicegen.model import (KEYWORDS, Alias, Attr, Custom, Enum, Enumerator, Field, File, IntLit, Interface, Operation, Param,
                              Program, Struct, TypeExpr, INTEGRAL_BOUNDS)

PROP = "C02"
STYLES = ["plain", "dense", "lines", "crlf", "tabs", "random", "random", "random"]
SPAN_KEYS = {"span", "id_span", "at", "value_span", "other"}


def strip_spans(x):
    if isinstance(x, dict):
        return {k: strip_spans(v) for k, v in x.items() if k not in SPAN_KEYS}
    if isinstance(x, list):
        return [strip_spans(v) for v in x]
    return x


def check_program(ctx, prog, rng, nlayouts, family, key=None):
    """Prints prog under nlayouts layouts, compiles each, compares with the model and with each other."""
    expected = expect.exp_program(prog)
    # a fifth of the random programs get a file that holds nothing (empty, blanks, a comment) somewhere among their files: it
    # declares nothing, and costs the files around it nothing
    blank_at, blank_text = None, ""
    if family == "random" and rng.random() < 0.2:
        blank_at = rng.randrange(len(prog.files) + 1)
        blank_text = rng.choice(["", "\n", "  \n\t\n", "// nothing here\n", "\r\n"])
        expected = expected[:blank_at] + [{"path": "?", "module": None, "attrs": [], "contents": []}] + expected[blank_at:]
        expected = [dict(e, path="string-%d" % i) for i, e in enumerate(expected)]
        ctx.stats["programs_with_blank_file"] += 1
    dumps = []
    texts_all = []
    reqs = []
    for li in range(nlayouts):
        style = STYLES[li % len(STYLES)] if li < len(STYLES) else "random"
        layouts = [printer.Layout(random.Random(rng.random()), style) for _ in prog.files]
        texts = printer.print_program(prog, layouts)
        if blank_at is not None:
            texts = texts[:blank_at] + [blank_text] + texts[blank_at:]
        texts_all.append((style, texts))
        reqs.append({"op": "compile", "files": texts, "want": ["ast", "diags"]})
    resps = ctx.worker.batch(reqs)
    ctx.note_case((family, key if key is not None else texts_all[0][1]))
    ctx.stats["programs"] += 1
    for (style, texts), r in zip(texts_all, resps):
        ctx.stats["compilations"] += 1
        replay = {"kind": "library", "call": "compile_from_strings", "files": texts, "layout": style, "family": family}
        if "died" in r or r.get("panic"):
            p = r.get("panic") or {"message": "worker " + r["died"], "location": "?"}
            ctx.violate(core.panic_signature(p), "compiling a generated valid program crashed: %s" % p, replay)
            return None
        if r["diags"]:
            d = r["diags"][0]
            replay["diagnostics"] = [(x["code"], x["message"], x["span"]) for x in r["diags"][:5]]
            ctx.violate("diagnostic-on-valid-program:%s:%s" % (family, d["code"]),
                        "well-formed model program (layout %s) produced %s: %s" % (style, d["code"], d["message"]), replay)
            return None
        problems = expect.diff(expected, r["files"], "files")
        if problems:
            replay["differences"] = problems
            what = problems[0]
            # signature: the kind of field that differs (path with indices removed)
            import re
            sig = re.sub(r"\[\d+\]", "[]", what.split(":")[0])
            ctx.violate("ast-differs-from-source:%s:%s" % (family, sig), "layout %s: %s" % (style, what), replay)
            return None
        dumps.append(strip_spans(r["files"]))
    first = json.dumps(dumps[0], sort_keys=True)
    for (style, texts), d in zip(texts_all[1:], dumps[1:]):
        if json.dumps(d, sort_keys=True) != first:
            ctx.violate("layout-changes-ast:" + family, "layouts %s and %s of the same program give different ASTs" % (texts_all[0][0], style),
                        {"kind": "library", "files_a": texts_all[0][1], "files_b": texts, "family": family})
            return None
    ctx.stats["definitions_compared"] += sum(len(f.defs) for f in prog.files)
    return texts_all


# ---------------------------------------------------------------------------------------------------------------
# micro families (bounded-exhaustive)

def prim(n, optional=False):
    return TypeExpr("prim", n, optional=optional)


def lists_family():
    """Every list construct with 0-3 elements (the layouts supply: no commas / commas / trailing comma)."""
    for n in range(4):
        names = ["a", "b", "c"][:n]
        yield ("fields", n), Program([File("M", [Struct("S", [Field(x, prim("bool")) for x in names])])])
        yield ("params", n), Program([File("M", [Interface("I", [Operation("op", [Param(x, prim("int32")) for x in names])])])])
        if n >= 2:
            yield ("returns", n), Program([File("M", [Interface("I", [Operation("op", [], [Param(x, prim("string")) for x in names], True)])])])
        yield ("enumerators", n), Program([File("M", [Enum("E", [Enumerator(x.upper()) for x in names], unchecked=True)])])
        yield ("enumerator-fields", n), Program([File("M", [Enum("E", [Enumerator("A", None, [Field(x, prim("bool")) for x in names])])])])
        if n >= 1:
            bases = [Interface("B%d" % i) for i in range(n)]
            tes = []
            for b in bases:
                t = TypeExpr("named", b.id)
                t.target = b
                tes.append(t)
            yield ("bases", n), Program([File("M", bases + [Interface("I", [], tes)])])
        yield ("attr-args", n), Program([File("M", [Struct("S", [], attrs=[Attr("x::y", names)])])])
        yield ("attr-string-args", n), Program([File("M", [Struct("S", [], attrs=[Attr("x::y", [x + " " + x for x in names])])])])


def enumerator_values_family():
    """Every enumerator-value pattern of length <= 3 over {implicit, explicit 0, explicit max, explicit negative, hex, binary,
    underscored}, for a signed and an unsigned underlying type and for no underlying type."""
    for under in ("int16", "uint8", None, "varint62", "uint64"):
        lo, hi = INTEGRAL_BOUNDS[under] if under else (0, 2 ** 31 - 1)
        choices = {
            "implicit": None,
            "zero": IntLit(0, "0"),
            "max": IntLit(hi, str(hi)),
            "min": IntLit(lo, str(lo)),
            "hex": IntLit(0x1f, "0x1F"),
            "bin": IntLit(5, "0b101"),
            "under": IntLit(1000 if hi >= 1000 else 100, "1_000" if hi >= 1000 else "1_0_0"),
            "hexmax": IntLit(hi, hex(hi)),
            "neg": IntLit(-2, "-2") if lo < 0 else IntLit(2, "2"),
            "neghex": IntLit(-0x10, "-0x10") if lo < 0 else IntLit(0x10, "0x10"),
        }
        keys = list(choices)
        for n in (1, 2, 3):
            for combo in itertools.product(keys, repeat=n):
                ens = []
                prev = None
                used = set()
                ok = True
                for i, k in enumerate(combo):
                    lit = choices[k]
                    v = lit.value if lit is not None else (0 if prev is None else prev + 1)
                    if v in used or v < lo or v > hi:
                        ok = False
                        break
                    used.add(v)
                    prev = v
                    ens.append(Enumerator("E%d" % i, IntLit(lit.value, lit.text) if lit is not None else None))
                if not ok:
                    continue
                ut = prim(under) if under else None
                yield (under, combo), Program([File("M", [Enum("E", ens, ut), Enum("F", [Enumerator("First"), Enumerator("Second")], None)])])


def keyword_identifier_family():
    """Every keyword as an escaped identifier in every identifier position, and as a plain identifier inside attributes."""
    for kw in sorted(KEYWORDS):
        s = Struct(kw, [Field(kw, prim("bool"))])
        t = TypeExpr("named", kw)
        t.target = s
        prog = Program([File("M", [
            s,
            Struct("User", [Field("f", t)]),
            Interface("I" + kw, [Operation(kw, [Param(kw, prim("bool"))], [Param(kw, prim("bool")), Param("other", prim("bool"))], True)]),
            Enum("E" + kw, [Enumerator(kw, None, [Field(kw, prim("int8"))])]),
            Custom("C" + kw, attrs=[Attr("x::" + kw, [kw, kw + " text"])]),
            # an attribute directly followed by a keyword outside the brackets
            Struct("After", [Field("g", TypeExpr("prim", "string", attrs=[Attr(kw + "::" + kw, [kw])]))], attrs=[Attr("a::" + kw)]),
        ])])
        yield kw, prog


def string_argument_family():
    vals = ["", "plain", "with \"quotes\"", "back\\slash", "\\\\", "\\\"", "]", "[[", "]]", "// x", "/* y */", "a,b", "(", ")", "{}",
            "é中文\U0001F600", "tab\there", "'", "#if A", "trailing\\", "\"", "x\"y\"z", "  spaces  "]
    # every ordered sequence of up to 3 pieces from {plain, escaped quote, escaped backslash, 2-, 3- and 4-byte character}: an
    # escape before / after / between multi-byte characters
    pieces = ["ab", "\"", "\\", "\u00e9", "\u20ac", "\U0001F600"]
    for n in (2, 3):
        for combo in itertools.product(pieces, repeat=n):
            v = "".join(combo)
            if v not in vals:
                vals.append(v)
    for v in vals:
        yield v, Program([File("M", [Struct("S", [Field("f", TypeExpr("prim", "bool", attrs=[Attr("p::q", [v, "k"])]))],
                                            attrs=[Attr("a::b", [v]), Attr("c::d", ["x", v, v])])],
                               attrs=[Attr("f::g", [v])], module_attrs=[Attr("m::n", [v])])])


def plan(tier, seed):
    specs = [("micro", "lists"), ("micro", "values", 0), ("micro", "values", 1), ("micro", "values", 2), ("micro", "values", 3),
             ("micro", "keywords"), ("micro", "strings")]
    n = 12000 if tier == "quick" else 200000
    for i in range(32):
        specs.append(("random", n // 32, i))
    return specs


def run_shard(ctx, spec):
    nlay = 4 if ctx.tier == "quick" else 12
    if spec[0] == "micro":
        rng = ctx.rng("micro/" + "/".join(map(str, spec[1:])))
        if spec[1] == "lists":
            for key, prog in lists_family():
                check_program(ctx, prog, rng, 8, "micro-lists", key)
                ctx.stats["micro_list_cases"] += 1
        elif spec[1] == "values":
            for i, (key, prog) in enumerate(enumerator_values_family()):
                if i % 4 == spec[2]:
                    check_program(ctx, prog, rng, 2, "micro-enumerator-values", key)
                    ctx.stats["micro_value_patterns"] += 1
        elif spec[1] == "keywords":
            for key, prog in keyword_identifier_family():
                check_program(ctx, prog, rng, 6, "micro-keywords", key)
                ctx.stats["micro_keyword_cases"] += 1
        elif spec[1] == "strings":
            for key, prog in string_argument_family():
                check_program(ctx, prog, rng, 4, "micro-strings", key)
                ctx.stats["micro_string_cases"] += 1
    else:
        _, count, idx = spec
        rng = ctx.rng("random/%d" % idx)
        for n in range(count):
            prog = gen.valid_program(random.Random(rng.random()))
            res = check_program(ctx, prog, rng, nlay, "random")
            if res and n == 0:
                ctx.sample({"family": "random valid program, layout 'random'", "files": res[5 % len(res)][1]}, limit=2)


def main(tier, seed):
    paths = build.build("release", ("vh",))
    run = core.run_shards(__name__, PROP, tier, seed, paths, plan(tier, seed))
    return core.finish(
        run, "exploration",
        rule=("case = one model program (<= 3 files, <= 6 definitions per file, <= 5 members, type nesting <= 3; identifiers collide "
              "with keywords and across scopes; integer literals in decimal/hex/binary with underscores at range boundaries; "
              "attribute strings with escapes) printed under %d layouts (plain, dense, one token per line, CRLF, tabs, random with "
              "comments and optional commas) and compiled; plus exhaustive micro-families (lists of 0-3 elements, enumerator value "
              "patterns of length <= 3, every keyword as identifier, string arguments). distinct_nontrivial = distinct programs"
              % (4 if tier == "quick" else 12)),
        required={"programs": 5000, "compilations": 20000, "definitions_compared": 10000, "micro_value_patterns": 500,
                  "micro_keyword_cases": 30, "micro_list_cases": 20, "micro_string_cases": 20},
        assumptions=["the identifier invented for an unnamed single return value is not compared",
                     "a backslash in a string argument escapes the next character whatever it is (the statement only says 'unescaped')"],
        exhaustive=False,
    )
