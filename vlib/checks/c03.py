"""C03 - type references bind to the entity the scoping rules designate.

Family 1 (bounded-exhaustive): nested module levels A, A::B, A::B::C (+ sibling A::D, unrelated Z), a definition named X of
each kind (or none) at each level, a referencing definition at each level, every spelling from every referencing position.
The reference resolver (slicegen/resolve.py) says which entity each reference designates; valid references are compiled
together and must bind to exactly that entity, invalid ones are compiled one at a time and must yield E033 / E017.
Family 2: alias chains of length 1-4 with attributes at every link, ending in every type form, used from every position,
across files and modules, and chains with a loop.
Family 3: random larger programs (lookup of every definition, field, enumerator and operation by scoped name).
"""
import itertools
import random

from .. import build, core
from ..slicegen import expect, gen, printer, resolve
from ..slicegen.model import Alias, Attr, Custom, Enum, Enumerator, Field, File, Interface, Operation, Param, Program, Struct, TypeExpr

PROP = "C03"
LEVELS = ["A", "A::B", "A::B::C"]
EXTRA = ["A::D", "Z", "B"]
KINDS = ["struct", "enum", "custom", "alias", "interface", None]
SPELLINGS = ["X", "B::X", "C::X", "A::B::X", "::A::B::X", "::X", "A::X", "X::m", "A", "B", "D::X", "::A::B::C::X", "Z::X", "::Z::X", "A::B::C::X"]
POSITIONS = ["field", "parameter", "return", "alias", "seq-elem", "dict-value", "enumerator-field", "base", "underlying"]


def make_x(kind, module):
    if kind == "struct":
        return Struct("X", [Field("m", TypeExpr("prim", "bool"))])
    if kind == "enum":
        return Enum("X", [Enumerator("m")])
    if kind == "custom":
        return Custom("X")
    if kind == "alias":
        return Alias("X", TypeExpr("prim", "int32"))
    if kind == "interface":
        return Interface("X", [Operation("m")])
    return None


def ref_def(position, spelling, n):
    """A definition named R<n> that references `spelling` from `position`. Returns (definition, TypeExpr of the reference)."""
    t = TypeExpr("named", spelling)
    name = "R%d" % n
    if position == "field":
        return Struct(name, [Field("f", t)]), t
    if position == "parameter":
        return Interface(name, [Operation("o%d" % n, [Param("p", t)])]), t
    if position == "return":
        return Interface(name, [Operation("o%d" % n, [], [Param("returnValue", t, unnamed=True)])]), t
    if position == "alias":
        return Alias(name, t), t
    if position == "seq-elem":
        return Struct(name, [Field("f", TypeExpr("seq", args=[t]))]), t
    if position == "dict-value":
        return Struct(name, [Field("f", TypeExpr("dict", args=[TypeExpr("prim", "string"), t]))]), t
    if position == "enumerator-field":
        return Enum(name, [Enumerator("V", None, [Field("f", t)])]), t
    if position == "base":
        return Interface(name, [], [t]), t
    if position == "underlying":
        return Enum(name, [Enumerator("V")], t), t
    raise AssertionError(position)


def verdict(table, position, spelling, module):
    """('ok', entity) | ('E033',) | ('E017',)"""
    target = resolve.lookup(table, spelling, module)
    if target is None:
        return ("E033",)
    if isinstance(target, tuple):      # a module entry
        return ("E017",)
    if position == "base":
        return ("ok", target) if isinstance(target, Interface) else ("E017",)
    if position == "underlying":
        # only an alias of a primitive can stand for a primitive
        if isinstance(target, Alias):
            final, _, _ = resolve.flatten_alias(table, target)
            if final is not None and final.kind == "prim":
                return ("ok", final)
        return ("E017",)
    if not resolve.is_type(target):
        return ("E017",)
    if isinstance(target, Alias):
        final, _, _ = resolve.flatten_alias(table, target)
        if final is None:
            return ("E033",)
    return ("ok", target)


def find_ref_dump(files, name):
    """Locates the dump of definition R<n> and returns the dump of its reference."""
    for f in files:
        for d in f["contents"]:
            if d["id"] != name:
                continue
            k = d["kind"]
            if k == "struct":
                t = d["fields"][0]["type"]
                while "sequence" in t["def"] or "dictionary" in t["def"]:
                    t = t["def"]["sequence"] if "sequence" in t["def"] else t["def"]["dictionary"][1]
                return t
            if k == "interface":
                if d["bases"]:
                    return d["bases"][0]
                o = d["operations"][0]
                return (o["params"] or o["returns"])[0]["type"]
            if k == "alias":
                return d["underlying"]
            if k == "enum":
                if d["underlying"] is not None:
                    return d["underlying"]
                return d["enumerators"][0]["fields"][0]["type"]
    return None


def bound_matches(dump, v, position):
    """Does the dumped reference designate what the reference resolver says?"""
    d = dump["def"]
    if "unpatched" in d:
        return False, "reference left unpatched"
    target = v[1]
    if position == "underlying":
        return (d.get("primitive") == target.name), "bound to %r, expected primitive %s" % (d, target.name)
    if isinstance(target, Alias):
        # aliases are transparent: X is an alias of int32 in this family
        return (d.get("primitive") == "int32"), "bound to %r, expected the alias target int32" % (d,)
    key = {Struct: "struct", Enum: "enum", Custom: "custom", Interface: "interface"}[type(target)]
    return (d.get(key) == target.scoped()), "bound to %r, expected %s %s" % ({k: v for k, v in d.items() if k != "at"}, key, target.scoped())


def arrangement_cases(idx, nshards, fraction, seed):
    """Yields (placement, extra_placement, ref_level)."""
    c = 0
    for placement in itertools.product(KINDS, repeat=3):
        for extra in itertools.product(["struct", None], repeat=len(EXTRA)):
            for ref_level in LEVELS + ["A::D"]:
                c += 1
                if c % nshards != idx:
                    continue
                if fraction < 1.0 and ((c // nshards) * 7919 + seed) % int(round(1 / fraction)) != 0 and sum(k is not None for k in placement) > 1:
                    continue
                yield placement, extra, ref_level


def build_program(placement, extra, ref_level, refs, order):
    """refs: list of (position, spelling, n). Returns (Program, {n: TypeExpr})."""
    files = []
    for kind, module in list(zip(placement, LEVELS)) + list(zip(extra, EXTRA)):
        x = make_x(kind, module)
        files.append(File(module, [x] if x else []))
    refdefs = []
    tes = {}
    for position, spelling, n in refs:
        d, t = ref_def(position, spelling, n)
        refdefs.append(d)
        tes[n] = t
    files.append(File(ref_level, refdefs))
    if order:
        files.reverse()
    return Program(files), tes


def run_arrangements(ctx, spec):
    _, idx, nshards, fraction = spec
    rng = ctx.rng("arr/%d" % idx)
    batch = []

    def flush():
        if not batch:
            return
        resps = ctx.worker.batch([b[0] for b in batch])
        for (req, judge_fn), r in zip(batch, resps):
            judge_fn(r, req)
        batch.clear()

    for ci, (placement, extra, ref_level) in enumerate(arrangement_cases(idx, nshards, fraction, ctx.seed)):
        # table of what exists
        base, _ = build_program(placement, extra, ref_level, [], 0)
        table = base.table()
        valid, invalid = [], []
        n = 0
        for position in POSITIONS:
            for spelling in SPELLINGS:
                n += 1
                v = verdict(table, position, spelling, ref_level)
                (valid if v[0] == "ok" else invalid).append((position, spelling, n, v))
        order = ci % 2
        ctx.note_case(("arr", placement, extra, ref_level))
        ctx.stats["arrangements"] += 1
        # (1) all valid references together: error-free, each bound to the designated entity
        prog, tes = build_program(placement, extra, ref_level, [(p, s, k) for p, s, k, _ in valid], order)
        texts = printer.print_program(prog)
        req = {"op": "compile", "files": texts, "want": ["ast", "codes"]}

        def judge_valid(r, req, valid=valid, placement=placement, extra=extra, ref_level=ref_level):
            replay = {"kind": "library", "call": "compile_from_strings", "files": req["files"], "family": "arrangement-valid"}
            if "died" in r or r.get("panic"):
                p = r.get("panic") or {"message": "worker " + r["died"], "location": "?"}
                ctx.violate(core.panic_signature(p), "resolution crashed: %s" % p, replay)
                return
            errs = [c for c in r["codes"] if c[1] == "error"]
            if errs:
                replay["codes"] = errs[:5]
                ctx.violate("valid-reference-rejected:" + errs[0][0], "references that all designate a proper entity were rejected: %r (from %s, X placed %s)"
                            % (errs[0], ref_level, placement), replay)
                return
            for position, spelling, k, v in valid:
                d = find_ref_dump(r["files"], "R%d" % k)
                ctx.stats["bindings_checked"] += 1
                if d is None:
                    ctx.violate("ref-definition-missing", "definition R%d not found in the AST" % k, replay)
                    continue
                ok, why = bound_matches(d, v, position)
                if not ok:
                    ctx.violate("wrong-binding:%s:%s" % (position, spelling),
                                "reference '%s' in %s position from module %s (X placed %s/%s): %s" % (spelling, position, ref_level, placement, extra, why), replay)
            # every X and its member must be retrievable by scoped name
            for f in r["files"]:
                for d in f["contents"]:
                    for e in [d] + d.get("fields", []) + d.get("enumerators", []) + d.get("operations", []):
                        ctx.stats["lookups_checked"] += 1
                        if e.get("lookup") != "ok":
                            ctx.violate("find-element-fails:" + e["kind"], "%s %s cannot be retrieved by its scoped name: %r"
                                        % (e["kind"], e["psid"], e.get("lookup")), replay)
        batch.append((req, judge_valid))
        # (2) invalid references one at a time
        for position, spelling, k, v in invalid:
            if fraction < 1.0 and rng.random() > 0.34:
                continue
            prog, tes = build_program(placement, extra, ref_level, [(position, spelling, k)], order)
            texts = printer.print_program(prog)
            req = {"op": "compile", "files": texts, "want": ["codes"]}
            span = tes[k].pos["span"]
            file_name = tes[k].pos["file"]

            def judge_invalid(r, req, position=position, spelling=spelling, v=v, span=span, file_name=file_name,
                              placement=placement, ref_level=ref_level):
                replay = {"kind": "library", "call": "compile_from_strings", "files": req["files"], "family": "arrangement-invalid",
                          "expected": v[0]}
                ctx.stats["invalid_refs_checked"] += 1
                if "died" in r or r.get("panic"):
                    p = r.get("panic") or {"message": "worker " + r["died"], "location": "?"}
                    ctx.violate(core.panic_signature(p), "resolution crashed: %s" % p, replay)
                    return
                errs = [c for c in r["codes"] if c[1] == "error"]
                replay["codes"] = r["codes"][:5]
                if not errs:
                    ctx.violate("invalid-reference-accepted:%s:%s" % (position, v[0]),
                                "reference '%s' in %s position from module %s designates %s but compiled without error (X placed %s)"
                                % (spelling, position, ref_level, "nothing" if v[0] == "E033" else "something of the wrong kind", placement), replay)
                    return
                if not any(c[0] == v[0] for c in errs):
                    ctx.violate("invalid-reference-wrong-code:%s:%s" % (position, v[0]),
                                "reference '%s' in %s position: expected %s, got %s" % (spelling, position, v[0], [c[0] for c in errs]), replay)
                    return
                hit = [c for c in errs if c[0] == v[0]][0]
                sp = hit[2]
                if not sp or sp[4] != file_name or not (span[0], span[1]) <= (sp[0], sp[1]) <= (span[2], span[3]):
                    ctx.violate("invalid-reference-error-elsewhere", "error for '%s' is located at %r, the reference is at %r" % (spelling, sp, span), replay)
            batch.append((req, judge_invalid))
        if len(batch) > 300:
            flush()
    flush()


def run_together(ctx, spec):
    """All referencing modules at once: every valid (module, position, spelling) reference of an arrangement is compiled in ONE
    program, so that resolutions made from different scopes can disturb each other (caches, shared state)."""
    _, idx, nshards, fraction = spec
    items = []
    c = 0
    for placement in itertools.product(KINDS, repeat=3):
        for extra in itertools.product(["struct", None], repeat=len(EXTRA)):
            c += 1
            if c % nshards != idx:
                continue
            if fraction < 1.0 and ((c // nshards) * 7919 + ctx.seed) % int(round(1 / fraction)) != 0:
                continue
            base, _ = build_program(placement, extra, "A", [], 0)
            table = base.table()
            files = list(base.files[:-1])
            valid = []
            n = 0
            ref_levels = LEVELS + ["A::D", "B", "Z"]
            order = list(range(len(ref_levels)))
            random.Random("%s/%d" % (ctx.seed, c)).shuffle(order)
            for li in order:
                level = ref_levels[li]
                refdefs = []
                for position in POSITIONS:
                    for spelling in SPELLINGS:
                        n += 1
                        v = verdict(table, position, spelling, level)
                        if v[0] == "ok":
                            d, t = ref_def(position, spelling, n)
                            refdefs.append(d)
                            valid.append((position, spelling, n, v, level))
                files.append(File(level, refdefs))
            prog = Program(files)
            items.append((printer.print_program(prog), valid, placement, extra))
            ctx.note_case(("together", placement, extra))
    for k in range(0, len(items), 40):
        chunk = items[k:k + 40]
        resps = ctx.worker.batch([{"op": "compile", "files": it[0], "want": ["ast", "codes"]} for it in chunk])
        for (texts, valid, placement, extra), r in zip(chunk, resps):
            ctx.stats["together_programs"] += 1
            replay = {"kind": "library", "call": "compile_from_strings", "files": texts, "family": "arrangement-together"}
            if "died" in r or r.get("panic"):
                p = r.get("panic") or {"message": "worker " + r["died"], "location": "?"}
                ctx.violate(core.panic_signature(p), "resolution crashed: %s" % p, replay)
                continue
            errs = [x for x in r["codes"] if x[1] == "error"]
            if errs:
                replay["codes"] = errs[:5]
                ctx.violate("valid-reference-rejected-together:" + errs[0][0], "references that all designate a proper entity were rejected when "
                            "compiled together: %r (X placed %s/%s)" % (errs[0], placement, extra), replay)
                continue
            for position, spelling, k2, v, level in valid:
                d = find_ref_dump(r["files"], "R%d" % k2)
                ctx.stats["bindings_checked_together"] += 1
                if d is None:
                    ctx.violate("ref-definition-missing", "definition R%d not found in the AST" % k2, replay)
                    break
                ok, why = bound_matches(d, v, position)
                if not ok:
                    ctx.violate("wrong-binding-together:%s:%s" % (position, spelling),
                                "reference '%s' in %s position from module %s (X placed %s/%s), compiled together with references from the "
                                "other modules: %s" % (spelling, position, level, placement, extra, why), replay)
                    break


# ---------------------------------------------------------------------------------------------------------------
# alias chains

ENDS = ["prim", "seq", "dict", "result", "struct", "enum", "custom"]


def chain_program(rng, length, end, position, loop=False, cross=True):
    """Aliases L0 -> L1 -> ... -> end, each with an attribute on its type, spread over modules and written with any spelling that
    designates the next link *from the module of the alias that holds it*; same-named decoys (aliases and end types) live in the
    other modules, so that a lookup made from the wrong scope binds to something else. A use of L0 with its own attribute."""
    mods = ["A", "A::B", "A::B::C", "Z"] if cross else ["A"]
    per_module = {m: [] for m in mods}
    ends = {}
    for m in (["A", "A::B", "Z"] if cross else ["A"]):
        ts = Struct("TS", [Field("x" + m.replace("::", "_"), TypeExpr("prim", "bool"))])
        te = Enum("TE", [Enumerator("V" + m.replace("::", "_"))])
        tc = Custom("TC")
        per_module[m] += [ts, te, tc]
        ends[m] = {"struct": ts, "enum": te, "custom": tc}
    aliases = []
    for i in range(length):
        a = Alias("L%d" % i, TypeExpr("prim", "bool"))
        m = rng.choice(mods)
        per_module[m].append(a)
        aliases.append((a, m))
        # a decoy with the same name elsewhere
        if cross and rng.random() < 0.7:
            dm = rng.choice([x for x in mods if x != m])
            per_module[dm].append(Alias("L%d" % i, TypeExpr("prim", rng.choice(["uint8", "float32", "varint62"]))))
    use_module = rng.choice(mods)
    user_holder = []
    files = [File(m, ds) for m, ds in per_module.items()]
    prog = Program(files)
    table = prog.table()

    def spell(target, from_module):
        options = [sp for sp in resolve.spellings_for(target) if resolve.lookup(table, sp, from_module) is target]
        return rng.choice(options)

    for i, (a, m) in enumerate(aliases):
        attrs = [Attr("link::l%d" % i, ["a%d" % i])] if rng.random() < 0.8 else []
        if i + 1 < length:
            t = TypeExpr("named", spell(aliases[i + 1][0], m), attrs=attrs)
        elif loop:
            t = TypeExpr("named", spell(aliases[rng.randrange(length)][0], m), attrs=attrs)
        elif end == "prim":
            t = TypeExpr("prim", rng.choice(["int32", "string", "float64"]), attrs=attrs)
        else:
            em = rng.choice(list(ends))
            if end == "seq":
                t = TypeExpr("seq", args=[TypeExpr("named", spell(ends[em]["struct"], m), attrs=[Attr("in::ner")])], attrs=attrs)
            elif end == "dict":
                t = TypeExpr("dict", args=[TypeExpr("prim", "string"), TypeExpr("named", spell(ends[em]["struct"], m), optional=True)], attrs=attrs)
            elif end == "result":
                t = TypeExpr("result", args=[TypeExpr("named", spell(ends[em]["enum"], m)), TypeExpr("prim", "string")], attrs=attrs)
            else:
                t = TypeExpr("named", spell(ends[em][end], m), attrs=attrs)
        a.underlying = t
    own = [Attr("use::site", ["u"])] if rng.random() < 0.7 else []
    use_t = TypeExpr("named", spell(aliases[0][0], use_module), optional=rng.random() < 0.5 and position != "alias", attrs=own)
    if position == "field":
        user = Struct("User", [Field("f", use_t)])
    elif position == "parameter":
        user = Interface("User", [Operation("uop", [Param("p", use_t)])])
    elif position == "return":
        user = Interface("User", [Operation("uop", [], [Param("returnValue", use_t, unnamed=True)])])
    elif position == "alias":
        user = Alias("User", use_t)
    elif position == "seq-elem":
        user = Struct("User", [Field("f", TypeExpr("seq", args=[use_t]))])
    elif position == "dict-value":
        user = Struct("User", [Field("f", TypeExpr("dict", args=[TypeExpr("prim", "int32"), use_t]))])
    else:
        user = Enum("User", [Enumerator("V", None, [Field("f", use_t)])])
    per_module[use_module].append(user)
    files = [File(m, ds) for m, ds in per_module.items() if ds]
    rng.shuffle(files)
    return Program(files)


def run_chains(ctx, spec):
    _, count, idx = spec
    rng = ctx.rng("chains/%d" % idx)
    combos = [(l, e, p) for l in (1, 2, 3, 4) for e in ENDS for p in POSITIONS[:7]]
    items = []
    for n in range(count):
        length, end, position = combos[(n * 16 + idx) % len(combos)]
        loop = rng.random() < 0.15
        prog = chain_program(rng, length, end, position, loop=loop, cross=rng.random() < 0.7)
        texts = printer.print_program(prog, [printer.Layout(random.Random(rng.random()), rng.choice(["plain", "dense", "random"])) for _ in prog.files])
        items.append((prog, texts, loop, (length, end, position)))
    resps = ctx.worker.batch([{"op": "compile", "files": it[1], "want": ["ast", "codes"]} for it in items])
    for (prog, texts, loop, key), r in zip(items, resps):
        replay = {"kind": "library", "call": "compile_from_strings", "files": texts, "family": "alias-chain", "chain": key, "loop": loop}
        ctx.note_case(("chain", tuple(texts)))
        ctx.stats["alias_chains"] += 1
        if "died" in r or r.get("panic"):
            p = r.get("panic") or {"message": "worker " + r["died"], "location": "?"}
            ctx.violate(core.panic_signature(p), "alias chain crashed: %s" % p, replay)
            continue
        errs = [c for c in r["codes"] if c[1] == "error"]
        if loop:
            ctx.stats["alias_chain_loops"] += 1
            if not errs:
                ctx.violate("alias-loop-accepted", "alias chain with a loop compiled without error", replay)
            continue
        if errs:
            replay["codes"] = errs[:4]
            ctx.violate("alias-chain-rejected:" + errs[0][0], "well-formed alias chain %r rejected: %r" % (key, errs[0]), replay)
            continue
        problems = expect.diff(expect.exp_program(prog), r["files"], "files")
        if problems:
            replay["differences"] = problems
            ctx.violate("alias-not-transparent:%s:%s" % (key[1], key[2]), "alias chain of length %d ending in %s used as %s: %s"
                        % (key[0], key[1], key[2], problems[0]), replay)
            continue
        # no reference may still designate an alias node
        import json
        if '"alias_ptr": true' in json.dumps(r["files"]):
            ctx.violate("alias-not-flattened", "a patched reference still points at an alias", replay)
        ctx.stats["alias_chains_flattened"] += 1
    if items:
        ctx.sample({"family": "alias chain", "files": items[0][1]}, limit=1)


def run_random(ctx, spec):
    _, count, idx = spec
    rng = ctx.rng("rand/%d" % idx)
    items = []
    for _ in range(count):
        prog = gen.valid_program(random.Random(rng.random()), max_files=4, max_defs=8)
        items.append((prog, printer.print_program(prog)))
    resps = ctx.worker.batch([{"op": "compile", "files": it[1], "want": ["ast", "codes"]} for it in items])
    for (prog, texts), r in zip(items, resps):
        ctx.note_case(("rand", tuple(texts)))
        replay = {"kind": "library", "call": "compile_from_strings", "files": texts, "family": "random"}
        if "died" in r or r.get("panic") or r["codes"]:
            ctx.stats["random_skipped"] += 1      # crashes / diagnostics on valid programs are C01 / C02 matters
            continue
        problems = [p for p in expect.diff(expect.exp_program(prog), r["files"], "files") if ".type" in p or ".def" in p or "lookup" in p or "bases" in p or "underlying" in p]
        ctx.stats["random_programs"] += 1
        if problems:
            replay["differences"] = problems
            ctx.violate("random-program-binding", "binding differs from the reference resolver: %s" % problems[0], replay)


# ---------------------------------------------------------------------------------------------------------------
# module paths with repeated segment names (A, A::A, A::B::A, ...): "innermost scope outwards" must be taken literally

RPATHS = [p for n in (1, 2, 3) for p in ("::".join(x) for x in itertools.product("AB", repeat=n))]
RSPELLINGS = ["X", "::X", "A", "A::A", "X::m"] + [p + "::X" for p in RPATHS] + ["::" + p + "::X" for p in RPATHS]
RPOSITIONS = ["field", "parameter", "alias", "base", "underlying", "seq-elem", "return"]


def run_repeat(ctx, spec):
    _, count, idx = spec
    rng = ctx.rng("rep/%d" % idx)
    items = []
    for ci in range(count):
        placed = [(p, rng.choice(["struct", "struct", "enum", "custom", "alias", "interface"])) for p in RPATHS if rng.random() < 0.4]
        ref_levels = rng.sample(RPATHS, 3)
        files = [File(p, [make_x(k, p)]) for p, k in placed]
        # modules that only exist as referencing scopes are declared too (they hold the referencing definitions)
        table = Program(files + [File(l, []) for l in ref_levels]).table()
        valid, invalid = [], []
        n = 0
        for level in ref_levels:
            refdefs = []
            for position in rng.sample(RPOSITIONS, 3):
                for spelling in RSPELLINGS:
                    n += 1
                    v = verdict(table, position, spelling, level)
                    if v[0] == "ok":
                        d, t = ref_def(position, spelling, n)
                        refdefs.append(d)
                        valid.append((position, spelling, n, v, level))
                    elif rng.random() < 0.03:
                        invalid.append((position, spelling, n, v, level))
            files.append(File(level, refdefs))
        if rng.random() < 0.5:
            files.reverse()
        prog = Program(files)
        items.append(("valid", printer.print_program(prog), valid, placed))
        for position, spelling, n, v, level in invalid[:4]:
            d, t = ref_def(position, spelling, n)
            fs = [File(p, [make_x(k, p)]) for p, k in placed] + [File(l, []) for l in ref_levels if l != level] + [File(level, [d])]
            items.append(("invalid", printer.print_program(Program(fs)), (position, spelling, v, level), placed))
        ctx.note_case(("repeat", tuple(placed), tuple(ref_levels)))
    for k in range(0, len(items), 60):
        chunk = items[k:k + 60]
        resps = ctx.worker.batch([{"op": "compile", "files": it[1], "want": ["ast", "codes"] if it[0] == "valid" else ["codes"]} for it in chunk])
        for (what, texts, info, placed), r in zip(chunk, resps):
            replay = {"kind": "library", "call": "compile_from_strings", "files": texts, "family": "repeated-segments-" + what}
            if "died" in r or r.get("panic"):
                p = r.get("panic") or {"message": "worker " + r["died"], "location": "?"}
                ctx.violate(core.panic_signature(p), "resolution crashed: %s" % p, replay)
                continue
            errs = [x for x in r["codes"] if x[1] == "error"]
            if what == "invalid":
                position, spelling, v, level = info
                ctx.stats["repeat_invalid_refs_checked"] += 1
                if not errs:
                    ctx.violate("invalid-reference-accepted:%s:%s" % (position, v[0]), "reference '%s' in %s position from module %s designates %s "
                                "but compiled without error (X placed in %s)" % (spelling, position, level,
                                                                                "nothing" if v[0] == "E033" else "something of the wrong kind", placed), replay)
                elif not any(x[0] == v[0] for x in errs):
                    ctx.violate("invalid-reference-wrong-code:%s:%s" % (position, v[0]), "reference '%s' in %s position from %s: expected %s, got %s"
                                % (spelling, position, level, v[0], [x[0] for x in errs]), replay)
                continue
            ctx.stats["repeat_programs"] += 1
            if errs:
                replay["codes"] = errs[:5]
                ctx.violate("valid-reference-rejected-repeat:" + errs[0][0], "references that all designate a proper entity were rejected: %r "
                            "(X placed in %s)" % (errs[0], placed), replay)
                continue
            for position, spelling, k2, v, level in info:
                d = find_ref_dump(r["files"], "R%d" % k2)
                ctx.stats["repeat_bindings_checked"] += 1
                if d is None:
                    ctx.violate("ref-definition-missing", "definition R%d not found in the AST" % k2, replay)
                    break
                ok, why = bound_matches(d, v, position)
                if not ok:
                    ctx.violate("wrong-binding-repeat:%s" % position, "reference '%s' in %s position from module %s (X placed in %s): %s"
                                % (spelling, position, level, placed, why), replay)
                    break
    if items:
        ctx.sample({"family": "module paths with repeated segments", "files": items[0][1]}, limit=1)


# ---------------------------------------------------------------------------------------------------------------
# names that exist both as a module path and as a definition / member path

def clash_cases():
    kinds = {"struct": "struct %s { %s: bool }", "enum": "enum %s { %s }", "interface": "interface %s { %s() }",
             "enumf": "enum %s { V(%s: bool) }"}
    for p in ("A", "A::B"):
        for kind, tpl in kinds.items():
            for other in ("{p}::N", "{p}::N::m", "{p}::N::m::Q", "{p}::N::Q", "{p}::Other::m", "{p}::N::V", "{p}::N::V::m"):
                q = other.format(p=p)
                f1 = "module %s\n%s\n" % (p, tpl % ("N", "m"))
                f2 = "module %s\nstruct Z { x: bool }\n" % q
                f3 = "module User\nstruct U { z: ::%s::Z }\n" % q
                for order in itertools.permutations(range(3)):
                    fs = [f1, f2, f3]
                    yield (p, kind, q), order, [fs[i] for i in order]


def run_clash(ctx, spec):
    """If such a program is accepted at all, it must be accepted in every file order, and then every definition and member
    must be retrievable by its scoped name and references must bind identically."""
    cases = list(clash_cases())
    resps = ctx.worker.batch([{"op": "compile", "files": c[2], "want": ["ast", "codes"]} for c in cases])
    by_key = {}
    for (key, order, texts), r in zip(cases, resps):
        ctx.note_case(("clash", key, order))
        ctx.stats["clash_cases"] += 1
        replay = {"kind": "library", "call": "compile_from_strings", "files": texts, "family": "module-vs-definition-names"}
        if "died" in r or r.get("panic"):
            p = r.get("panic") or {"message": "worker " + r["died"], "location": "?"}
            ctx.violate(core.panic_signature(p), "resolution crashed: %s" % p, replay)
            continue
        errs = sorted(set(x[0] for x in r["codes"] if x[1] == "error"))
        by_key.setdefault(key, []).append((order, bool(errs), texts))
        if errs:
            continue
        ctx.stats["clash_accepted"] += 1
        for f in r["files"]:
            for d in f["contents"]:
                members = d.get("fields", []) + d.get("enumerators", []) + d.get("operations", [])
                for e in [d] + members + [x for m in members for x in (m.get("fields") or [])]:
                    ctx.stats["lookups_checked"] += 1
                    if e.get("lookup") != "ok":
                        ctx.violate("find-element-fails:" + e["kind"], "%s %s cannot be retrieved by its scoped name in an accepted program: %r"
                                    % (e["kind"], e["psid"], e.get("lookup")), replay)
    for key, outs in by_key.items():
        if len(set(o[1] for o in outs)) != 1:
            acc = [o for o in outs if not o[1]][0]
            ctx.violate("acceptance-depends-on-file-order", "module %s next to %s %s::N: accepted in file order %r, rejected in another"
                        % (key[2], key[1], key[0], acc[0]), {"kind": "library", "call": "compile_from_strings", "files": acc[2],
                                                             "family": "module-vs-definition-names"})


def run_implied(ctx, spec):
    """Modules that are only implied (enclosing modules of a declared one): a name that designates one designates a module -
    never something of the same name further out - whether or not another file spells that module out."""
    path = ["A", "B", "C", "D"]
    items = []
    n = 0
    for depth in (3, 4):
        ref_level = "::".join(path[:depth])
        for k in range(1, depth):                # the implied module path[:k+1], named path[k]
            name = path[k]
            for j in range(1, k + 1):            # a definition of that name in an enclosing module further out
                outer = "::".join(path[:j])
                if j == k:
                    continue                     # that would be the module's own name: a redefinition
                for kind in ("struct", "enum", "custom", "alias"):
                    for spelled_out in (False, True):
                        for position in ("field", "parameter", "alias", "seq-elem"):
                            for spelling in (name, path[k - 1] + "::" + name if k >= 1 else name):
                                n += 1
                                x = make_x(kind, outer)
                                x.id = name
                                files = [File(outer, [x])]
                                if spelled_out:
                                    files.append(File("::".join(path[:k + 1]), []))
                                d, t = ref_def(position, spelling, n)
                                files.append(File(ref_level, [d]))
                                if n % 2:
                                    files.reverse()
                                prog = Program(files)
                                v = verdict(prog.table(), position, spelling, ref_level)
                                items.append((printer.print_program(prog), position, spelling, v, ref_level, n, spelled_out))
    resps = ctx.worker.batch([{"op": "compile", "files": it[0], "want": ["ast", "codes"]} for it in items])
    for (texts, position, spelling, v, ref_level, k2, spelled_out), r in zip(items, resps):
        ctx.note_case(("implied", tuple(texts)))
        ctx.stats["implied_module_cases"] += 1
        replay = {"kind": "library", "call": "compile_from_strings", "files": texts, "family": "implied-modules", "expected": v[0],
                  "enclosing_module_spelled_out_by_a_file": spelled_out}
        if "died" in r or r.get("panic"):
            p = r.get("panic") or {"message": "worker " + r["died"], "location": "?"}
            ctx.violate(core.panic_signature(p), "resolution crashed: %s" % p, replay)
            continue
        errs = [x for x in r["codes"] if x[1] == "error"]
        replay["codes"] = errs[:4]
        if v[0] == "ok":
            if errs:
                ctx.violate("valid-reference-rejected-implied:" + errs[0][0], "reference '%s' from %s designates %s but was rejected: %r"
                            % (spelling, ref_level, v[1].scoped(), errs[0]), replay)
                continue
            d = find_ref_dump(r["files"], "R%d" % k2)
            ok, why = bound_matches(d, v, position) if d else (False, "reference not found in the AST")
            if not ok:
                ctx.violate("wrong-binding-implied:" + position, "reference '%s' in %s position from module %s: %s" % (spelling, position, ref_level, why), replay)
        else:
            if not errs:
                ctx.violate("invalid-reference-accepted:implied-module:" + v[0], "reference '%s' in %s position from module %s designates %s (an enclosing "
                            "module is met first on the way out) but compiled without error" % (spelling, position, ref_level,
                                                                                             "a module" if v[0] == "E017" else "nothing"), replay)
            elif not any(x[0] == v[0] for x in errs):
                ctx.violate("invalid-reference-wrong-code:implied-module:" + v[0], "reference '%s' from %s: expected %s, got %s"
                            % (spelling, ref_level, v[0], [x[0] for x in errs]), replay)


def run_primitive_namesakes(ctx, spec):
    """A module, a definition or a member named like a primitive (written with a backslash) somewhere in the compilation: the
    keyword - directly, through an alias, through a chain of aliases, inside anonymous types - still designates the primitive,
    in every file order; the escaped spelling designates the user's definition where one is in scope."""
    from ..slicegen.model import PRIMITIVES
    items = []
    for P in PRIMITIVES:
        user = ("module M\ntypealias T = {P}\ntypealias U = T\ntypealias V = Sequence<U>\nstruct S {{ a: T, b: U, c: {P}, d: Sequence<T>, e: V, "
                "f: Dictionary<string, U>? }}\ninterface I {{ op(p: T, q: {P}) -> U\n op2() -> (x: T, y: Sequence<{P}>) }}\n").format(P=P)
        namesakes = [
            ("top-level-module", "module \\%s\nstruct Holder { x: bool }\n" % P),
            ("nested-module", "module Outer::\\%s\nstruct Holder { x: bool }\n" % P),
            ("module-with-nested", "module \\%s::Inner\nstruct Holder { x: bool }\n" % P),
            ("definition-elsewhere", "module Other\nstruct \\%s { x: bool }\nstruct W { w: \\%s }\n" % (P, P)),
            ("member", "module Other\nstruct W { \\%s: bool }\nenum E { \\%s }\ninterface J { \\%s(\\%s: bool) }\n" % (P, P, P, P)),
            ("two-modules", "module \\%s\ncustom K\n" % P),
        ]
        for nname, other in namesakes:
            for order in ("user-first", "user-last"):
                texts = [user, other] if order == "user-first" else [other, user]
                if nname == "two-modules":
                    texts = texts + ["module \\%s\nstruct Again { x: bool }\n" % P]
                items.append((P, nname, order, texts))
    resps = ctx.worker.batch([{"op": "compile", "files": it[3], "want": ["ast", "codes"]} for it in items])
    for (P, nname, order, texts), r in zip(items, resps):
        ctx.note_case(("primitive-namesake", P, nname, order))
        ctx.stats["primitive_namesake_cases"] += 1
        replay = {"kind": "library", "call": "compile_from_strings", "files": texts, "family": "primitive-namesakes", "primitive": P, "namesake": nname}
        if "died" in r or r.get("panic"):
            p = r.get("panic") or {"message": "worker " + r["died"], "location": "?"}
            ctx.violate(core.panic_signature(p), "resolution crashed: %s" % p, replay)
            continue
        errs = [x for x in r["codes"] if x[1] == "error"]
        if errs:
            replay["codes"] = errs[:4]
            ctx.violate("valid-reference-rejected-primitive-namesake:" + errs[0][0], "the keyword %s (directly or through aliases) was rejected because a %s "
                        "named \\%s exists: %r" % (P, nname, P, errs[0]), replay)
            continue
        kinds = []

        def walk(x):
            if isinstance(x, dict):
                if isinstance(x.get("def"), dict) and "primitive" in x["def"]:
                    kinds.append(x["def"]["primitive"])
                for v in x.values():
                    walk(v)
            elif isinstance(x, list):
                for v in x:
                    walk(v)
        walk(r["files"])
        # the user file writes the keyword four times directly (T = P, c: P, q: P, Sequence<P>)
        if kinds.count(P) < 4:
            replay["primitive_references_found"] = kinds
            ctx.violate("primitive-keyword-bound-elsewhere", "the keyword %s is written 4 times as a type; %d of the references are bound to the "
                        "primitive" % (P, kinds.count(P)), replay)


def run_shard(ctx, spec):
    {"primitives": run_primitive_namesakes, "implied": run_implied, "repeat": run_repeat, "clash": run_clash, "arr": run_arrangements, "together": run_together, "chains": run_chains, "random": run_random}[spec[0]](ctx, spec)


def plan(tier, seed):
    frac = 1.0
    specs = [("arr", i, 32, frac) for i in range(32)]
    specs += [("together", i, 16, 1.0) for i in range(16)]
    n = 10000 if tier == "quick" else 400000
    specs += [("chains", n // 16, i) for i in range(16)]
    n = 3000 if tier == "quick" else 150000
    specs += [("random", n // 16, i) for i in range(16)]
    n = 1600 if tier == "quick" else 100000
    specs += [("repeat", n // 16, i) for i in range(16)]
    specs += [("clash",), ("implied",), ("primitives",)]
    return specs


def main(tier, seed):
    paths = build.build("release", ("vh",))
    run = core.run_shards(__name__, PROP, tier, seed, paths, plan(tier, seed))
    return core.finish(
        run, "exploration",
        rule=("arrangements = X of kind {struct, enum, custom, alias, interface, none} at each of A, A::B, A::B::C x {struct, none} in "
              "A::D and Z x referencing module in {A, A::B, A::B::C, A::D} (3456, all in thorough; quick: all with <= 1 X plus a "
              "seed-rotated tenth of the rest); per arrangement %d spellings x %d positions are classified by the reference resolver; "
              "the valid ones are compiled together (must be error-free and bound to the designated entity), the invalid ones one "
              "at a time (must give E033 / E017 at the reference). Alias chains of length 1-4, attributes at each link, 7 end "
              "forms x 7 positions, across files/modules, 15%% with a loop. Random programs: lookup by scoped name. Repeated-segment "
              "family: X of random kinds in a random subset of all 14 module paths of depth <= 3 over {A, B} (so that A, A::A, "
              "A::B::A ... coexist), 3 referencing modules x 3 positions x 33 spellings, valid ones compiled together, a sample of the "
              "invalid ones singly. Clash family: a definition / member path that is also a module path, in every file order "
              "(acceptance must not depend on the order; accepted programs must keep every element retrievable). "
              "distinct_nontrivial = distinct arrangements / chain programs / random programs" % (len(SPELLINGS), len(POSITIONS))),
        required={"arrangements": 300, "bindings_checked": 3000, "invalid_refs_checked": 3000, "alias_chains_flattened": 500,
                  "alias_chain_loops": 50, "lookups_checked": 1000, "random_programs": 100, "together_programs": 200, "bindings_checked_together": 10000,
                  "repeat_programs": 1000, "repeat_bindings_checked": 20000, "repeat_invalid_refs_checked": 500, "clash_cases": 300, "implied_module_cases": 200},
        assumptions=["first match wins, then its kind is checked (a wrong-kind inner match is an error, the search does not continue)",
                     "carried alias attributes are compared as a multiset after the use site's own attributes"],
        exhaustive=True,
        extra_coverage={"exhaustive_space": "6^3 x 2^2 placements of X x 4 referencing modules x %d spellings x %d positions" % (len(SPELLINGS), len(POSITIONS))},
    )
