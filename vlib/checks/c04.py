"""C04 - accepted programs are well-formed; every rule violation is diagnosed.

Accept side: model-generated well-formed programs must compile without error. Reject side: one injector per rule of the
statement, at its boundary values, appended to a well-formed host program; the emitted error codes must be a non-empty
subset of the codes that belong to the violated rule(s), and for a single violation must contain that rule's code.
Small-scope exhaustive families decide tag/optional/compact assignments, key types and stream placements.
"""
import itertools
import random

from .. import build, core
from ..slicegen import gen, printer
from ..slicegen.model import INTEGRAL_BOUNDS

PROP = "C04"


def injectors():
    """Yields (rule, codes, snippet). Snippets are self-contained definitions using names that start with Inj."""
    out = []

    def add(rule, codes, text):
        out.append((rule, set(codes), text))

    # ---- names unique within their scope (E010)
    add("unique-names/fields", ["E010"], "struct InjA { a: bool, a: int32 }")
    add("unique-names/fields-far", ["E010"], "struct InjA { a: bool, b: bool, c: bool, a: bool }")
    add("unique-names/parameters", ["E010"], "interface InjA { injop(a: bool, a: bool) }")
    add("unique-names/return-members", ["E010"], "interface InjA { injop() -> (a: bool, a: bool) }")
    add("unique-names/enumerators", ["E010"], "enum InjA { X, Y, X }")
    add("unique-names/enumerator-fields", ["E010"], "enum InjA { X(a: bool, a: bool) }")
    add("unique-names/enumerator-fields-2", ["E010"], "enum InjA { W, X(a: bool, b: string, a: int32?) = 4 }")
    add("unique-names/operations", ["E010"], "interface InjA { injop() injop() }")
    add("unique-names/definitions", ["E010"], "struct InjA {} struct InjA {}")
    add("unique-names/definitions-kinds", ["E010"], "struct InjA {} enum InjA { X }")
    add("unique-names/definitions-alias", ["E010"], "custom InjA typealias InjA = bool")
    add("unique-names/escaped", ["E010"], "struct InjA { \\a: bool, a: bool }")
    # ---- no redeclaration of an inherited operation (E011)
    add("inherited-operation", ["E011"], "interface InjB { injop() } interface InjA : InjB { injop() }")
    add("inherited-operation/transitive", ["E011"], "interface InjC { injop() } interface InjB : InjC {} interface InjA : InjB { injop(a: bool) }")
    add("inherited-operation/diamond", ["E011"], "interface InjD { injop() } interface InjB : InjD {} interface InjC : InjD {} interface InjA : InjB, InjC { injop() }")
    # ---- tags
    add("tags/unique", ["E012"], "struct InjA { tag(1) a: bool?, tag(1) b: bool? }")
    add("tags/unique-bases", ["E012"], "struct InjA { tag(16) a: bool?, b: bool, tag(0x10) c: bool? }")
    add("tags/unique-params", ["E012"], "interface InjA { injop(tag(2) a: bool?, tag(2) b: bool?) }")
    add("tags/unique-returns", ["E012"], "interface InjA { injop() -> (tag(2) a: bool?, tag(2) b: bool?) }")
    add("tags/unique-enumerator-fields", ["E012"], "enum InjA { X(tag(3) a: bool?, tag(3) b: bool?) }")
    add("tags/range-negative", ["E021"], "struct InjA { tag(-1) a: bool? }")
    add("tags/range-2^31", ["E021"], "struct InjA { tag(2147483648) a: bool? }")
    add("tags/range-2^31-hex", ["E021"], "struct InjA { tag(0x8000_0000) a: bool? }")
    add("tags/range-2^127", ["E021", "E030"], "struct InjA { tag(170141183460469231731687303715884105728) a: bool? }")
    add("tags/range-2^127-1", ["E021"], "struct InjA { tag(170141183460469231731687303715884105727) a: bool? }")
    add("tags/optional-only", ["E016"], "struct InjA { tag(1) a: bool }")
    add("tags/optional-only-param", ["E016"], "interface InjA { injop(tag(1) a: Sequence<bool>) }")
    add("tags/optional-only-return", ["E016"], "interface InjA { injop() -> tag(1) bool }")
    add("tags/optional-only-enumerator-field", ["E016"], "enum InjA { X(tag(1) a: string) }")
    # ---- compact types
    add("compact/no-tags-struct", ["E015"], "compact struct InjA { tag(1) a: bool? }")
    add("compact/no-tags-enum", ["E015"], "compact enum InjA { X(tag(1) a: bool?) }")
    add("compact/struct-non-empty", ["E018"], "compact struct InjA {}")
    add("compact/enum-not-unchecked", ["E036"], "compact unchecked enum InjA { X }")
    add("compact/enum-not-backed", ["E036"], "compact enum InjA : uint8 { X }")
    # ---- enumerator values
    add("values/unique", ["E022"], "enum InjA : uint8 { X = 1, Y = 1 }")
    add("values/unique-implicit-after-explicit", ["E022"], "enum InjA : uint8 { X = 1, Y = 0, Z }")
    add("values/unique-bases", ["E022"], "enum InjA : int32 { X = 0x10, Y = 16 }")
    add("values/unique-no-underlying", ["E022"], "enum InjA { X, Y = 0 }")
    for t, (lo, hi) in INTEGRAL_BOUNDS.items():
        add("values/range-%s-max+1" % t, ["E020"], "enum InjA : %s { X = %d }" % (t, hi + 1))
        add("values/range-%s-min-1" % t, ["E020"], "enum InjA : %s { X = %d }" % (t, lo - 1))
        add("values/range-%s-implicit-after-max" % t, ["E020"], "enum InjA : %s { X = %d, Y }" % (t, hi))
    add("values/range-no-underlying-negative", ["E020"], "enum InjA { X = -1 }")
    add("values/range-no-underlying-2^31", ["E020"], "enum InjA { X = 2147483648 }")
    add("values/range-no-underlying-implicit", ["E020"], "enum InjA { X = 2147483647, Y }")
    # ---- underlying types
    for t in ("float32", "float64", "string", "bool"):
        add("underlying/integral-%s" % t, ["E009"], "enum InjA : %s { X }" % t)
    add("underlying/non-optional", ["E007"], "enum InjA : uint8? { X }")
    add("underlying/no-fields", ["E035"], "enum InjA : uint8 { X(a: bool) }")
    add("underlying/no-fields-second", ["E035"], "enum InjA : int32 { X, Y(a: bool, b: bool) = 5 }")
    add("enum/checked-non-empty", ["E008"], "enum InjA {}")
    add("enum/checked-non-empty-backed", ["E008"], "enum InjA : uint8 {}")
    # ---- dictionary keys
    for t in ("float32", "float64"):
        add("keys/%s" % t, ["E005"], "struct InjA { d: Dictionary<%s, bool> }" % t)
    add("keys/optional", ["E003"], "struct InjA { d: Dictionary<int32?, bool> }")
    add("keys/sequence", ["E005"], "struct InjA { d: Dictionary<Sequence<bool>, bool> }")
    add("keys/dictionary", ["E005"], "struct InjA { d: Dictionary<Dictionary<bool, bool>, bool> }")
    add("keys/result", ["E005"], "struct InjA { d: Dictionary<Result<bool, bool>, bool> }")
    add("keys/non-compact-struct", ["E004"], "struct InjK { a: bool } struct InjA { d: Dictionary<InjK, bool> }")
    add("keys/compact-struct-bad-field", ["E006"], "compact struct InjK { a: bool, b: float32 } struct InjA { d: Dictionary<InjK, bool> }")
    add("keys/compact-struct-optional-field", ["E006"], "compact struct InjK { a: bool? } struct InjA { d: Dictionary<InjK, bool> }")
    add("keys/compact-struct-nested-bad", ["E006"], "compact struct InjL { x: Sequence<bool> } compact struct InjK { a: bool, l: InjL } struct InjA { d: Dictionary<InjK, bool> }")
    add("keys/enum-without-underlying", ["E005"], "enum InjK { X } struct InjA { d: Dictionary<InjK, bool> }")
    add("keys/enum-with-fields", ["E005"], "enum InjK { X(a: bool) } struct InjA { d: Dictionary<InjK, bool> }")
    add("keys/alias-of-float", ["E005"], "typealias InjK = float64 struct InjA { d: Dictionary<InjK, bool> }")
    add("keys/in-parameter", ["E005"], "interface InjA { injop(d: Dictionary<float32, bool>) }")
    add("keys/in-return", ["E005"], "interface InjA { injop() -> Dictionary<float32, bool> }")
    add("keys/nested-in-sequence", ["E005"], "struct InjA { d: Sequence<Dictionary<float32, bool>> }")
    add("keys/nested-in-value", ["E005"], "struct InjA { d: Dictionary<bool, Dictionary<float32, bool>> }")
    add("keys/in-alias", ["E005"], "typealias InjA = Dictionary<float32, bool>")
    add("keys/in-enumerator-field", ["E005"], "enum InjA { X(d: Dictionary<float32, bool>) }")
    # ---- stream
    add("stream/last-parameter", ["E013"], "interface InjA { injop(a: stream bool, b: bool) }")
    add("stream/last-of-three", ["E013"], "interface InjA { injop(a: bool, b: stream bool, c: bool) }")
    add("stream/single", ["E013", "E029"], "interface InjA { injop(a: stream bool, b: stream bool) }")
    add("stream/last-return", ["E013"], "interface InjA { injop() -> (a: stream bool, b: bool) }")
    add("stream/single-return", ["E013", "E029"], "interface InjA { injop() -> (a: stream bool, b: stream bool) }")
    add("stream/three", ["E013", "E029"], "interface InjA { injop(a: stream bool, b: stream bool, c: stream bool) }")
    # ---- return tuples
    add("tuple/empty", ["E014"], "interface InjA { injop() -> () }")
    add("tuple/single", ["E014"], "interface InjA { injop() -> (a: bool) }")
    # ---- alias of optional
    add("alias/optional", ["E034"], "typealias InjA = bool?")
    add("alias/optional-sequence", ["E034"], "typealias InjA = Sequence<bool>?")
    add("alias/optional-named", ["E034"], "struct InjS {} typealias InjA = InjS?")
    # ---- attributes
    places = {
        "struct": "%s struct InjA {}", "field": "struct InjA { %s a: bool }", "interface": "%s interface InjA {}",
        "operation-void": "interface InjA { %s injop() }", "operation-ret": "interface InjA { %s injop() -> bool }",
        "parameter": "interface InjA { injop(%s a: bool) }", "return-member": "interface InjA { injop() -> (%s a: bool, b: bool) }",
        "enum": "%s enum InjA { X }", "enumerator": "enum InjA { %s X }", "enumerator-field": "enum InjA { X(%s a: bool) }",
        "custom": "%s custom InjA", "alias": "%s typealias InjA = bool", "typeref": "struct InjA { a: %s bool }",
        "typeref-nested": "struct InjA { a: Sequence<%s bool> }",
        # every other place a type can be written: all of them are type references
        "typeref-base": "interface InjB {} interface InjA : %s InjB {}", "typeref-second-base": "interface InjB {} interface InjC {} interface InjA : InjB, %s InjC {}",
        "typeref-underlying": "enum InjA : %s uint8 { X }", "typeref-alias-target": "typealias InjA = %s bool",
        "typeref-parameter": "interface InjA { injop(a: %s bool) }", "typeref-return": "interface InjA { injop() -> %s bool }",
        "typeref-return-member": "interface InjA { injop() -> (a: %s bool, b: bool) }", "typeref-enumerator-field": "enum InjA { X(a: %s bool) }",
        "typeref-dict-key": "struct InjA { a: Dictionary<%s string, bool> }", "typeref-dict-value": "struct InjA { a: Dictionary<string, %s bool> }",
        "typeref-result-ok": "struct InjA { a: Result<%s bool, string> }", "typeref-result-err": "struct InjA { a: Result<bool, %s string> }",
        "typeref-named": "struct InjS {} struct InjA { a: %s InjS }", "typeref-stream": "interface InjA { injop(a: stream %s bool) }",
    }
    typerefs = {x for x in places if x.startswith("typeref")}
    legal = {
        "allow(All)": set(places) - typerefs,
        "deprecated": set(places) - typerefs - {"parameter", "return-member"},
        "deprecated(\"why\")": set(places) - typerefs - {"parameter", "return-member"},
        "compress(Args)": {"operation-void", "operation-ret"},
        "slicedFormat(Return)": {"operation-void", "operation-ret"},
        "oneway": {"operation-void"},
    }
    for attr, ok in legal.items():
        for place, tmpl in places.items():
            if place not in ok:
                add("attributes/legal-place/%s-on-%s" % (attr.split("(")[0], place), ["E023"], tmpl % ("[%s]" % attr))
    for place in sorted(typerefs):
        add("attributes/not-repeated/deprecated-on-" + place, ["E023", "E026"], places[place] % "[deprecated] [deprecated]")
    add("attributes/legal-place/allow-on-module", ["E023"], None)     # handled as a file-level case below
    add("attributes/well-formed/allow-no-args", ["E028"], "[allow] struct InjA {}")
    add("attributes/well-formed/allow-unknown", ["E027"], "[allow(Nope)] struct InjA {}")
    add("attributes/well-formed/allow-wrong-case", ["E027"], "[allow(deprecated)] struct InjA {}")
    add("attributes/well-formed/allow-duplicate-file", ["E027"], "[allow(DuplicateFile)] struct InjA {}")
    add("attributes/well-formed/allow-second-bad", ["E027"], "[allow(All, Nope)] struct InjA {}")
    add("attributes/well-formed/deprecated-two-args", ["E028"], "[deprecated(\"a\", \"b\")] struct InjA {}")
    add("attributes/well-formed/compress-no-args", ["E028"], "interface InjA { [compress] injop() }")
    add("attributes/well-formed/compress-bad-arg", ["E027"], "interface InjA { [compress(Both)] injop() }")
    add("attributes/well-formed/compress-wrong-case", ["E027"], "interface InjA { [compress(args)] injop() }")
    add("attributes/well-formed/sliced-no-args", ["E028"], "interface InjA { [slicedFormat] injop() }")
    add("attributes/well-formed/sliced-bad-arg", ["E027"], "interface InjA { [slicedFormat(Args, X)] injop() }")
    add("attributes/well-formed/oneway-arg", ["E028"], "interface InjA { [oneway(x)] injop() }")
    add("attributes/not-repeated/deprecated", ["E026"], "[deprecated] [deprecated(\"x\")] struct InjA {}")
    add("attributes/not-repeated/compress", ["E026"], "interface InjA { [compress(Args)] [compress(Return)] injop() }")
    add("attributes/not-repeated/oneway", ["E026"], "interface InjA { [oneway] [oneway] injop() }")
    add("attributes/not-repeated/sliced", ["E026"], "interface InjA { [slicedFormat(Args)] [x::y] [slicedFormat(Args)] injop() }")
    add("attributes/known/unknown", ["E024"], "[foo] struct InjA {}")
    add("attributes/known/unknown-args", ["E024"], "struct InjA { [bar(1x, \"y\")] a: bool }".replace("1x", "x1"))
    add("attributes/known/wrong-case", ["E024"], "[Deprecated] struct InjA {}")
    return [o for o in out if o[2] is not None]


def file_level_cases():
    """Whole-file cases (module rules, file attributes)."""
    yield "module/required", {"E002"}, ["struct S {}\n"]
    yield "module/required-2", {"E002"}, ["// comment\ncustom C\n"]
    yield "module/before-definitions", {"E002"}, ["struct S {}\nmodule M\n"]
    yield "module/single", {"E002"}, ["module M\nstruct S {}\nmodule N\nstruct T {}\n"]
    yield "attributes/legal-place/allow-on-module", {"E023"}, ["[allow(All)] module M\nstruct S {}\n"]
    yield "attributes/legal-place/deprecated-on-module", {"E023"}, ["[deprecated] module M\nstruct S {}\n"]
    yield "attributes/legal-place/deprecated-on-file", {"E023"}, ["[[deprecated]]\nmodule M\nstruct S {}\n"]
    yield "attributes/legal-place/oneway-on-file", {"E023"}, ["[[oneway]]\nmodule M\nstruct S {}\n"]
    yield "attributes/legal-place/compress-on-module", {"E023"}, ["[compress(Args)] module M\nstruct S {}\n"]
    # file attributes of a file that holds no module are validated like any other
    for i, attr in enumerate(["deprecated", "oneway", "compress(Args)", "slicedFormat(Args)", "deprecated(\"x\")"]):
        for body in ("", "// nothing else\n", "#if NOPE\nmodule Hidden\n#endif\n"):
            yield "attributes/legal-place/%s-on-module-less-file" % attr.split("(")[0], {"E023"}, ["[[%s]]\n%s" % (attr, body)]
            yield "attributes/legal-place/%s-on-module-less-file-among-others" % attr.split("(")[0], {"E023"}, \
                ["module M\nstruct S {}\n", "[[%s]]\n%s" % (attr, body), "module N\nstruct T { s: M::S }\n"]
    yield "attributes/not-repeated/on-module-less-file", {"E023", "E026"}, ["[[deprecated]]\n[[deprecated]]\n"]
    yield "ok/module-less-file-with-legal-attributes", set(), ["[[allow(All)]]\n[[x::y]]\n[[x::y(1)]]\n".replace("(1)", "(a)")]
    yield "unique-names/across-files", {"E010"}, ["module M\nstruct S {}\n", "module M\nstruct S {}\n"]
    yield "unique-names/across-files-kinds", {"E010"}, ["module M::N\ncustom S\n", "module M::N\ninterface S {}\n"]
    yield "inherited-operation/across-files", {"E011"}, ["module M\ninterface A : N::B { op() }\n", "module N\ninterface B { op() }\n"]
    # same simple name in different modules: anything keyed by the unqualified name goes wrong here
    good, bad = "module Good\ncompact struct Id { a: int32 }\n", "module Bad\ncompact struct Id { a: float64 }\n"
    yield "keys/same-name-other-module", {"E006"}, [good, bad, "module M\ncompact struct Key { a: Good::Id, b: Bad::Id }\nstruct U { d: Dictionary<Key, bool> }\n"]
    yield "keys/same-name-other-module-reversed", {"E006"}, [good, bad, "module M\ncompact struct Key { a: Bad::Id, b: Good::Id }\nstruct U { d: Dictionary<Key, bool> }\n"]
    yield "keys/same-name-other-module-two-dictionaries", {"E006"}, [good, bad, "module M\nstruct U { d: Dictionary<Good::Id, bool>, e: Dictionary<Bad::Id, bool> }\n"]
    yield "keys/same-name-nested", {"E006"}, [good, bad, "module M\ncompact struct Id { g: Good::Id, b: Bad::Id }\nstruct U { d: Dictionary<Id, bool> }\n"]
    yield "ok/keys-same-name-both-legal", set(), [good, bad.replace("float64", "string"), "module M\ncompact struct Key { a: Good::Id, b: Bad::Id }\nstruct U { d: Dictionary<Key, bool> }\n"]
    yield "inherited-operation/same-name-bases", {"E011"}, ["module A\ninterface I { op() }\n", "module B\ninterface I { other() }\n",
                                                            "module C\ninterface J : A::I, B::I { other() }\n"]
    yield "ok/same-name-bases", set(), ["module A\ninterface I { op() }\n", "module B\ninterface I { other() }\n", "module C\ninterface J : A::I, B::I { mine() }\n"]
    yield "ok/same-name-containment", set(), ["module A\nstruct S { t: B::S }\n", "module B\nstruct S { x: bool }\n"]
    yield "ok/same-name-enums", set(), ["module A\nenum E : uint8 { X = 1 }\n", "module B\nenum E : uint8 { X = 1, Y = 2 }\nstruct U { a: A::E, b: E }\n"]
    yield "values/unique-same-name-enums", {"E022"}, ["module A\nenum E : uint8 { X = 1 }\n", "module B\nenum E : uint8 { X = 1, Y = 1 }\n"]
    yield "tags/unique-same-name-structs", {"E012"}, ["module A\nstruct S { tag(1) a: bool? }\n", "module B\nstruct S { tag(1) a: bool?, tag(1) b: bool? }\n"]
    # accept side of the same shapes
    yield "ok/reopened-module", set(), ["module M\nstruct S {}\n", "module M\nstruct T { s: S }\n"]
    yield "ok/same-name-other-module", set(), ["module M\nstruct S {}\n", "module N\nstruct S { s: M::S }\n"]
    yield "ok/file-attributes", set(), ["[[allow(All)]]\n[[x::y]]\nmodule M\n"]
    yield "ok/params-and-returns-share-names", set(), ["module M\ninterface I { op(a: bool) -> (a: bool, b: bool) }\n"]
    yield "ok/empty-file", set(), [""]
    yield "ok/module-only", set(), ["module M\n"]


def small_scope_members():
    """Every {tag, optional, compact} assignment over <= 3 members, in structs, parameter lists and enumerator fields."""
    opts = [(None, False), (None, True), (1, False), (1, True), (2, True)]
    for n in (0, 1, 2, 3):
        for combo in itertools.product(opts, repeat=n):
            for container in ("struct", "compact struct", "params", "returns", "enumerator", "compact enumerator"):
                members = ", ".join("%sm%d: bool%s" % (("tag(%d) " % t) if t is not None else "", i, "?" if o else "")
                                    for i, (t, o) in enumerate(combo))
                codes = set()
                tags = [t for t, _ in combo if t is not None]
                if len(tags) != len(set(tags)):
                    codes.add("E012")
                if any(t is not None and not o for t, o in combo):
                    codes.add("E016")
                compact = container.startswith("compact")
                if compact and tags:
                    codes.add("E015")
                if container == "compact struct" and n == 0:
                    codes.add("E018")
                if container.endswith("struct"):
                    text = "%s SsA { %s }" % (container, members)
                elif container == "params":
                    text = "interface SsA { ssop(%s) }" % members
                elif container == "returns":
                    if n < 2:
                        continue
                    text = "interface SsA { ssop() -> (%s) }" % members
                else:
                    text = "%senum SsA { X(%s) }" % ("compact " if compact else "", members)
                yield ("members", container, combo), codes, "module M\n" + text + "\n"


KEY_FORMS = [("bool", None), ("string", None), ("int8", None), ("uint8", None), ("int16", None), ("uint16", None), ("int32", None),
             ("uint32", None), ("varint32", None), ("varuint32", None), ("int64", None), ("uint64", None), ("varint62", None),
             ("varuint62", None), ("float32", "E005"), ("float64", "E005"), ("bool?", "E003"), ("Sequence<bool>", "E005"),
             ("Dictionary<bool, bool>", "E005"), ("Result<bool, bool>", "E005"), ("Cu", None), ("Eb", None), ("Ev", "E005"),
             ("Ef", "E005"), ("Sn", "E004"), ("Sc", None), ("Sbad", "E006"), ("Snest", None), ("Snestbad", "E006"), ("Ak", None),
             ("Abad", "E005"), ("Sc?", "E003"), ("Eb?", "E003")]
KEY_DEFS = ("custom Cu\nenum Eb : uint8 { A }\nenum Ev { A }\nenum Ef { A(x: bool) }\nstruct Sn { a: bool }\ncompact struct Sc { a: int32, b: string }\n"
            "compact struct Sbad { a: int32, b: float64 }\ncompact struct Snest { a: Sc, b: Eb }\ncompact struct Snestbad { a: Sc, b: Sbad }\n"
            "typealias Ak = varuint62\ntypealias Abad = Sequence<bool>\n")


def small_scope_keys():
    for form, code in KEY_FORMS:
        for place in ("struct S { d: Dictionary<%s, bool> }", "interface I { op(d: Dictionary<%s, Sequence<bool>>) }",
                      "typealias T = Sequence<Dictionary<%s, bool>>", "struct S { d: Dictionary<bool, Dictionary<%s, bool>> }",
                      "interface I { op() -> (a: Dictionary<%s, bool>?, b: bool) }"):
            yield ("keys", form, place), ({code} if code else set()), "module M\n" + KEY_DEFS + place % form + "\n"


def small_scope_streams():
    for n in (1, 2, 3):
        for combo in itertools.product([False, True], repeat=n):
            codes = set()
            if any(combo[:-1]):
                codes.add("E013")
            if sum(combo) > 1:
                codes.add("E029")
            ms = ", ".join("p%d: %sbool" % (i, "stream " if s else "") for i, s in enumerate(combo))
            yield ("stream-params", combo), codes, "module M\ninterface I { op(%s) }\n" % ms
            if n >= 2:
                yield ("stream-returns", combo), codes, "module M\ninterface I { op() -> (%s) }\n" % ms
            else:
                yield ("stream-return-single", combo), set(), "module M\ninterface I { op() -> %sbool }\n" % ("stream " if combo[0] else "")


def small_scope_key_structs():
    """Every ordered pair / triple of field types in a compact struct that is used as a dictionary key (directly and one struct
    deeper): the struct is a legal key exactly when every field is."""
    fields = [("int32", True), ("Inner", True), ("Inner?", False), ("Sbad", False), ("string?", False), ("Eb", True), ("Eb?", False),
              ("float64", False), ("Inner2", True)]
    defs = ("enum Eb : uint8 { A }\ncompact struct Inner { a: int32 }\ncompact struct Inner2 { i: Inner, e: Eb }\n"
            "compact struct Sbad { a: int32, b: float64 }\n")
    for n in (1, 2, 3):
        for combo in itertools.product(fields, repeat=n):
            if n == 3 and len(set(f for f, _ in combo)) == 3 and all(ok for _, ok in combo):
                continue    # keep the triple space to the interesting part: a repeated type or an illegal field
            ok = all(o for _, o in combo)
            body = ", ".join("f%d: %s" % (i, f) for i, (f, _) in enumerate(combo))
            for depth in (0, 1):
                key = "compact struct K { %s }\n" % body
                if depth:
                    key += "compact struct Outer { z: int8, k: K }\n"
                use = "struct U { d: Dictionary<%s, bool> }\n" % ("Outer" if depth else "K")
                yield ("key-struct", tuple(f for f, _ in combo), depth), (set() if ok else {"E006"}), "module M\n" + defs + key + use


def small_scope_module_clash():
    """A definition may not share its scoped identifier with a module - declared or implied as an enclosing module of a
    declared one ('module A::B::C' implies A and A::B). All module paths of depth <= 3 over {A, B} for the defining and
    the other file, each definition kind, both file orders. Yields multi-file cases."""
    paths = [p for n in (1, 2, 3) for p in ("::".join(x) for x in itertools.product("AB", repeat=n))]
    kinds = {"struct": "struct %s { m: bool }", "enum": "enum %s { m }", "interface": "interface %s { m() }", "custom": "custom %s",
             "alias": "typealias %s = bool"}
    for p in paths:
        if p.count("::") > 1:
            continue
        for q in paths:
            for name in "AB":
                scoped = p + "::" + name
                clash = q == scoped or q.startswith(scoped + "::")
                for kind, tpl in kinds.items():
                    if kind not in ("struct", "interface") and (len(p) + len(q)) % 3:
                        continue   # the other kinds on a third of the module pairs
                    f1 = "module %s\n%s\n" % (p, tpl % name)
                    f2 = "module %s\nstruct Other { x: bool }\n" % q
                    for order in (0, 1):
                        yield ("module-clash", p, q, name, kind, order), ({"E010"} if clash else set()), ([f1, f2] if order == 0 else [f2, f1])


def judge(ctx, texts, codes, r, family, key, single):
    replay = {"kind": "library", "call": "compile_from_strings", "files": texts, "family": family, "rule": str(key), "expected_codes": sorted(codes)}
    if "died" in r or r.get("panic"):
        p = r.get("panic") or {"message": "worker " + r["died"], "location": "?"}
        ctx.violate(core.panic_signature(p), "crashed: %s" % p, replay)
        return
    errs = [c[0] for c in r["codes"] if c[1] == "error"]
    replay["observed_codes"] = errs
    if not codes:
        ctx.stats["accept_cases"] += 1
        if errs:
            ctx.violate("well-formed-rejected:%s:%s" % (family, errs[0]), "a program that satisfies every rule was rejected with %s (%s)" % (errs, key), replay)
        return
    ctx.stats["reject_cases"] += 1
    rule = key if isinstance(key, str) else "/".join(map(str, key[:2]))
    if not errs:
        ctx.violate("violation-accepted:" + rule, "rule violated (%s) but the program was accepted without error" % (key,), replay)
        return
    stray = [e for e in errs if e not in codes]
    if stray:
        ctx.violate("wrong-code:%s:%s" % (rule, stray[0]), "rule %s violated: reported %s, which belong to no violated rule (expected among %s)"
                    % (key, stray, sorted(codes)), replay)
        return
    if single and len(codes) == 1 and not (set(errs) & codes):
        ctx.violate("rule-code-missing:" + rule, "expected %s, got %s" % (sorted(codes), errs), replay)


def run_shard(ctx, spec):
    kind = spec[0]
    if kind == "injectors":
        _, idx, n = spec
        inj = injectors()
        rng = ctx.rng("inj/%d" % idx)
        nhosts = 12 if ctx.tier == "quick" else 40
        hosts = []
        for h in range(nhosts):
            prog = gen.valid_program(random.Random("host/%d/%d" % (ctx.seed, h)), max_files=2, single_module=None)
            hosts.append(printer.print_program(prog))
        hosts.append(["module M\n"])
        items = []
        for i, (rule, codes, snippet) in enumerate(inj):
            if i % n != idx:
                continue
            for h, host in enumerate(hosts):
                texts = list(host)
                texts[0] = texts[0].rstrip("\n") + "\n" + snippet + "\n"
                items.append((texts, codes, rule, True))
                ctx.note_case(("inj", rule, h))
            ctx.stats["injector_rules"] += 1
        # k = 2..3 random combinations (names are made unique per snippet)
        for _ in range((20000 if ctx.tier == "quick" else 1200000) // n):
            k = rng.choice([2, 2, 3])
            chosen = rng.sample(inj, k)
            host = list(rng.choice(hosts))
            codes = set()
            body = ""
            for j, (rule, c, snippet) in enumerate(chosen):
                body += snippet.replace("Inj", "Inj%d" % j).replace("injop", "injop%d" % j) + "\n"
                codes |= c
            host[0] = host[0].rstrip("\n") + "\n" + body
            items.append((host, codes, "+".join(sorted(r for r, _, _ in chosen)), False))
            ctx.note_case(("combo", tuple(sorted(r for r, _, _ in chosen))))
            ctx.stats["combination_cases"] += 1
        for k in range(0, len(items), 400):
            chunk = items[k:k + 400]
            resps = ctx.worker.batch([{"op": "compile", "files": it[0], "want": ["codes"]} for it in chunk])
            for it, r in zip(chunk, resps):
                judge(ctx, it[0], it[1], r, "injector" if it[3] else "combination", it[2], it[3])
        if idx == 0:
            ctx.sample({"family": "injector", "rule": inj[40][0], "codes": sorted(inj[40][1]), "snippet": inj[40][2]}, limit=1)
            ctx.extra["rules"] = sorted(set(r.split("/")[0] + "/" + r.split("/")[1] if "/" in r else r for r, _, _ in inj))
    elif kind == "files":
        items = list(file_level_cases())
        resps = ctx.worker.batch([{"op": "compile", "files": it[2], "want": ["codes"]} for it in items])
        for (key, codes, texts), r in zip(items, resps):
            ctx.note_case(("file", key))
            judge(ctx, texts, codes, r, "file-level", key, True)
            ctx.stats["file_level_cases"] += 1
    elif kind == "small":
        fam = {"members": small_scope_members, "keys": small_scope_keys, "streams": small_scope_streams,
               "key-structs": small_scope_key_structs, "module-clash": small_scope_module_clash}[spec[1]]
        items = [(key, codes, text if isinstance(text, list) else [text]) for key, codes, text in fam()]
        for k in range(0, len(items), 500):
            chunk = items[k:k + 500]
            resps = ctx.worker.batch([{"op": "compile", "files": it[2], "want": ["codes"]} for it in chunk])
            for (key, codes, texts), r in zip(chunk, resps):
                ctx.note_case(("small", key))
                judge(ctx, texts, codes, r, "small-scope-" + spec[1], key, len(codes) == 1)
                ctx.stats["small_scope_cases"] += 1
                ctx.stats["small_scope_%s_cases" % spec[1].replace("-", "_")] += 1
    elif kind == "accept":
        _, count, idx = spec
        rng = ctx.rng("acc/%d" % idx)
        items = []
        for _ in range(count):
            prog = gen.valid_program(random.Random(rng.random()), max_files=4, max_defs=8, deprecated=True)
            items.append(printer.print_program(prog))
        resps = ctx.worker.batch([{"op": "compile", "files": t, "want": ["codes"]} for t in items])
        for t, r in zip(items, resps):
            ctx.note_case(("acc", tuple(t)))
            judge(ctx, t, set(), r, "generated", "generated-valid", False)


def plan(tier, seed):
    specs = [("injectors", i, 16) for i in range(16)]
    specs += [("files",), ("small", "members"), ("small", "keys"), ("small", "streams"), ("small", "key-structs"), ("small", "module-clash")]
    n = 16000 if tier == "quick" else 800000
    specs += [("accept", n // 16, i) for i in range(16)]
    return specs


def main(tier, seed):
    paths = build.build("release", ("vh",))
    run = core.run_shards(__name__, PROP, tier, seed, paths, plan(tier, seed))
    ninj = len(injectors())
    return core.finish(
        run, "exploration",
        rule=("accept side: generated well-formed programs and the well-formed members of the small-scope families must compile "
              "without error. Reject side: %d injectors (one per rule of the statement at its boundary values: tags -1 / 2^31 / "
              "2^127, every underlying type's min-1 / max+1 / implicit-after-max, every illegal key form, every attribute on every "
              "position where it is illegal, ...) appended to %d hosts each, k=2..3 random combinations, whole-file cases; emitted "
              "error codes must be a non-empty subset of the violated rules' codes and contain the rule's code for single "
              "violations. Small-scope exhaustive: every {tag, optional, compact} assignment over <= 3 members in 6 containers, %d "
              "key forms x 5 places, every stream placement over <= 3 parameters / return members, every ordered pair (and the "
              "interesting triples) of 9 field types in a compact key struct used directly and one struct deeper, every pair of "
              "module paths of depth <= 3 over {A, B} with a definition of each kind named like a module segment (both file "
              "orders). distinct_nontrivial = distinct "
              "(rule, host) / family members / programs" % (ninj, 13 if tier == "quick" else 41, len(KEY_FORMS))),
        required={"injector_rules": 150, "reject_cases": 1500, "accept_cases": 1000, "small_scope_cases": 1000, "combination_cases": 500,
                  "file_level_cases": 15, "small_scope_key_structs_cases": 500, "small_scope_module_clash_cases": 500},
        assumptions=["parameters and return members are separate name scopes", "`A()` under an underlying type is not generated",
                     "tag 2^127 may be reported as an integer literal overflow (E030) instead of E021",
                     "two streamed members violate one rule whose codes are E013 and E029"],
        exhaustive=True,
        extra_coverage={"exhaustive_space": "small-scope families (members, keys, streams) are enumerated completely"},
    )
