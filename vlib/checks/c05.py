"""C05 - illegal cycles are always diagnosed; acyclic definitions never are.

Programs are generated from graphs (containment between structs/enums, alias targets, interface inheritance); the
reference is plain graph theory (Tarjan SCC) over the generating graph. Observation points: E032 diagnostics (type id,
cycle string, notes), E019/E033, and process survival of the library worker.
"""
import itertools
import re

from .. import build, core

PROP = "C05"

WRAPPERS = [
    ("plain", "{T}"),
    ("optional", "{T}?"),
    ("sequence", "Sequence<{T}>"),
    ("dict-key", "Dictionary<{T}, bool>"),
    ("dict-value", "Dictionary<int32, {T}>"),
    ("result-ok", "Result<{T}, bool>"),
    ("result-err", "Result<bool, {T}>"),
    ("nested", "Sequence<Dictionary<string, {T}?>>"),
    # tagged members (legal only outside compact types, where the tag is simply left out): a tagged field is contained all the same
    ("tagged-optional", "{T}?"),
    ("tagged-sequence", "Sequence<{T}>?"),
]
KINDS = ["struct", "compact struct", "enum"]


def sccs(n, edges):
    """Tarjan; returns list of components (lists of nodes)."""
    adj = {i: [] for i in range(n)}
    for a, b in edges:
        adj[a].append(b)
    index = {}
    low = {}
    stack, on = [], set()
    out = []
    counter = [0]

    def strong(v):
        # iterative
        work = [(v, 0)]
        index[v] = low[v] = counter[0]
        counter[0] += 1
        stack.append(v)
        on.add(v)
        while work:
            node, i = work[-1]
            if i < len(adj[node]):
                work[-1] = (node, i + 1)
                w = adj[node][i]
                if w not in index:
                    index[w] = low[w] = counter[0]
                    counter[0] += 1
                    stack.append(w)
                    on.add(w)
                    work.append((w, 0))
                elif w in on:
                    low[node] = min(low[node], index[w])
            else:
                work.pop()
                if work:
                    low[work[-1][0]] = min(low[work[-1][0]], low[node])
                if low[node] == index[node]:
                    comp = []
                    while True:
                        w = stack.pop()
                        on.discard(w)
                        comp.append(w)
                        if w == node:
                            break
                    out.append(comp)

    for v in range(n):
        if v not in index:
            strong(v)
    return out


def on_cycle(n, edges):
    """Set of nodes lying on some cycle."""
    res = set()
    es = set(edges)
    for comp in sccs(n, edges):
        if len(comp) > 1:
            res.update(comp)
        elif (comp[0], comp[0]) in es:
            res.add(comp[0])
    return res


# ---------------------------------------------------------------------------------------------------------------
# containment

CONFUSABLE = [("A", "B"), ("C", "D"), ("A::BC", "D"), ("C", "DA"), ("AB", "C"), ("A", "BA")]


def containment_program(n, edges, kinds, naming=None):
    """edges: list of (src, dst, wrapper_index). naming: node -> (module, identifier); by default everything is M::N<i>.
    Returns (text | [texts], fields) with fields[(scoped src, field_name)] = (type_text, scoped dst, kind, (file index, row)).
    With a naming, one file per module is produced and types are referenced by their global names (so that types of the
    same identifier in different modules can contain each other)."""
    fields = {}
    per = {i: [] for i in range(n)}
    for j, (a, b, w) in enumerate(edges):
        per[a].append((j, b, w))
    if naming is None:
        naming_ = lambda i: ("M", "N%d" % i)
        spell = lambda i: "N%d" % i
    else:
        naming_ = naming
        spell = lambda i: "::%s::%s" % naming(i)
    modules = []
    for i in range(n):
        if naming_(i)[0] not in modules:
            modules.append(naming_(i)[0])
    files = {m: ["module " + m] for m in modules}
    for i in range(n):
        module, name = naming_(i)
        scoped = module + "::" + name
        lines = files[module]
        where = (modules.index(module), len(lines) + 1)
        kind = kinds[i]
        if kind == "enum":
            body = ["Z"]
            for j, b, w in per[i]:
                ttext = WRAPPERS[w][1].format(T=spell(b))
                fname = "e%d" % j
                tag = "tag(%d) " % j if WRAPPERS[w][0].startswith("tagged") else ""
                body.append("V%d(%s%s: %s)" % (j, tag, fname, ttext))
                fields[(scoped, fname)] = (ttext, "%s::%s" % naming_(b), "enum", where)
            lines.append("enum %s { %s }" % (name, ", ".join(body)))
        else:
            body = ["x: bool"]
            for j, b, w in per[i]:
                ttext = WRAPPERS[w][1].format(T=spell(b))
                fname = "e%d" % j
                tag = "tag(%d) " % j if WRAPPERS[w][0].startswith("tagged") and kind == "struct" else ""
                body.append("%s%s: %s" % (tag, fname, ttext))
                fields[(scoped, fname)] = (ttext, "%s::%s" % naming_(b), "struct", where)
            lines.append("%s %s { %s }" % (kind, name, ", ".join(body)))
    texts = ["\n".join(files[m]) + "\n" for m in modules]
    return (texts[0] if naming is None else texts), fields


TWO_SLOT = ["Result<{A}, {B}>", "Dictionary<{A}, {B}>", "Result<Sequence<{A}>, {B}?>", "Dictionary<{A}, Sequence<{B}>>",
            "Sequence<Result<{A}?, Dictionary<int32, {B}>>>"]


def two_slot_program(n, plain, pairs, kinds):
    """plain: (src, dst) single-target fields; pairs: (src, dst1, dst2, form) fields whose type carries two struct/enum slots
    (both slots of a Result or a Dictionary lead somewhere: visiting the first must not stop the second from being walked)."""
    fields = {}
    lines = ["module M"]
    for i in range(n):
        scoped, kind = "M::N%d" % i, kinds[i]
        where = (0, len(lines) + 1)
        members = []
        for j, (a, b) in enumerate(plain):
            if a == i:
                members.append(("p%d" % j, "N%d" % b, ("M::N%d" % b,)))
        for j, (a, b1, b2, form) in enumerate(pairs):
            if a == i:
                members.append(("q%d" % j, TWO_SLOT[form].format(A="N%d" % b1, B="N%d" % b2), ("M::N%d" % b1, "M::N%d" % b2)))
        if kind == "enum":
            body = ["Z"] + ["V%s(%s: %s)" % (f, f, t) for f, t, _ in members]
            lines.append("enum N%d { %s }" % (i, ", ".join(body)))
        else:
            body = ["x: bool"] + ["%s: %s" % (f, t) for f, t, _ in members]
            lines.append("%s N%d { %s }" % (kind, i, ", ".join(body)))
        for f, t, dsts in members:
            fields[(scoped, f)] = (t, dsts, "enum" if kind == "enum" else "struct", where)
    return "\n".join(lines) + "\n", fields


E032_RE = re.compile(r"^type (\S+) illegally references itself: (.*)$")
NOTE_RE = re.compile(r"^(struct|enum) '([^']+)' contains a field named '([^']+)' that is of type '(.*)'$")


def judge_containment(ctx, text, n, edges, fields, resp, family, naming=None):
    replay = {"kind": "library", "call": "compile_from_strings", "files": text if isinstance(text, list) else [text], "family": family}
    scoped = (lambda i: "M::N%d" % i) if naming is None else (lambda i: "%s::%s" % naming(i))
    if "died" in resp or resp.get("panic"):
        p = resp.get("panic") or {"message": "worker " + resp["died"], "location": "?"}
        ctx.violate(core.panic_signature(p), "cycle detection crashed: %s" % p, replay)
        return
    plain_edges = [(a, b) for a, b, _ in edges]
    cyc_nodes = on_cycle(n, plain_edges)
    diags = resp["diags"]
    e032 = [d for d in diags if d["code"] == "E032"]
    replay["observed"] = [d["message"] for d in diags][:8]
    if not cyc_nodes:
        ctx.stats["acyclic_cases"] += 1
        if e032:
            ctx.violate("e032-on-acyclic:" + family, "acyclic containment graph reported a cycle: %s" % e032[0]["message"], replay)
        return
    ctx.stats["cyclic_cases"] += 1
    if not e032:
        ctx.violate("cycle-not-reported:" + family, "containment cycle through %s not reported (diagnostics: %s)"
                    % (sorted(scoped(i) for i in cyc_nodes), [d["code"] for d in diags]), replay)
        return
    named = set()
    edge_set = set((scoped(a), scoped(b)) for a, b in plain_edges)
    all_names = set(scoped(i) for i in range(n))
    for d in e032:
        m = E032_RE.match(d["message"].replace("invalid syntax: ", ""))
        if not m:
            ctx.violate("e032-unparsable", "cannot parse E032 message %r" % d["message"], replay)
            continue
        type_id, chain = m.group(1), [c.strip() for c in m.group(2).split("->")]
        short = chain
        ctx.stats["chains_checked"] += 1
        if chain[0] != type_id or chain[-1] != type_id or len(chain) < 2:
            ctx.violate("chain-not-closed", "reported chain %r does not start and end at %s" % (chain, type_id), replay)
            continue
        if any(c not in all_names for c in chain):
            ctx.violate("chain-type-id-not-scoped", "chain %r uses type ids that are not the scoped names of the types" % (chain,), replay)
            continue
        bad = [(a, b) for a, b in zip(short, short[1:]) if (a, b) not in edge_set]
        if bad:
            ctx.violate("chain-not-a-path", "reported chain %r uses %r which is not a field edge" % (chain, bad[0]), replay)
            continue
        named.update(short)
        notes = d["notes"]
        if len(notes) != len(chain) - 1:
            ctx.violate("chain-notes-count", "chain %r has %d notes" % (chain, len(notes)), replay)
            continue
        for (a, b), note in zip(zip(short, short[1:]), notes):
            nm = NOTE_RE.match(note["message"])
            if not nm:
                ctx.violate("note-unparsable", "cannot parse note %r" % note["message"], replay)
                break
            kind, container, fname, ttext = nm.groups()
            f = fields.get((a, fname))
            ctx.stats["notes_checked"] += 1
            if container != a.split("::")[-1] or f is None or (b not in f[1] if isinstance(f[1], tuple) else f[1] != b) or f[2] != kind or \
                    re.sub(r"(::)?(\w+::)+", "", f[0]).replace(" ", "") != re.sub(r"(::)?(\w+::)+", "", ttext).replace(" ", ""):
                ctx.violate("note-not-a-real-field", "note %r does not describe a real field leading from %s to %s (model: %r)"
                            % (note["message"], a, b, f), replay)
                break
            # the note's span must be the field's line (one definition per line) in the right file
            if note["span"] and (note["span"][0] != f[3][1] or note["span"][4] != "string-%d" % f[3][0]):
                ctx.violate("note-span-wrong-line", "note %r points at %s line %d" % (note["message"], note["span"][4], note["span"][0]), replay)
                break
    missing = set(scoped(i) for i in cyc_nodes) - named
    if missing:
        ctx.violate("cyclic-type-not-named:" + family, "types %s lie on a cycle but no reported chain names them (chains: %s)"
                    % (sorted(missing), [d["message"] for d in e032]), replay)
    extra = named - set(scoped(i) for i in cyc_nodes)
    if extra:
        ctx.violate("acyclic-type-in-chain:" + family, "chains name %s which lie on no cycle" % sorted(extra), replay)


def all_digraphs(n):
    pairs = [(a, b) for a in range(n) for b in range(n)]
    for mask in range(1 << len(pairs)):
        yield [p for i, p in enumerate(pairs) if mask >> i & 1]


def run_batch(ctx, items, judge):
    """items: list of (text | [texts], payload...)"""
    reqs = [{"op": "compile", "files": it[0] if isinstance(it[0], list) else [it[0]], "want": ["diags"]} for it in items]
    resps = ctx.worker.batch(reqs)
    for it, r in zip(items, resps):
        judge(it, r)


def run_shard(ctx, spec):
    kind = spec[0]
    if kind == "containment-small":
        _, idx, nshards = spec
        items = []
        c = 0
        for n in (1, 2, 3):
            for g in all_digraphs(n):
                for variant in range(len(WRAPPERS)):
                    c += 1
                    if c % nshards != idx:
                        continue
                    edges = [(a, b, (variant + j) % len(WRAPPERS)) for j, (a, b) in enumerate(g)]
                    kinds = [KINDS[(c // 7 + i) % 3] for i in range(n)]
                    text, fields = containment_program(n, edges, kinds)
                    items.append((text, n, edges, fields))
                    ctx.note_case(("cs", n, tuple(edges), tuple(kinds)), nontrivial=bool(edges))
        run_batch(ctx, items, lambda it, r: judge_containment(ctx, it[0], it[1], it[2], it[3], r, "small"))
        ctx.stats["wrapper_forms_used"] = len(WRAPPERS)
        if items:
            ctx.sample({"family": "containment <=3 nodes, every wrapper on every edge", "program": items[len(items) // 2][0]}, limit=1)
    elif kind == "containment-4":
        _, idx, nshards, fraction = spec
        rng = ctx.rng("c4/%d" % idx)
        items = []
        for gi, g in enumerate(all_digraphs(4)):
            if gi % nshards != idx:
                continue
            if fraction < 1 and ((gi // nshards) + ctx.seed) % int(1 / fraction) != 0:
                continue
            edges = [(a, b, rng.randrange(len(WRAPPERS))) for (a, b) in g]
            kinds = [rng.choice(KINDS) for _ in range(4)]
            text, fields = containment_program(4, edges, kinds)
            items.append((text, 4, edges, fields))
            ctx.note_case(("c4", tuple(edges), tuple(kinds)))
            if len(items) >= 500:
                run_batch(ctx, items, lambda it, r: judge_containment(ctx, it[0], it[1], it[2], it[3], r, "four"))
                items = []
        run_batch(ctx, items, lambda it, r: judge_containment(ctx, it[0], it[1], it[2], it[3], r, "four"))
    elif kind == "containment-random":
        _, count, idx = spec
        rng = ctx.rng("cr/%d" % idx)
        items = []
        for _ in range(count):
            n = rng.randint(5, 10)
            m = rng.randint(0, int(1.4 * n))
            edges = [(rng.randrange(n), rng.randrange(n), rng.randrange(len(WRAPPERS))) for _ in range(m)]  # multi-edges welcome
            kinds = [rng.choice(KINDS) for _ in range(n)]
            text, fields = containment_program(n, edges, kinds)
            items.append((text, n, edges, fields))
            ctx.note_case(("cr", n, tuple(edges), tuple(kinds)))
        run_batch(ctx, items, lambda it, r: judge_containment(ctx, it[0], it[1], it[2], it[3], r, "random"))
        if items:
            ctx.sample({"family": "random containment graph", "program": items[0][0]}, limit=1)
    elif kind == "two-slot":
        # one field, two slots, both leading to user-defined types
        _, idx, nshards, fraction = spec
        rng = ctx.rng("ts/%d" % idx)
        items = []
        c = 0

        def flush():
            run_batch(ctx, items, lambda it, r: judge_containment(ctx, it[0], it[1], it[2], it[3], r, "two-slot"))
            del items[:]
        for n in (1, 2, 3):
            graphs = list(all_digraphs(n))
            for gi, g in enumerate(graphs):
                for a in range(n):
                    for b1 in range(n):
                        for b2 in range(n):
                            c += 1
                            if c % nshards != idx:
                                continue
                            if n == 3 and fraction < 1 and ((c // nshards) + ctx.seed) % int(1 / fraction) != 0:
                                continue
                            form = (c // nshards) % len(TWO_SLOT) if n == 3 else None
                            for fm in ([form] if form is not None else range(len(TWO_SLOT))):
                                pairs = [(a, b1, b2, fm)]
                                kinds = [KINDS[(c // 5 + i + fm) % 3] if (c // 3) % 4 == 0 else "struct" for i in range(n)]
                                text, fields = two_slot_program(n, g, pairs, kinds)
                                edges = [(x, y, 0) for x, y in g] + [(a, b1, 0), (a, b2, 0)]
                                items.append((text, n, edges, fields))
                                ctx.note_case(("ts", n, tuple(g), a, b1, b2, fm, tuple(kinds)))
                                ctx.stats["two_slot_cases"] += 1
                            if len(items) >= 500:
                                flush()
        # random: several two-slot fields in larger graphs
        for _ in range(200 if fraction < 1 else 20000):
            n = rng.randint(3, 7)
            plain = [(rng.randrange(n), rng.randrange(n)) for _ in range(rng.randint(0, n))]
            pairs = [(rng.randrange(n), rng.randrange(n), rng.randrange(n), rng.randrange(len(TWO_SLOT))) for _ in range(rng.randint(1, n))]
            kinds = [rng.choice(KINDS) for _ in range(n)]
            text, fields = two_slot_program(n, plain, pairs, kinds)
            edges = [(x, y, 0) for x, y in plain] + [(a, b, 0) for a, b1, b2, _ in pairs for b in (b1, b2)]
            items.append((text, n, edges, fields))
            ctx.note_case(("tsr", n, tuple(plain), tuple(pairs), tuple(kinds)))
            ctx.stats["two_slot_cases"] += 1
            if len(items) >= 500:
                flush()
        flush()
    elif kind == "containment-modules":
        # the same identifiers in several modules (A::N0, B::N0, ...), one file per module, global spellings: anything keyed by
        # the unqualified identifier confuses a type with its namesake
        _, count, idx = spec
        rng = ctx.rng("cm/%d" % idx)
        items = []
        for ci in range(count):
            n = rng.randint(2, 6)
            nmod = rng.choice([2, 2, 3])
            mods = ["A", "B", "A::C"][:nmod]
            naming = (lambda mods: (lambda i: (mods[i % len(mods)], "N%d" % (i // len(mods)))))(mods)
            if ci % 3 == 0:
                # exhaustive-ish small case: 2 namesakes + maybe a third, every edge subset is reachable over the run
                n = rng.choice([2, 3])
            m = rng.randint(1, int(1.6 * n))
            edges = [(rng.randrange(n), rng.randrange(n), rng.randrange(len(WRAPPERS))) for _ in range(m)]
            if ci % 4 == 1:
                # scoped names that run into one another when they are joined without a separator, sorted, or cut at "::"
                # ({A::B, C::D} vs {A::BC::D}): whatever identifies a cycle by a string built from its members confuses two cycles
                n = rng.randint(3, len(CONFUSABLE))
                naming = lambda i: CONFUSABLE[i]
                m = rng.randint(1, n)
                edges = [(rng.randrange(n), rng.randrange(n), rng.randrange(len(WRAPPERS))) for _ in range(m)]
                if rng.random() < 0.6:
                    edges += [(0, 1, 0), (1, 0, 0), (2, 2, rng.randrange(len(WRAPPERS)))]
                    rng.shuffle(edges)
                ctx.stats["containment_confusable_names"] += 1
            kinds = [rng.choice(KINDS) for _ in range(n)]
            texts, fields = containment_program(n, edges, kinds, naming)
            if rng.random() < 0.5:
                pass
            items.append((texts, n, edges, fields, naming))
            ctx.note_case(("cm", n, nmod, tuple(edges), tuple(kinds)))
        run_batch(ctx, items, lambda it, r: judge_containment(ctx, it[0], it[1], it[2], it[3], r, "modules", it[4]))
        ctx.stats["containment_module_cases"] += len(items)
        if items:
            ctx.sample({"family": "containment between namesakes in different modules", "files": items[0][0]}, limit=1)
    elif kind == "alias-chains":
        # alias chains of length 1-4 spread over modules and files, every link spelled relative to its own module, same-named
        # decoys elsewhere: a chain that closes on itself is rejected, one that ends in a concrete type is accepted - whatever
        # the module the resolution happens to start from
        import random as _random
        from ..slicegen import printer as _printer
        from . import c03
        _, count, idx = spec
        rng = ctx.rng("ac/%d" % idx)
        items = []
        for _ in range(count):
            loop = rng.random() < 0.5
            prog = c03.chain_program(_random.Random(rng.random()), rng.randint(1, 4), rng.choice(c03.ENDS),
                                     rng.choice(["field", "parameter", "return", "alias", "seq-elem", "dict-value", "enumerator-field"]), loop=loop)
            items.append((_printer.print_program(prog), loop))
        resps = ctx.worker.batch([{"op": "compile", "files": it[0], "want": ["diags"]} for it in items])
        for (texts, loop), r in zip(items, resps):
            ctx.note_case(("alias-chain", tuple(texts)))
            ctx.stats["alias_chain_cases"] += 1
            replay = {"kind": "library", "call": "compile_from_strings", "files": texts, "family": "alias-chains", "closes_on_itself": loop}
            if "died" in r or r.get("panic"):
                p = r.get("panic") or {"message": "worker " + r["died"], "location": "?"}
                ctx.violate(core.panic_signature(p), "alias resolution crashed: %s" % p, replay)
                continue
            errors = [d for d in r["diags"] if d["level"] == "error"]
            replay["observed"] = [d["code"] + ": " + d["message"] for d in r["diags"]][:6]
            if loop and not errors:
                ctx.violate("alias-loop-accepted:chain", "an alias chain that closes on itself (across modules) compiled without error", replay)
            elif not loop and errors:
                ctx.violate("alias-acyclic-rejected:chain", "an alias chain that ends in a concrete type was rejected: %s" % errors[0]["message"], replay)
    elif kind == "alias":
        _, idx, nshards = spec
        n = 4
        items = []
        for gi, targets in enumerate(itertools.product(range(n + 1), repeat=n)):  # n = "concrete type"
            if gi % nshards != idx:
                continue
            lines = ["module M"]
            for i, t in enumerate(targets):
                lines.append("typealias A%d = %s" % (i, "A%d" % t if t < n else ["bool", "Sequence<int32>", "S", "string"][i]))
            lines.append("struct S { x: bool }")
            lines.append("struct U { " + ", ".join("u%d: A%d" % (i, i) for i in range(n)) + " }")
            items.append(("\n".join(lines) + "\n", targets))
            ctx.note_case(("alias", targets))
        run_batch(ctx, items, lambda it, r: judge_alias(ctx, it[0], it[1], r))
        ctx.stats["alias_graphs"] += len(items)
    elif kind == "alias-anon":
        # alias targets wrapped in anonymous types: a loop through Sequence / Dictionary / Result is a loop all the same
        _, count, idx = spec
        rng = ctx.rng("aa/%d" % idx)
        n = 4
        forms = ["A{j}", "Sequence<A{j}>", "Dictionary<bool, A{j}>", "Result<A{j}, bool>", "Sequence<Dictionary<string, A{j}?>>",
                 "Result<bool, Sequence<A{j}>>", "Dictionary<A{j}, bool>", "Sequence<Dictionary<A{j}, string>>", "Dictionary<A{j}, A{j}>"]
        items = []
        for _ in range(count):
            targets = tuple(rng.randrange(n + 1) for _ in range(n))
            shapes = tuple(rng.randrange(len(forms)) for _ in range(n))
            lines = ["module M"]
            for i, t in enumerate(targets):
                lines.append("typealias A%d = %s" % (i, forms[shapes[i]].format(j=t) if t < n else ["bool", "Sequence<int32>", "S", "string"][i]))
            lines.append("struct S { x: bool }")
            use = rng.random()
            if use < 0.4:
                lines.append("struct U { " + ", ".join("u%d: A%d" % (i, i) for i in range(n)) + " }")
            elif use < 0.7:
                lines.append("interface I { op(a: A%d) -> A%d }" % (rng.randrange(n), rng.randrange(n)))
            items.append(("\n".join(lines) + "\n", targets))
            ctx.note_case(("alias-anon", targets, shapes, round(use, 1)))
        run_batch(ctx, items, lambda it, r: judge_alias(ctx, it[0], it[1], r))
        ctx.stats["alias_anon_graphs"] += len(items)
        if items:
            ctx.sample({"family": "alias loops through anonymous types", "program": items[0][0]}, limit=1)
    elif kind == "inherit":
        _, n, idx, nshards = spec
        items = []
        for gi, g in enumerate(all_digraphs(n)):
            if gi % nshards != idx:
                continue
            # with an operation per interface (all_inherited_operations is exercised) and with empty interfaces (nothing
            # but the loop itself can be at fault), in source order and reversed
            for variant in ("ops", "empty", "empty-reversed"):
                lines = []
                for i in range(n):
                    bases = [b for a, b in g if a == i]
                    body = " op%d() " % i if variant == "ops" else ""
                    lines.append("interface I%d%s {%s}" % (i, (" : " + ", ".join("I%d" % b for b in bases)) if bases else "", body))
                if variant == "empty-reversed":
                    lines.reverse()
                items.append(("\n".join(["module M"] + lines) + "\n", n, g))
                ctx.note_case(("inh", n, tuple(g), variant), nontrivial=bool(g))
        # one case per request batch of modest size: a stack overflow kills the worker and is attributed to its case
        for k in range(0, len(items), 200):
            run_batch(ctx, items[k:k + 200], lambda it, r: judge_inherit(ctx, it[0], it[1], it[2], r))
        ctx.stats["inheritance_graphs"] += len(items)


KEY_CODES = {"E003", "E004", "E005", "E006"}


def judge_alias(ctx, text, targets, resp):
    replay = {"kind": "library", "call": "compile_from_strings", "files": [text], "family": "alias"}
    if "died" in resp or resp.get("panic"):
        p = resp.get("panic") or {"message": "worker " + resp["died"], "location": "?"}
        ctx.violate(core.panic_signature(p), "alias resolution crashed: %s" % p, replay)
        return
    n = len(targets)
    # an alias is unresolvable iff following targets from it never reaches a concrete type
    def loops(i):
        seen = set()
        while i < n:
            if i in seen:
                return True
            seen.add(i)
            i = targets[i]
        return False
    looping = [i for i in range(n) if loops(i)]
    on_loop = on_cycle(n, [(i, t) for i, t in enumerate(targets) if t < n])
    errors = [d for d in resp["diags"] if d["level"] == "error"]
    replay["observed"] = [d["code"] + ": " + d["message"] for d in resp["diags"]][:8]
    if not looping:
        ctx.stats["alias_acyclic"] += 1
        if errors and "Dictionary<A" in text and set(d["code"] for d in errors) <= KEY_CODES:
            ctx.stats["alias_acyclic_with_illegal_key"] += 1    # an alias in key position may name an illegal key type: not this check's business
            return
        if errors:
            ctx.violate("alias-acyclic-rejected", "acyclic alias graph %r rejected: %s" % (targets, errors[0]["message"]), replay)
        return
    ctx.stats["alias_cyclic"] += 1
    if not errors:
        ctx.violate("alias-loop-accepted", "alias graph %r loops (aliases %s) but compiled without error" % (targets, looping), replay)
        return
    codes = set(d["code"] for d in errors)
    if not codes <= {"E019", "E033"}:
        ctx.violate("alias-loop-unexpected-code", "alias loop reported with codes %s" % sorted(codes), replay)
    e019 = [d for d in errors if d["code"] == "E019"]
    if not e019:
        ctx.violate("alias-loop-without-e019", "alias loop rejected without a self-reference error (codes %s)" % sorted(codes), replay)
    for d in e019:
        m = re.search(r"'(?:M::)?A(\d)'", d["message"])
        if not m or int(m.group(1)) not in on_loop:
            ctx.violate("e019-names-alias-off-loop", "E019 %r names an alias that is not on a loop (loop: %s)"
                        % (d["message"], sorted(on_loop)), replay)


def judge_inherit(ctx, text, n, g, resp):
    replay = {"kind": "library", "call": "compile_from_strings", "files": [text], "family": "inherit"}
    cyc = on_cycle(n, g)
    if "died" in resp or resp.get("panic"):
        p = resp.get("panic") or {"message": "stack overflow / abort (%s)" % resp["died"], "location": "all_base_interfaces" if cyc else "?"}
        sig = core.panic_signature(p) if resp.get("panic") else "crash:inheritance-%s" % ("loop" if cyc else "acyclic")
        ctx.stats["inherit_crashes"] += 1
        ctx.violate(sig, "inheritance graph %r: %s" % (g, p["message"]), replay)
        return
    errors = [d for d in resp["diags"] if d["level"] == "error"]
    replay["observed"] = [d["code"] + ": " + d["message"] for d in resp["diags"]][:8]
    if cyc:
        ctx.stats["inherit_cyclic"] += 1
        if not errors:
            ctx.violate("inheritance-loop-accepted", "interfaces %s inherit from themselves but compiled without error"
                        % sorted("I%d" % i for i in cyc), replay)
    else:
        ctx.stats["inherit_acyclic"] += 1
        if errors:
            ctx.violate("acyclic-inheritance-rejected", "acyclic inheritance %r rejected: %s" % (g, errors[0]["message"]), replay)


def plan(tier, seed):
    specs = [("containment-small", i, 16) for i in range(16)]
    specs += [("containment-4", i, 16, 1 / 4 if tier == "quick" else 1) for i in range(16)]
    nrand = 20000 if tier == "quick" else 2000000
    specs += [("containment-random", nrand // 16, i) for i in range(16)]
    ncm = 8000 if tier == "quick" else 800000
    specs += [("containment-modules", ncm // 16, i) for i in range(16)]
    specs += [("two-slot", i, 16, 1 / 8 if tier == "quick" else 1) for i in range(16)]
    specs += [("alias", i, 8) for i in range(8)]
    specs += [("alias-chains", (4000 if tier == "quick" else 400000) // 16, i) for i in range(16)]
    specs += [("alias-anon", (30000 if tier == "quick" else 2000000) // 16, i) for i in range(16)]
    specs += [("inherit", 1, 0, 1), ("inherit", 2, 0, 1)] + [("inherit", 3, i, 4) for i in range(4)]
    if tier == "thorough":
        specs += [("inherit", 4, i, 16) for i in range(16)]
    return specs


def main(tier, seed):
    paths = build.build("release", ("vh",))
    run = core.run_shards(__name__, PROP, tier, seed, paths, plan(tier, seed))
    return core.finish(
        run, "exploration",
        rule=("each case is a program generated from a graph: containment between struct / compact struct / enum-with-fields nodes "
              "(all digraphs with self-loops on <= 3 nodes x %d wrapper rotations so that every edge meets every wrapper form; all "
              "65536 digraphs on 4 nodes in thorough, a seed-rotated 1/4 in quick; random graphs on 5-10 nodes with multi-edges; "
              "random graphs on 2-6 nodes spread over 2-3 modules/files so that types share identifiers across modules; wrapper "
              "forms include tagged optional members; one field whose Result / Dictionary type has a user-defined type in *both* slots on top of "
              "every digraph on <= 3 nodes, and random graphs with several such fields), "
              "all 5^4 alias target graphs, all inheritance digraphs on <= 3 (thorough 4) interfaces. Reference: SCCs of the "
              "generating graph; every reported chain and note is validated against the generated fields. distinct_nontrivial = "
              "distinct graphs (with wrappers and node kinds) having at least one edge" % len(WRAPPERS)),
        required={"cyclic_cases": 500, "acyclic_cases": 50, "chains_checked": 500, "notes_checked": 500, "alias_cyclic": 100,
                  "alias_acyclic": 50, "inherit_acyclic": 20, "inherit_cyclic": 20, "alias_anon_graphs": 1000, "containment_module_cases": 4000, "two_slot_cases": 2000, "alias_chain_cases": 2000},
        assumptions=["a cycle through an optional, sequence, dictionary (key or value) or result is illegal, as the statement says",
                     "for alias and inheritance loops only rejection (some error, no crash) is required, not a particular code, "
                     "except that E019 must name an alias that really is on a loop"],
        exhaustive=True,
        extra_coverage={"exhaustive_space": "all digraphs on <= 3 nodes x %d wrapper rotations; all 625 alias graphs; all inheritance digraphs on <= 3 nodes" % len(WRAPPERS)},
    )
