"""C06 - conditional compilation selects exactly the right lines, in place.

Every source line k is the probe `struct L<k> {}`, so the set of lines that reached the parser and their positions are read
off CompilationState.files[i].contents (no hook). Oracle: vlib/preproc.py.
"""
import itertools
import random
import json
import re

from .. import build, core, preproc

PROP = "C06"

ALPHABET = ["P", "#define A", "#undef A", "#define B", "#if A", "#if B", "#if !A", "#if A && B", "#elif B", "#elif C",
            "#else", "#endif", ""]
SUBSETS = [s for n in range(4) for s in itertools.combinations("ABC", n)]


def render(seq, indent=None):
    """lines of a file: line 1 is the module declaration; 'P' becomes the probe for its own line number."""
    lines = ["module M"]
    for i, item in enumerate(seq):
        k = i + 2
        pad = indent[i] if indent else ""
        if item == "P":
            lines.append(pad + "struct L%d {}" % k)
        else:
            lines.append(pad + item)
    return lines


def plan(tier, seed):
    specs = []
    maxlen = 4 if tier == "quick" else 5
    for i in range(32):
        specs.append(("exhaustive", maxlen, i, 32))
    for i in range(16):
        specs.append(("expr", i, 16))
    n = 40000 if tier == "quick" else 400000
    for i in range(16):
        specs.append(("random", n // 16, i))
    if tier == "thorough":
        for i in range(16):
            specs.append(("sampled67", 300000 // 16, i))
    for i in range(4):
        specs.append(("multifile", (4000 if tier == "quick" else 40000) // 4, i))
    for i in range(8):
        specs.append(("chains", i, 8))
    specs.append(("tails",))
    n = 6000 if tier == "quick" else 80000
    for i in range(16):
        specs.append(("metamorphic", n // 16, i))
    return specs


PROBE_RE = re.compile(r"^L(\d+)$")


def judge(ctx, lines_per_file, defines, resp, family, eol="\n", extra_ok_codes=(), lint_probes=None):
    """Compares one response with the reference, for a (multi-file) case."""
    replay = {"kind": "library", "call": "compile_from_strings", "files": [eol.join(l) for l in lines_per_file],
              "defines": list(defines), "family": family}
    if "died" in resp or resp.get("panic"):
        p = resp.get("panic") or {"message": "worker " + resp["died"], "location": "?"}
        ctx.stats["crashes"] += 1
        ctx.violate(core.panic_signature(p), "preprocessing crashed: %s" % p, replay)
        return
    refs = [preproc.preprocess(lines, defines) for lines in lines_per_file]
    codes = resp["codes"]
    errors = [c for c in codes if c[1] == "error"]
    any_malformed = any(r[0] == "malformed" for r in refs)
    if any_malformed:
        ctx.stats["malformed_cases"] += 1
        # every malformed file must be reported with at least one syntax error located in that file
        for fi, r in enumerate(refs):
            if r[0] != "malformed":
                continue
            mine = [c for c in errors if c[0] == "E002" and c[2] and c[2][4] == "string-%d" % fi]
            if not mine:
                replay["reference"] = r[1]
                replay["observed_codes"] = codes
                ctx.violate("malformed-directive-not-reported:" + family,
                            "file %d has a malformed directive structure (%s) but no E002 was reported for it" % (fi, r[1]),
                            replay)
        return
    ctx.stats["wellformed_cases"] += 1
    # well-formed directive structure: no diagnostics except those the case itself planted
    unexpected = [c for c in codes if c[0] not in extra_ok_codes]
    files = resp.get("files") or []
    if unexpected:
        # a file whose probes all vanished together with... no: module line is always kept; nothing may be reported
        replay["observed_codes"] = codes
        ctx.violate("diagnostic-on-wellformed:" + family + ":" + unexpected[0][0],
                    "well-formed directives produced %r" % (unexpected[:3],), replay)
        return
    for fi, (lines, r) in enumerate(zip(lines_per_file, refs)):
        selected = r[1]
        expected = {}
        for k in selected:
            text = lines[k - 1]
            m = re.match(r"^(\s*)struct (L\d+) ", text)
            if m:
                expected[m.group(2)] = (k, len(m.group(1)) + 1, len(text.rstrip("\r")) + 1)
        got = {}
        f = files[fi] if fi < len(files) else {"defs": []}
        for kind, ident, sp in f["defs"]:
            if PROBE_RE.match(ident):
                if ident in got:
                    ctx.violate("probe-twice:" + family, "probe %s reached the parser twice" % ident, replay)
                got[ident] = sp
        ctx.stats["probes_expected"] += len(expected)
        ctx.stats["probes_removed"] += sum(1 for l in lines if re.match(r"^\s*struct L\d+ ", l)) - len(expected)
        if set(got) != set(expected):
            replay["expected_probes"] = sorted(expected)
            replay["observed_probes"] = sorted(got)
            missing = sorted(set(expected) - set(got))
            extra = sorted(set(got) - set(expected))
            ctx.violate("wrong-lines-selected:" + family,
                        "file %d: lines that reached the parser differ from the reference: missing %s, extra %s (-D %s)"
                        % (fi, missing, extra, list(defines)), replay)
            continue
        for ident, (row, col, endcol) in expected.items():
            sp = got[ident]
            ok = sp[0] == row and sp[1] == col and sp[2] == row and col + 7 + len(ident) <= sp[3] <= endcol
            if not ok:
                replay["probe"] = ident
                replay["observed_span"] = sp
                ctx.violate("probe-position-shifted:" + family,
                            "probe %s written at line %d col %d is reported at %s" % (ident, row, col, sp[:4]), replay)
                break
    # planted lints must be reported at their own line/column
    if lint_probes:
        for (fi, row, col, code) in lint_probes:
            refsel = refs[fi][1]
            hits = [c for c in codes if c[0] == code and c[2] and c[2][4] == "string-%d" % fi and c[2][0] == row]
            if row in refsel:
                ctx.stats["diagnostic_positions_checked"] += 1
                if not hits or hits[0][2][1] != col:
                    replay["planted"] = [fi, row, col, code]
                    replay["observed_codes"] = codes
                    ctx.violate("diagnostic-position-shifted:" + family,
                                "diagnostic %s planted at line %d col %d is reported at %s" % (code, row, col, [h[2][:4] for h in hits]),
                                replay)
            elif hits:
                ctx.violate("diagnostic-from-removed-line:" + family, "diagnostic from removed line %d" % row, replay)


# ---------------------------------------------------------------------------------------------------------------
# metamorphic families: the same file with its directives and unselected lines blanked by hand; and its ASCII twin

GARBAGE = ['$$$ "unterminated', "struct {{{{", "\\ 99 ::", "]] ) stream", "/// {@link", "module Other"]


def blanking_case(rng):
    """A generated valid program, one token per line or plainly laid out, with directive lines inserted at arbitrary line
    boundaries - inside definitions, attribute lists, parameter lists, doc comments - and its twin in which every directive
    line and every unselected line has been replaced by an empty line. Returns (lines, twin, defines)."""
    from ..slicegen import gen, printer
    prog = gen.valid_program(random.Random(rng.random()), max_files=1, max_defs=4, type_depth=2)
    gen.add_comments(prog, random.Random(rng.random()), density=0.3)
    style = rng.choice(["lines", "lines", "plain"])
    text = printer.print_program(prog, [printer.Layout(random.Random(rng.random()), style)])[0]
    src = text.split("\n")
    if src and src[-1] == "":
        src.pop()
    lines, twin = [], []
    i = 0
    n_ins = rng.randint(1, 6)
    points = sorted(rng.sample(range(1, len(src) + 1), min(n_ins, len(src)))) if src else []
    ind = lambda: rng.choice(["", "", "  ", "\t"])
    for k, line in enumerate(src):
        while points and points[0] == k:
            points.pop(0)
            kind = rng.random()
            if kind < 0.25:
                d = ind() + "#" + rng.choice(["define X", "undef T2", "define Y  // c", " define Z"])
                lines.append(d); twin.append("")
            elif kind < 0.5:
                # a selected region around nothing / around the next lines is transparent
                lines.append(ind() + "#if T"); twin.append("")
                lines.append(ind() + "#endif"); twin.append("")
            elif kind < 0.8:
                lines.append(ind() + "#if " + rng.choice(["F", "!T", "F && T", "(F)"])); twin.append("")
                for _ in range(rng.randint(1, 2)):
                    lines.append(rng.choice(GARBAGE)); twin.append("")
                lines.append(ind() + "#endif"); twin.append("")
            else:
                lines.append(ind() + "#if F"); twin.append("")
                lines.append(rng.choice(GARBAGE)); twin.append("")
                lines.append(ind() + "#elif T"); twin.append("")
                lines.append(ind() + "#else"); twin.append("")
                lines.append(rng.choice(GARBAGE)); twin.append("")
                lines.append(ind() + "#endif"); twin.append("")
        lines.append(line); twin.append(line)
    return lines, twin, ("T",)


def ascii_twin(text):
    return "".join(ch if ord(ch) < 128 else "x" for ch in text)


def _strip_text(x):
    """Keeps structure and every location of a dump, drops text that an ASCII twin legitimately changes."""
    if isinstance(x, dict):
        return {k: _strip_text(v) for k, v in x.items() if k not in ("args", "message", "text", "overview", "value_text")}
    if isinstance(x, list):
        return [_strip_text(v) for v in x]
    return x


def run_metamorphic(ctx, spec):
    _, count, idx = spec
    rng = ctx.rng("meta/%d" % idx)
    items, reqs = [], []
    for n in range(count):
        if n % 3 != 2:
            lines, twin, defines = blanking_case(rng)
            a, b = "\n".join(lines) + "\n", "\n".join(twin) + "\n"
            what = "blanking"
        else:
            c = random_file_case(rng)
            eol = c.get("eol", "\n")
            a = eol.join(c["files"][0]) + (eol if c.get("final_eol", True) else "")
            # non-ASCII text also after directives and at line ends, where positions of later diagnostics depend on it
            a = a.replace("// c", "// \u00e9\u4e2d\U0001F600").replace("#if A &", "#if A &  // \u20ac\u20ac")
            b = ascii_twin(a)
            defines = tuple(c["defines"])
            what = "ascii-twin"
            if a == b:
                continue
        items.append((what, a, b, defines))
        reqs.append({"op": "compile", "files": [a], "defines": list(defines), "want": ["ast", "codes"]})
        reqs.append({"op": "compile", "files": [b], "defines": list(defines), "want": ["ast", "codes"]})
    resps = ctx.worker.batch(reqs)
    for i, (what, a, b, defines) in enumerate(items):
        ra, rb = resps[2 * i], resps[2 * i + 1]
        ctx.note_case(("meta", what, a))
        ctx.stats["metamorphic_%s_pairs" % what.replace("-", "_")] += 1
        replay = {"kind": "library", "call": "compile_from_strings", "files": [a], "twin": [b], "defines": list(defines), "relation": what}
        if any("died" in r or r.get("panic") for r in (ra, rb)):
            p = ra.get("panic") or rb.get("panic") or {"message": "worker died", "location": "?"}
            ctx.violate(core.panic_signature(p), "preprocessing crashed: %s" % p, replay)
            continue
        ca = [(x[0], x[1], x[2]) for x in ra["codes"]]
        cb = [(x[0], x[1], x[2]) for x in rb["codes"]]
        if ca != cb:
            replay["diagnostics"] = ca[:6]
            replay["diagnostics_twin"] = cb[:6]
            ctx.violate("twin-diagnostics-differ:" + what, "diagnostics (code, level, location) differ between the file and its %s twin: %r vs %r"
                        % (what, ca[:3], cb[:3]), replay)
            continue
        fa, fb = ra.get("files"), rb.get("files")
        if what == "ascii-twin":
            fa, fb = _strip_text(fa), _strip_text(fb)
        if json.dumps(fa, sort_keys=True) != json.dumps(fb, sort_keys=True):
            ctx.violate("twin-ast-differs:" + what, "the AST (with every location) differs between the file and its %s twin" % what, replay)
    ctx.sample({"family": "metamorphic twins", "file": items[0][1][:600], "twin": items[0][2][:600]} if items else {"family": "metamorphic twins"}, limit=1)


def run_cases(ctx, cases, family):
    """cases: list of dicts {files: [lines...], defines, eol, extra_ok_codes, lint_probes}"""
    reqs = [{"op": "compile", "files": [c.get("eol", "\n").join(l) + (c.get("eol", "\n") if c.get("final_eol", True) else "")
                                       for l in c["files"]],
             "defines": list(c["defines"]), "want": ["brief", "codes"]} for c in cases]
    resps = ctx.worker.batch(reqs)
    for c, r in zip(cases, resps):
        judge(ctx, c["files"], c["defines"], r, family, c.get("eol", "\n"), c.get("extra_ok_codes", ()), c.get("lint_probes"))


# ---------------------------------------------------------------------------------------------------------------
# expression family

SYMS = ["A", "B", "C"]


def gen_exprs(depth):
    """All expression strings of the statement's grammar up to the given depth (as token lists)."""
    def terms(d):
        for s in SYMS:
            yield [s]
        if d > 0:
            for e in exprs(d - 1):
                yield ["("] + e + [")"]

    def exprs(d):
        for t in terms(d):
            yield t
            yield ["!"] + t
        if d > 0:
            for left in exprs(d - 1):
                for op in ("&&", "||"):
                    for t in terms(0):
                        yield left + [op] + t
                    if d > 1:
                        for t in terms(1):
                            if t[0] == "(":
                                yield left + [op] + t
    return exprs(depth)


def run_shard(ctx, spec):
    kind = spec[0]
    if kind == "exhaustive":
        _, maxlen, idx, n = spec
        batch = []
        count = 0
        for length in range(0, maxlen + 2):
            for seq in itertools.product(ALPHABET, repeat=length):
                count += 1
                if count % n != idx:
                    continue
                if length == maxlen + 1 and ((count // n) + ctx.seed) % 4 != 0:
                    continue    # one length beyond the exhaustive bound: a seed-rotated quarter
                lines = render(seq)
                for defs in SUBSETS:
                    batch.append({"files": [lines], "defines": defs})
                    ctx.note_case(("ex", seq, defs), nontrivial=any(x.startswith("#") for x in seq))
                if len(batch) >= 800:
                    run_cases(ctx, batch, "exhaustive")
                    batch = []
        if batch:
            run_cases(ctx, batch, "exhaustive")
        ctx.sample({"family": "exhaustive", "example_file": render(("#if A", "P", "#elif B", "P", "#endif")), "defines": ["B"]}, limit=1)
    elif kind == "expr":
        _, idx, n = spec
        depth = 3
        batch = []
        rng = ctx.rng("expr/%d" % idx)
        seen = 0
        for i, toks in enumerate(gen_exprs(depth)):
            if i % n != idx:
                continue
            if depth == 3 and len(toks) > 9 and rng.random() < 0.9:
                continue
            seen += 1
            variants = [toks]
            # malformed neighbours: every single-token deletion, and insertion of each operator token at a random place
            if rng.random() < (0.5 if depth == 2 else 0.08):
                for j in range(len(toks)):
                    variants.append(toks[:j] + toks[j + 1:])
                for ins in ("!", "&&", "||", "(", ")", "A"):
                    j = rng.randrange(len(toks) + 1)
                    variants.append(toks[:j] + [ins] + toks[j:])
            for v in variants:
                sep = rng.choice([" ", " ", "", "  "])
                text = sep.join(v) if sep or all(len(t) == 1 or t in ("&&", "||") for t in v) else " ".join(v)
                # adjacent identifiers must stay separated
                text = re.sub(r"([A-Za-z0-9_])(?=[A-Za-z0-9_])", r"\1", text)
                if re.search(r"[A-Za-z]{2}", text):
                    text = " ".join(v)
                lines = ["module M", "#if " + text, "struct L3 {}", "#else", "struct L5 {}", "#endif"]
                for defs in SUBSETS:
                    batch.append({"files": [lines], "defines": defs})
                    ctx.note_case(("expr", text, defs))
                    ctx.stats["expression_cases"] += 1
            if len(batch) >= 800:
                run_cases(ctx, batch, "expr")
                batch = []
        if batch:
            run_cases(ctx, batch, "expr")
        ctx.sample({"family": "expr", "example": "#if !(A || B) && C"}, limit=1)
    elif kind in ("random", "sampled67"):
        _, count, idx = spec
        rng = ctx.rng("%s/%d" % (kind, idx))
        batch = []
        for _ in range(count):
            if kind == "sampled67":
                seq = [rng.choice(ALPHABET) for _ in range(rng.choice([6, 7]))]
                c = {"files": [render(seq)], "defines": rng.choice(SUBSETS)}
                ctx.note_case(("s67", tuple(seq), c["defines"]))
            else:
                c = random_file_case(rng)
                ctx.note_case(("rnd", tuple(c["files"][0]), tuple(c["defines"])))
            batch.append(c)
            if len(batch) >= 400:
                run_cases(ctx, batch, kind)
                batch = []
        if batch:
            run_cases(ctx, batch, kind)
        if kind == "random":
            ctx.sample({"family": "random", "file": batch[-1]["files"][0] if batch else random_file_case(rng)["files"][0]}, limit=1)
    elif kind == "chains":
        # #if / #elif ... / #else chains of 2-4 (thorough 5) sections, every section with its own condition and its own
        # #define: exactly the first true section is selected, whatever holds further down the chain
        _, idx, n = spec
        conds = ["A", "B", "C", "!A", "!B", "A && B", "A || C"]
        batch = []
        count = 0
        for k in ((2, 3, 4) if ctx.tier == "quick" else (2, 3, 4, 5)):
            for combo in itertools.product(conds, repeat=k):
                count += 1
                if count % n != idx:
                    continue
                if k >= 4 and ctx.tier == "quick" and ((count // n) + ctx.seed) % 6 != 0:
                    continue
                if k >= 5 and ((count // n) + ctx.seed) % 4 != 0:
                    continue
                for with_else in (True, False):
                    lines = ["module M"]
                    for j, cnd in enumerate(combo):
                        lines.append(("#if " if j == 0 else "#elif ") + cnd)
                        lines.append("#define S%d" % j)
                        lines.append("struct L%d {}" % (len(lines) + 1))
                    if with_else:
                        lines.append("#else")
                        lines.append("struct L%d {}" % (len(lines) + 1))
                    lines.append("#endif")
                    # what the selected section defined must be visible afterwards, and nothing else
                    for j in range(k):
                        lines.append("#if S%d" % j)
                        lines.append("struct L%d {}" % (len(lines) + 1))
                        lines.append("#endif")
                    for defs in SUBSETS:
                        batch.append({"files": [lines], "defines": defs})
                        ctx.note_case(("chain", combo, with_else, defs))
                        ctx.stats["chain_cases"] += 1
                if len(batch) >= 800:
                    run_cases(ctx, batch, "chains")
                    batch = []
        if batch:
            run_cases(ctx, batch, "chains")
    elif kind == "tails":
        # every directive of a well-formed skeleton followed by every kind of tail: blanks and // comments are fine, anything
        # else is a malformed directive (or, after #if / #elif, part of the expression) and must be reported
        skeleton = ["module M", "#define Q", "#if A", "struct L4 {}", "#elif B", "struct L6 {}", "#else", "struct L8 {}", "#endif",
                    "#undef Q", "#if Q", "struct L12 {}", "#endif", "struct L14 {}"]
        tails = ["", " ", "\t", " // c", "// c", " /* c */", " x", " A", " B", " 1", " ;", " !", " (", " )", " && B", " || A", " #define B",
                 " if B", " #", " struct X {}", " \\", " \"s\"", " ::", " é", " /", " //", " ///", "\u00a0", "\u3000x", " else", " endif"]
        batch = []
        for li, line in enumerate(skeleton):
            if not line.startswith("#"):
                continue
            for tail in tails:
                lines = list(skeleton)
                lines[li] = line + tail
                for defs in SUBSETS:
                    batch.append({"files": [lines], "defines": defs})
                    ctx.note_case(("tail", li, tail, defs))
                    ctx.stats["tail_cases"] += 1
        run_cases(ctx, batch, "tails")
    elif kind == "metamorphic":
        run_metamorphic(ctx, spec)
    elif kind == "multifile":
        _, count, idx = spec
        rng = ctx.rng("multi/%d" % idx)
        batch = []
        for _ in range(count):
            nfiles = rng.choice([2, 3])
            files = []
            for fi in range(nfiles):
                # file fi defines symbol F<fi> unconditionally and probes every other file's symbols: leaks show as extra probes
                lines = ["module M%d" % fi]
                if rng.random() < 0.8:
                    lines.append("#define F%d" % fi)
                if rng.random() < 0.3:
                    lines.append("#undef X")
                for other in range(nfiles):
                    lines.append("#if F%d" % other)
                    lines.append("struct L%d {}" % (len(lines) + 1))
                    lines.append("#endif")
                lines.append("#if X")
                lines.append("struct L%d {}" % (len(lines) + 1))
                lines.append("#endif")
                files.append(lines)
            defs = rng.choice([(), ("X",), ("F0",), ("F1", "X")])
            batch.append({"files": files, "defines": defs})
            ctx.note_case(("multi", tuple(map(tuple, files)), defs))
            ctx.stats["multifile_cases"] += 1
        run_cases(ctx, batch, "multifile")


def random_file_case(rng):
    """A longer file: nesting up to 5, indentation before '#', blanks after '#', trailing comments, CRLF, garbage inside
    blocks, planted lints. Mostly well-formed; sometimes deliberately broken."""
    syms = ["A", "B", "C", "Dd", "E_1"]
    lines = ["module M", "[deprecated] struct D {}"]
    lint_probes = []
    ctx_doc = [0]
    depth_stack = []  # per open #if: seen_else

    def expr():
        form = rng.random()
        s = rng.choice(syms)
        if form < 0.3:
            return s
        if form < 0.45:
            return "!" + s
        if form < 0.6:
            return "!(%s %s %s)" % (s, rng.choice(["&&", "||"]), rng.choice(syms))
        if form < 0.8:
            return "%s %s %s %s %s" % (s, rng.choice(["&&", "||"]), rng.choice(syms), rng.choice(["&&", "||"]), rng.choice(syms))
        return "(%s %s %s) %s (%s)" % (s, rng.choice(["&&", "||"]), rng.choice(syms), rng.choice(["&&", "||"]), rng.choice(syms))

    def directive(body):
        ind = rng.choice(["", "", "  ", "\t", "    "])
        gap = rng.choice(["", "", " ", "  "])
        tail = rng.choice(["", "", "", " // note", "  //", " // é中"])
        return ind + "#" + gap + body + tail

    n = rng.randint(8, 58)
    while len(lines) < n:
        r = rng.random()
        k = len(lines) + 1
        if r < 0.35:
            ind = rng.choice(["", "", "  ", "\t"])
            form = rng.random()
            if form < 0.7:
                lines.append(ind + "struct L%d {}" % k)
            elif form < 0.85:
                lines.append(ind + "struct L%d { f: D }" % k)
                lint_probes.append((0, k, len(ind) + len("struct L%d { f: " % k) + 1, "Deprecated"))
            else:
                lines.append(ind + "struct L%d {} // é中文 #if A" % k)
        elif r < 0.38:
            lines.append(rng.choice(["", "  ", "// #if A inside a comment is not first on its line? it is not a directive here"]))
        elif r < 0.42:
            # a doc-comment line with a link that cannot be resolved: directives (and removed lines) may separate it from the other
            # lines of its comment and from the definition it documents; the lint is reported at the link's own line and column
            ind = rng.choice(["", "  ", "\t", "    "])
            head = ind + "///" + rng.choice([" ", "  ", "\t", " é中 ", " see "]) + "{@link "
            lines.append(head + "Missing%d}" % k + rng.choice(["", " tail", " é", " {@link AlsoMissing%d}" % k]))
            lint_probes.append((0, k, len(head) + 1, "BrokenDocLink"))
            ctx_doc[0] += 1
        elif r < 0.55:
            lines.append(directive(rng.choice(["define ", "undef "]) + rng.choice(syms)))
        elif r < 0.72 and len(depth_stack) < 5:
            lines.append(directive("if " + expr()))
            depth_stack.append(False)
        elif r < 0.80 and depth_stack and not depth_stack[-1]:
            lines.append(directive("elif " + expr()))
        elif r < 0.87 and depth_stack and not depth_stack[-1]:
            lines.append(directive("else"))
            depth_stack[-1] = True
        elif r < 0.97 and depth_stack:
            lines.append(directive("endif"))
            depth_stack.pop()
        else:
            lines.append("struct L%d {}" % k)
    while depth_stack:
        lines.append(directive("endif"))
        depth_stack.pop()
    if ctx_doc[0]:
        lines.append("struct L%d {}" % (len(lines) + 1))     # whatever doc comment is still pending documents this one
        if rng.random() < 0.6:
            # ... and the file may still end in a directive line (with its trailing comment, multi-byte or not, and no line break)
            lines.append(directive(rng.choice(["define ", "undef "]) + rng.choice(syms)))
    defines = tuple(s for s in syms if rng.random() < 0.4)
    case = {"files": [lines], "defines": defines, "extra_ok_codes": ("Deprecated", "BrokenDocLink"), "lint_probes": lint_probes}
    # garbage inside regions the reference says are removed (must never reach the Slice lexer)
    ref = preproc.preprocess(lines, defines)
    if ref[0] == "ok" and rng.random() < 0.5:
        removed = [i for i, l in enumerate(lines, start=1) if re.match(r"^\s*struct L\d+ \{\}$", l) and i not in ref[1]]
        for i in removed[:3]:
            lines[i - 1] = rng.choice(['$$$ "unterminated', "/* never closed", "struct {{{{", "\\ 99 ::"])
    if rng.random() < 0.25:
        case["eol"] = "\r\n"
    if rng.random() < 0.3:
        case["final_eol"] = False
    # deliberate breakage
    b = rng.random()
    if b < 0.06:
        idxs = [i for i, l in enumerate(lines) if "#" in l and "endif" in l]
        if idxs:
            del lines[rng.choice(idxs)]
            case["lint_probes"] = None
            _renumber(case)
    elif b < 0.10:
        lines.insert(rng.randrange(2, len(lines) + 1), rng.choice(["#", "#foo", "#if", "#if A &", "#else x", "#define", "#if A B",
                                                                 "#endif A", "#if (A", "#if A && !B", "#elif", "#define 1A", "# if A ||"]))
        case["lint_probes"] = None
        _renumber(case)
    return case


def _renumber(case):
    """After inserting/deleting a line the probes must again carry their own line numbers."""
    lines = case["files"][0]
    for i, l in enumerate(lines, start=1):
        lines[i - 1] = re.sub(r"struct L\d+ ", "struct L%d " % i, l)


def main(tier, seed):
    paths = build.build("release", ("vh",))
    run = core.run_shards(__name__, PROP, tier, seed, paths, plan(tier, seed))
    maxlen = 4 if tier == "quick" else 5
    return core.finish(
        run, "exploration",
        rule=("each case = one or more files in which every source line k is the probe `struct L<k> {}` plus a -D set; the probes "
              "present in the AST and their spans are compared with the reference preprocessor; malformed structures must yield "
              "E002. Families: all sequences of <= %d lines over a 13-letter alphabet x all 8 subsets of {A,B,C}; all expressions "
              "of depth <= %d with malformed neighbours x 8 valuations; random files (nesting <= 5, indentation, trailing comments, "
              "CRLF, garbage in removed regions, planted lints); multi-file leak tests; all #if/#elif chains of 2-3 sections (sampled: 4, "
              "thorough 5) over 7 conditions with and without #else, each section with its own #define probed afterwards, x 8 "
              "valuations; every directive of a well-formed skeleton x 31 line tails; metamorphic twins: generated programs with "
              "directive lines inserted at arbitrary line boundaries (inside definitions, attribute and parameter lists, doc comments) "
              "vs the same text with directives and unselected lines blanked by hand (AST with every location and all diagnostics "
              "identical), and files vs their ASCII twins (every non-ASCII character replaced 1:1; all locations identical). "
              "distinct_nontrivial = distinct (file text, "
              "-D set) pairs containing at least one directive" % (maxlen, 2 if tier == "quick" else 3)),
        required={"wellformed_cases": 1000, "malformed_cases": 500, "probes_expected": 1000, "probes_removed": 1000,
                  "expression_cases": 500, "multifile_cases": 50, "diagnostic_positions_checked": 50, "chain_cases": 5000, "tail_cases": 1000, "metamorphic_blanking_pairs": 2000, "metamorphic_ascii_twin_pairs": 500},
        assumptions=["expression semantics: '&&' and '||' equal precedence, left-associative, '!' only leading an (sub)expression "
                     "(named as deliberate in the property's why_tests_cant)",
                     "a '#'-first line inside a block comment is not generated (the rule is purely line based)"],
        exhaustive=True,
        extra_coverage={"exhaustive_space": "all line sequences of length <= %d over the 13-letter alphabet x 8 -D subsets" % maxlen},
    )
