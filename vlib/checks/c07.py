"""C07 - code generation happens only after an error-free compilation.

Observation points: the invocation log written by instrumented fake generators, the contents of the output directory,
the exit status and the error diagnostics on stderr; thorough tier: a sample is re-run under strace and the same facts are
read off the syscall log.
"""
import itertools
import os
import re
import subprocess

from .. import build, core, genrun

PROP = "C07"

CLEAN = "module M\nstruct S { a: int32 }\ninterface I { op(s: S) -> bool }\n"
OTHER = "module N\nenum E { A, B }\n"

# program classes: name -> (files {name: text|bytes}, argv-files, expects_error, lint)
WARN_CLASSES = {
    "warn-deprecated": ("module M\n[deprecated] struct D {}\nstruct U { d: D }\n", "Deprecated"),
    "warn-broken-link": ("module M\n/// {@link Nope}\nstruct S {}\n", "BrokenDocLink"),
    "warn-incorrect-doc": ("module M\n/// @param x: no such\nstruct S {}\n", "IncorrectDocComment"),
    "warn-malformed-doc": ("module M\n/// {@link S\nstruct S {}\n", "MalformedDocComment"),
}
ERROR_CLASSES = {
    "err-missing-file": None,
    "err-not-slice": None,
    "err-invalid-utf8": b"module M\nstruct S\xff\xfe {}\n",
    "err-directory-as-source": None,
    "err-preprocessor": "module M\n#if\nstruct S {}\n",
    "err-preprocessor-unbalanced": "module M\n#if A\nstruct S {}\n",
    "err-syntax": "module M\nstruct {\n",
    "err-lexer": "module M\nstruct S { a: $ }\n",
    "err-no-module": "struct S {}\n",
    "err-unknown-attribute": "module M\n[foo] struct S {}\n",
    "err-attribute-args": "module M\ninterface I { [compress] op() }\n",
    "err-unresolved-type": "module M\nstruct S { a: Nope }\n",
    "err-wrong-kind": "module M\ninterface I {}\nstruct S { a: I }\n",
    "err-alias-loop": "module M\ntypealias A = B\ntypealias B = A\n",
    "err-cycle": "module M\nstruct S { s: S }\n",
    "err-inheritance-loop": "module M\ninterface I : I {}\n",
    "err-redefinition": "module M\nstruct S {}\nstruct S {}\n",
    "err-duplicate-tag": "module M\nstruct S { tag(1) a: bool?, tag(1) b: bool? }\n",
    "err-compact-empty": "module M\ncompact struct S {}\n",
    "err-enum-value": "module M\nenum E : uint8 { A = 256 }\n",
    "err-dictionary-key": "module M\nstruct S { d: Dictionary<float32, bool> }\n",
    "err-stream-not-last": "module M\ninterface I { op(a: stream bool, b: bool) }\n",
    "err-alias-optional": "module M\ntypealias A = bool?\n",
    "err-invalid-attribute-place": "module M\n[oneway] struct S {}\n",
    "err-integer-literal": "module M\nenum E : uint8 { A = 0xZZ }\n",
    # a file that declares no module can still be wrong
    "err-attribute-on-module-less-file": "[[deprecated]]\n",
    "err-attribute-on-module-less-file-2": "[[oneway]]\n// nothing else\n",
    "err-attribute-on-hidden-module-file": "[[compress(Args)]]\n#if NOPE\nmodule Hidden\nstruct H {}\n#endif\n",
    "err-attribute-on-base": "module M\ninterface B {}\ninterface I : [deprecated] B {}\n",
}


def classes():
    yield "clean", CLEAN, False, None
    for k, (t, lint) in WARN_CLASSES.items():
        yield k, t, False, lint
    yield "warn-duplicate-file", CLEAN, False, "DuplicateFile"
    for k, t in ERROR_CLASSES.items():
        yield k, t, True, None


GEN_SETS = [(), ("ok0",), ("ok2",), ("fail",), ("ok2", "ok0"), ("ok2", "fail"), ("fail", "ok2"), ("ok2", "ok2b", "fail"),
            ("failsig",), ("ok2", "failsig"), ("failsig", "fail", "ok2")]


def cases(tier, rng):
    out = []
    for cname, text, is_err, lint in classes():
        for nfiles in (1, 2, 3):
            for pos in range(nfiles):
                combos = list(itertools.product(GEN_SETS, [False, True], ["none", "all", "lint"], [None, "out"], ["human", "json"]))
                k = 10 if tier == "quick" else len(combos)   # thorough: every combination
                # always include the plain combination with a healthy generator; sample the rest
                chosen = [(("ok2",), False, "none", None, "human"), (("ok2", "fail"), True, "lint", "out", "json")] + rng.sample(combos, k)
                for c in chosen:
                    out.append((cname, text, is_err, lint, nfiles, pos) + c)
    return out


def run_case(ctx, root, n, case, strace=False):
    cname, text, is_err, lint, nfiles, pos, gens, dry, allow, outdir, fmt = case
    dup = True
    gc = genrun.GenCase(ctx, root, "c%d" % n)
    argv = []
    names = []
    for i in range(nfiles):
        if i == pos:
            if cname == "err-missing-file":
                names.append("missing.slice")
            elif cname == "err-not-slice":
                names.append(gc.write("notslice.txt", CLEAN))
            elif cname == "err-directory-as-source":
                os.makedirs(os.path.join(gc.dir, "adir"))
                gc.write("adir/inner.slice", OTHER)
                names.append("adir")
            elif isinstance(text, bytes):
                names.append(gc.write("bad%d.slice" % i, text, binary=True))
                if (n + nfiles) % 2 == 0:
                    names.append("./" + names[-1])
            else:
                names.append(gc.write("main%d.slice" % i, text))
                if cname == "warn-duplicate-file" or (dup and (n + nfiles) % 2 == 0):
                    names.append("./" + names[-1])     # the same file again under another spelling: a DuplicateFile warning
        else:
            names.append(gc.write("other%d.slice" % i, OTHER.replace("module N", "module N%d" % i)))
    argv += names
    expected_files = {}
    started_expected = {}
    gen_error_expected = 0
    for g in gens:
        if g == "ok0":
            path = gc.add_generator("ok", genrun.reply_files([]), tag=g)
        elif g in ("ok2", "ok2b"):
            files = [("%s_a.txt" % g, "content a of %s\n" % g), ("sub_%s.txt" % g, "é content\n")]
            path = gc.add_generator("ok", genrun.reply_files(files), tag=g)
            for p, c in files:
                expected_files[p] = c
        elif g == "failsig":
            # a complete, valid reply and then death by a signal: still a failed generator
            path = gc.add_generator("replykill", genrun.reply_files([("from_killed.txt", "must not appear\n")]), tag=g)
        else:
            path = gc.add_generator("exit1", genrun.reply_files([("from_failing.txt", "must not appear\n")]), tag=g)
        argv += ["-G", path + (",opt=1" if g == "ok2" else "")]
    if dry:
        argv.append("--dry-run")
    if allow == "all":
        argv += ["-A", "All"]
    elif allow == "lint" and lint:
        argv += ["--allow", lint]
    if outdir:
        os.makedirs(os.path.join(gc.dir, outdir))
        argv += ["-O", outdir]
    if fmt == "json":
        argv += ["--diagnostic-format", "json"]
    before = gc.snapshot()
    if strace:
        trace = os.path.join(root, "trace-%d.txt" % n)     # outside the watched case directory
        p = subprocess.run(["strace", "-f", "-qq", "-e", "trace=execve,openat,creat", "-o", trace, ctx.paths["slicec"]] + argv,
                           cwd=gc.dir, env=dict(os.environ, FAKEGEN_LOG=gc.log), stdout=subprocess.PIPE, stderr=subprocess.PIPE)
        res = core.ProcResult(status=p.returncode if p.returncode >= 0 else None, signal=-p.returncode if p.returncode < 0 else None,
                              stdout=p.stdout, stderr=p.stderr, cpu_s=0, maxrss_kb=0, wall_s=0, timed_out=False)
    else:
        res = gc.run(argv)
    after = gc.snapshot()
    invoked = gc.invoked()
    replay = {"kind": "binary", "argv": argv, "class": cname, "files": {n_: (text if isinstance(text, str) else repr(text)) for n_ in names[:1]},
              "observed": res.brief(), "invoked": invoked, "new_files": sorted(set(after) - set(before))}
    ctx.note_case(("c07", cname, nfiles, pos, gens, dry, allow, outdir, fmt))
    ctx.stats["runs"] += 1
    try:
        if res.timed_out:
            ctx.inconclusive.append({"case": cname, "why": "watchdog"})
            return
        crash = res.crashed()
        if crash:
            p = core.stderr_panic(res.stderr) or {"message": crash, "location": "?"}
            ctx.violate(core.panic_signature(p) if p["location"] != "?" else "crash:" + cname, "slicec crashed: %s" % crash, replay)
            return
        should_generate = (not is_err) and (not dry)
        nerr = genrun.count_errors(res.stderr, fmt)
        started = sum(invoked.values())
        new_files = set(after) - set(before)
        changed = {k for k in before if k in after and after[k] != before[k]}
        prefix = (outdir + "/") if outdir else ""
        if should_generate:
            ctx.stats["runs_expected_to_generate"] += 1
            if gens:
                ctx.stats["generation_observed_possible"] += 1
            for name, _ in gc.generators:
                if invoked.get(name, 0) != 1:
                    ctx.violate("generator-not-started:" + ("warnings-only" if lint else "clean"),
                                "error-free compilation (%s) without --dry-run: generator %s was started %d time(s)"
                                % (cname, name, invoked.get(name, 0)), replay)
                    return
            want = {prefix + p for p in expected_files}
            if new_files != want:
                ctx.violate("generated-files-differ", "files written %r, healthy generators returned %r" % (sorted(new_files), sorted(want)), replay)
                return
            n_failing = sum(1 for g in gens if g in ("fail", "failsig"))
            if nerr != n_failing:
                ctx.violate("error-count-after-generation", "%d error diagnostics, %d generator(s) failed" % (nerr, n_failing), replay)
                return
            gen_error_expected = n_failing
            ctx.stats["generator_invocations"] += started
        else:
            ctx.stats["runs_expected_not_to_generate"] += 1
            ctx.stats["suppressed_%s" % ("dry_run" if (dry and not is_err) else "error")] += 1
            if started:
                why = "--dry-run was given" if dry and not is_err else "an error was reported (%s)" % cname
                ctx.violate("generator-started-although:" + ("dry-run" if dry and not is_err else "error"),
                            "%s but generators were started: %r" % (why, invoked), replay)
                return
            if new_files or changed:
                ctx.violate("files-written-although-gated", "files written although generation must not happen: %r" % sorted(new_files | changed), replay)
                return
            if is_err and nerr == 0:
                ctx.violate("error-not-emitted:" + cname, "class %s must report an error, none on stderr" % cname, replay)
                return
        # exit status <=> at least one error diagnostic emitted
        if (res.status != 0) != (nerr > 0):
            ctx.violate("exit-status-vs-errors", "exit status %r with %d error diagnostic(s) emitted" % (res.status, nerr), replay)
            return
        if not is_err and gen_error_expected == 0 and res.status != 0:
            ctx.violate("warnings-fail-the-run", "no error anywhere but exit status %r" % res.status, replay)
            return
        if strace:
            with open(os.path.join(root, "trace-%d.txt" % n), errors="replace") as f:
                t = f.read()
            os.unlink(os.path.join(root, "trace-%d.txt" % n))
            # attempted execs of a generator; with -f a call can be split into "<unfinished ...>" / "resumed" lines, the
            # path is on the first of them
            execs = [l for l in t.splitlines() if re.search(r'execve\("[^"]*/gen-[^"/]*"', l) and "= -1" not in l]
            creates = [l for l in t.splitlines() if ("O_CREAT" in l or "creat(" in l) and ".txt" in l and " = -1" not in l]
            ctx.stats["strace_runs"] += 1
            if should_generate:
                if len(execs) != len(gens):
                    ctx.violate("strace:exec-count", "%d generator execve calls, %d expected" % (len(execs), len(gens)), replay)
            elif execs or creates:
                ctx.violate("strace:gated-but-syscalls", "gated run issued %r %r" % (execs[:2], creates[:2]), replay)
    finally:
        gc.cleanup()


def run_shard(ctx, spec):
    _, idx, n = spec
    rng = ctx.rng("cases")
    allc = cases(ctx.tier, rng)
    root = os.path.join(ctx.tmpdir(), "s%d" % idx)
    os.makedirs(root)
    for i, c in enumerate(allc):
        if i % n != idx:
            continue
        run_case(ctx, root, i, c, strace=(ctx.tier == "thorough" and i % 40 == 0))
    if idx == 0:
        ctx.sample({"class": "err-cycle", "argv": ["other0.slice", "main1.slice", "-G", "./gen-ok-ok2,opt=1", "-G", "./gen-exit1-fail", "--dry-run"]}, limit=1)


def plan(tier, seed):
    return [("cases", i, 16) for i in range(16)]


def main(tier, seed):
    paths = build.build("release", ("slicec", "vh"))
    run = core.run_shards(__name__, PROP, tier, seed, paths, plan(tier, seed))
    return core.finish(
        run, "exploration",
        rule=("case = (program class, number of files 1-3, position of the interesting file, generator set from {none, healthy with "
              "0/2 files, failing}, --dry-run, -A none/All/the lint, -O, diagnostic format). Program classes: clean, warnings only "
              "(each lint incl. DuplicateFile), %d single-error classes covering every phase (I/O, preprocessor, lexer, parser, "
              "attribute patcher, type patcher, cycle detection, redefinition, validators). Every class runs with the plain "
              "combination and a seed-chosen sample of the others. distinct_nontrivial = distinct cases" % len(ERROR_CLASSES)),
        required={"runs": 300, "generator_invocations": 50, "suppressed_error": 100, "suppressed_dry_run": 20,
                  "runs_expected_to_generate": 50},
        assumptions=["a failing generator (exit 1) is an error diagnostic (E001) and makes the exit status non-zero",
                     "human format: an error diagnostic is a line starting with 'error ['; JSON: a line with \"severity\":\"error\""],
    )
