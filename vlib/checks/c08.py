"""C08 - the encoded generator request is decodable and says what the AST says.

Observation points: the bytes a capturing fake generator received on stdin from the real binary, and the AST of the same
files as seen through the library API (worker, compile_from_options). Oracle: vlib/wire.py, a decoder driven by the schema
parsed at run time from <repo>/slice/Compiler/*.slice.
"""
import itertools
import os
import random
import shutil

from .. import build, core, wire
from ..slicegen import gen, printer

PROP = "C08"
ANON = {"SequenceType", "DictionaryType", "ResultType"}


class Mismatch(Exception):
    def __init__(self, sig, what):
        super().__init__(what)
        self.sig = sig
        self.what = what


def want_attr(a):
    k = a["kind"]
    if k in ("unparsed", "allow"):
        args = list(a["args"])
    elif k in ("compress", "slicedFormat"):
        args = [n for n, key in (("Args", "args"), ("Return", "return")) if a["args"][key]]
    elif k == "deprecated":
        args = [a["args"]["reason"]] if a["args"]["reason"] is not None else []
    elif k == "oneway":
        args = []
    else:
        raise Mismatch("harness", "unknown attribute kind in dump: %r" % a)
    return {"directive": a["directive"], "args": args}


def got_attrs(lst):
    return [{"directive": a["directive"], "args": a["args"]} for a in lst]


def want_link(l):
    if "patched" in l:
        return l["patched"]["psid"]
    return l["unpatched"]["value"]


def want_message(m):
    out = []
    for c in m["value"]:
        if "text" in c:
            out.append(("Text", c["text"]))
        else:
            out.append(("Link", want_link(c["link"])))
    return out


def got_message(lst):
    return [(c["variant"], c["v"]) for c in lst]


class FileCmp:
    def __init__(self, decoded_file, all_entities, resolved_links):
        self.f = decoded_file
        self.contents = decoded_file["contents"]
        self.all_entities = all_entities
        self.resolved_links = resolved_links
        self.referenced = set()

    def resolve_type(self, tr, owner_index, where):
        """Expands a decoded TypeRef into a structural tree, checking the numeric-id rule."""
        tid = tr["typeId"]
        node = {"optional": tr["isOptional"], "attrs": got_attrs(tr["typeAttributes"])}
        if tid.isdigit():
            n = int(tid)
            if str(n) != tid:
                raise Mismatch("type-id-not-canonical", "%s: numeric type id %r" % (where, tid))
            if n >= owner_index:
                raise Mismatch("numeric-type-id-not-earlier", "%s: type id %d is not earlier than symbol %d that uses it" % (where, n, owner_index))
            sym = self.contents[n]
            if sym["variant"] not in ANON:
                raise Mismatch("numeric-type-id-not-anonymous", "%s: type id %d designates a %s symbol" % (where, n, sym["variant"]))
            self.referenced.add(n)
            v = sym["v"]
            if sym["variant"] == "SequenceType":
                node["def"] = ("sequence", [self.resolve_type(v["elementType"], n, where + "/element")])
            elif sym["variant"] == "DictionaryType":
                node["def"] = ("dictionary", [self.resolve_type(v["keyType"], n, where + "/key"), self.resolve_type(v["valueType"], n, where + "/value")])
            else:
                node["def"] = ("result", [self.resolve_type(v["successType"], n, where + "/success"), self.resolve_type(v["failureType"], n, where + "/failure")])
        else:
            node["def"] = ("named", tid)
            if tid not in wire.PRIMS and tid not in self.all_entities:
                raise Mismatch("named-type-id-unknown", "%s: type id %r names no transmitted entity" % (where, tid))
        return node

    def want_type(self, t):
        node = {"optional": t["optional"], "attrs": [want_attr(a) for a in t["attrs"]]}
        d = t["def"]
        if "primitive" in d:
            node["def"] = ("named", d["primitive"])
        elif "sequence" in d:
            node["def"] = ("sequence", [self.want_type(d["sequence"])])
        elif "dictionary" in d:
            node["def"] = ("dictionary", [self.want_type(x) for x in d["dictionary"]])
        elif "result" in d:
            node["def"] = ("result", [self.want_type(x) for x in d["result"]])
        else:
            key = next(k for k in ("struct", "enum", "custom") if k in d)
            node["def"] = ("named", d[key])
        return node

    def eq(self, sig, where, got, want):
        if got != want:
            raise Mismatch(sig, "%s: request says %r, the AST says %r" % (where, _short(got), _short(want)))

    def entity_info(self, info, e, where, comment="own"):
        self.eq("identifier", where + ".identifier", info["identifier"], e["id"])
        self.eq("attributes", where + ".attributes", got_attrs(info["attributes"]), [want_attr(a) for a in e["attrs"]])
        if comment == "own":
            c = e.get("comment")
            if c is None:
                self.eq("comment-presence", where + ".comment", info["comment"], None)
            else:
                if info["comment"] is None:
                    raise Mismatch("comment-missing", "%s: doc comment not transmitted" % where)
                want_over = want_message(c["overview"]) if c["overview"] else []
                self.eq("comment-overview", where + ".comment.overview", got_message(info["comment"]["overview"]), want_over)
                self.eq("comment-see", where + ".comment.seeTags", info["comment"]["seeTags"], [want_link(s["link"]) for s in c["see"]])
                self.check_links(info["comment"], c, where)

    def check_links(self, got_comment, c, where):
        for s in c["see"]:
            if "patched" in s["link"] and s["link"]["patched"]["psid"] not in self.all_entities:
                raise Mismatch("resolved-link-unknown", "%s: resolved @see %r names no transmitted entity" % (where, s["link"]["patched"]["psid"]))
        for m in ([c["overview"]] if c["overview"] else []) + [p["message"] for p in c["params"]] + [p["message"] for p in c["returns"]]:
            for comp in m["value"]:
                if "link" in comp and "patched" in comp["link"] and comp["link"]["patched"]["psid"] not in self.all_entities:
                    raise Mismatch("resolved-link-unknown", "%s: resolved link %r names no transmitted entity" % (where, comp["link"]["patched"]["psid"]))

    def member_doc(self, info, want_msg, where, what):
        """Documentation of a parameter / return value: the message of its tag on the operation's comment."""
        if want_msg is None:
            self.eq(what + "-doc-unexpected", where + ".comment", info["comment"], None)
            return
        if info["comment"] is None:
            raise Mismatch(what + "-doc-missing", "%s: the documentation written for this %s is not transmitted (%r)" % (where, what, want_msg[:2]))
        self.eq(what + "-doc", where + ".comment.overview", got_message(info["comment"]["overview"]), want_msg)
        self.eq(what + "-doc-see", where + ".comment.seeTags", info["comment"]["seeTags"], [])

    def field(self, g, e, owner_index, where, doc=None, what="field"):
        if doc is None:
            self.entity_info(g["entityInfo"], e, where)
        else:
            self.entity_info(g["entityInfo"], e, where, comment=None)
            self.member_doc(g["entityInfo"], doc[0], where, what)
        self.eq("tag", where + ".tag", g["tag"], e["tag"]["value"] if e["tag"] else None)
        self.eq("type", where + ".dataType", self.resolve_type(g["dataType"], owner_index, where), self.want_type(e["type"]))

    def symbol(self, index, sym, e):
        v = sym["v"]
        where = "%s[%d:%s %s]" % (self.f["path"], index, sym["variant"], e["id"])
        kind = e["kind"]
        want_variant = {"struct": "Struct", "interface": "Interface", "custom": "CustomType", "alias": "TypeAlias",
                        "enum": "BasicEnum" if e.get("underlying") else "VariantEnum"}[kind]
        self.eq("symbol-kind", where, sym["variant"], want_variant)
        self.entity_info(v["entityInfo"], e, where)
        if kind == "struct":
            self.eq("flag", where + ".isCompact", v["isCompact"], e["compact"])
            self.eq("count", where + ".fields", len(v["fields"]), len(e["fields"]))
            for g, fe in zip(v["fields"], e["fields"]):
                self.field(g, fe, index, where + "." + fe["id"])
        elif kind == "interface":
            self.eq("bases", where + ".bases", v["bases"], [b["def"]["interface"] for b in e["bases"]])
            for b in v["bases"]:
                if b not in self.all_entities:
                    raise Mismatch("base-unknown", "%s: base %r names no transmitted entity" % (where, b))
            self.eq("count", where + ".operations", len(v["operations"]), len(e["operations"]))
            for g, oe in zip(v["operations"], e["operations"]):
                w = where + "." + oe["id"]
                self.entity_info(g["entityInfo"], oe, w)
                self.eq("flag", w + ".isIdempotent", g["isIdempotent"], oe["idempotent"])
                self.eq("count", w + ".parameters", len(g["parameters"]), len(oe["params"]))
                self.eq("count", w + ".returnType", len(g["returnType"]), len(oe["returns"]))
                self.eq("flag", w + ".hasStreamedParameter", g["hasStreamedParameter"], bool(oe["params"]) and oe["params"][-1]["streamed"])
                self.eq("flag", w + ".hasStreamedReturn", g["hasStreamedReturn"], bool(oe["returns"]) and oe["returns"][-1]["streamed"])
                c = oe.get("comment")
                for gp, pe in zip(g["parameters"], oe["params"]):
                    doc = None
                    if c:
                        tag = next((t for t in c["params"] if t["id"]["value"] == pe["id"]), None)
                        doc = want_message(tag["message"]) if tag else None
                    self.field(gp, pe, index, w + "(param " + pe["id"] + ")", doc=(doc,), what="parameter")
                single = len(oe["returns"]) == 1 and oe["returns"][0]["id_span"] == oe["returns"][0]["span"]
                for gp, pe in zip(g["returnType"], oe["returns"]):
                    doc = None
                    if c:
                        if single:
                            tag = next((t for t in c["returns"] if t["id"] is None), None)
                        else:
                            tag = next((t for t in c["returns"] if t["id"] is not None and t["id"]["value"] == pe["id"]), None)
                        doc = want_message(tag["message"]) if tag else None
                    self.field(gp, pe, index, w + "(return " + pe["id"] + ")", doc=(doc,), what="return")
        elif kind == "enum":
            self.eq("flag", where + ".isUnchecked", v["isUnchecked"], e["unchecked"])
            if e.get("underlying"):
                self.eq("underlying", where + ".underlying", v["underlying"], e["underlying"]["def"]["primitive"])
                self.eq("count", where + ".enumerators", len(v["enumerators"]), len(e["enumerators"]))
                for g, ee in zip(v["enumerators"], e["enumerators"]):
                    w = where + "." + ee["id"]
                    self.entity_info(g["entityInfo"], ee, w)
                    val = int(ee["value"])
                    self.eq("enumerator-value", w + ".absoluteValue", g["absoluteValue"], abs(val))
                    self.eq("enumerator-value", w + ".hasNegativeValue", g["hasNegativeValue"], val < 0)
            else:
                self.eq("flag", where + ".isCompact", v["isCompact"], e["compact"])
                self.eq("count", where + ".variants", len(v["variants"]), len(e["enumerators"]))
                for g, ee in zip(v["variants"], e["enumerators"]):
                    w = where + "." + ee["id"]
                    self.entity_info(g["entityInfo"], ee, w)
                    self.eq("discriminant", w + ".discriminant", g["discriminant"], int(ee["value"]))
                    self.eq("count", w + ".fields", len(g["fields"]), len(ee["fields"] or []))
                    for gf, fe in zip(g["fields"], ee["fields"] or []):
                        self.field(gf, fe, index, w + "." + fe["id"])
        elif kind == "alias":
            self.eq("type", where + ".underlyingType", self.resolve_type(v["underlyingType"], index, where), self.want_type(e["underlying"]))

    def run(self, dumped):
        self.eq("path", "file.path", self.f["path"], dumped["path"])
        self.eq("module", "file.moduleDeclaration.identifier", self.f["moduleDeclaration"]["identifier"], dumped["module"]["id"])
        self.eq("module-attributes", "file.moduleDeclaration.attributes", got_attrs(self.f["moduleDeclaration"]["attributes"]),
                [want_attr(a) for a in dumped["module"]["attrs"]])
        self.eq("file-attributes", "file.attributes", got_attrs(self.f["attributes"]), [want_attr(a) for a in dumped["attrs"]])
        named = [(i, s) for i, s in enumerate(self.contents) if s["variant"] not in ANON]
        self.eq("definition-count", self.f["path"] + ".contents", [s["v"]["entityInfo"]["identifier"] for _, s in named],
                [d["id"] for d in dumped["contents"]])
        for (i, s), d in zip(named, dumped["contents"]):
            self.symbol(i, s, d)
        unref = [i for i, s in enumerate(self.contents) if s["variant"] in ANON and i not in self.referenced]
        if unref:
            raise Mismatch("unreferenced-anonymous-symbol", "%s: anonymous symbols %r are referenced by nothing" % (self.f["path"], unref))


def _short(x):
    s = repr(x)
    return s if len(s) < 220 else s[:220] + "..."


def entity_names(files):
    names = set()
    for f in files:
        for d in f["contents"]:
            names.add(d["msid"])
            names.add(d["psid"])
            for key in ("fields", "operations", "enumerators"):
                for m in d.get(key) or []:
                    names.add(m["psid"])
                    for p in (m.get("params") or []) + (m.get("returns") or []) + (m.get("fields") or []):
                        names.add(p["psid"])
    return names


def run_shard(ctx, spec):
    _, count, idx = spec
    rng = ctx.rng("r/%d" % idx)
    schema = wire.parse_schema(os.path.join(build.repo(), "slice", "Compiler"))
    tmp = ctx.tmpdir()
    gen_path = os.path.join(tmp, "gen-ok-c08")
    core.link_tool(ctx.paths["fakegen"], gen_path)
    for n in range(count):
        prng = random.Random(rng.random())
        prog = gen.valid_program(prng, max_files=4, max_defs=5, type_depth=3, deprecated=(n % 4 == 0))
        gen.add_comments(prog, prng, density=0.6)
        style = rng.choice(["plain", "dense", "random", "crlf"])
        texts = printer.print_program(prog, [printer.Layout(random.Random(rng.random()), style) for _ in prog.files])
        moduleless_at = None
        if rng.random() < 0.2 and len(texts) < 4:
            # a file that holds no module once preprocessed is compiled but not transmitted - and must not cost the files after it
            moduleless_at = rng.randrange(len(texts) + 1)
            texts.insert(moduleless_at, rng.choice(["", "// nothing\n", "#if LEGACY\nmodule Legacy\nstruct Old {}\n#endif\n"]))
            ctx.stats["programs_with_module_less_file"] += 1
        k = len(texts)
        # every split into sources / references with at least one source (sampled when there are many)
        splits = [s for s in itertools.product([True, False], repeat=k) if any(s)]
        rng.shuffle(splits)
        for split in splits[:(3 if ctx.tier == "quick" else 8)]:
            case_dir = os.path.join(tmp, "c%d_%d" % (idx, ctx.evaluations))
            log = os.path.join(case_dir, "log")
            os.makedirs(log)
            names = []
            for i, t in enumerate(texts):
                name = rng.choice(["f%d.slice", "dir%d/x.slice", "é%d.slice"]) % i
                os.makedirs(os.path.dirname(os.path.join(case_dir, name)) or case_dir, exist_ok=True)
                with open(os.path.join(case_dir, name), "w", newline="") as f:
                    f.write(t)
                names.append(name)
            order = list(range(k))
            rng.shuffle(order)
            argv = []
            for i in order:
                argv += [names[i]] if split[i] else ["-R", names[i]]
            with open(os.path.join(log, "gen-ok-c08.reply"), "wb") as f:
                f.write(wire.enc_reply([]))
            args = [("k%d" % j, rng.choice(["", "v", "é", "a=b"])) for j in range(rng.randint(0, 3))]
            from .. import genspec
            # line-ups: the capturing generator alone, or among other generators (one that cannot be started, one that fails,
            # one that never reads its input, a second healthy one with other arguments) - every generator must be handed the
            # same request followed by *its own* arguments whatever happened to the ones before it
            lineup = rng.choice(["alone", "alone", "alone", "after-missing", "after-noread", "between", "after-exit1"])
            gspecs = [genspec.render(gen_path, args)]
            args2 = [("z%d" % j, rng.choice(["", "w", "long-value-" * 3])) for j in range(rng.randint(0, 2))]
            other = [("o1", "x"), ("o2", "")]
            expect_failures = 0
            if lineup == "after-missing":
                gspecs = [genspec.render(os.path.join(tmp, "no-such-generator"), other)] + gspecs
                expect_failures = 1
            elif lineup in ("after-noread", "after-exit1", "between"):
                beh = {"after-noread": "noreadfail", "after-exit1": "exit1", "between": "exit1"}[lineup]
                bad = os.path.join(case_dir, "gen-%s-bad" % beh)
                core.link_tool(ctx.paths["fakegen"], bad)
                gspecs = [genspec.render(bad, other)] + gspecs
                expect_failures = 1
                if lineup == "between":
                    g2 = os.path.join(case_dir, "gen-ok-second")
                    core.link_tool(ctx.paths["fakegen"], g2)
                    with open(os.path.join(log, "gen-ok-second.reply"), "wb") as f:
                        f.write(wire.enc_reply([]))
                    gspecs = [genspec.render(g2, args2)] + gspecs
            ctx.stats["lineup_" + lineup.replace("-", "_")] += 1
            res = ctx.run_slicec(argv + [x for g in gspecs for x in ("-G", g)], cwd=case_dir, env={"FAKEGEN_LOG": log})
            r = ctx.worker.request({"op": "compile_opts", "argv": ["slicec"] + argv, "cwd": case_dir, "want": ["ast", "codes"]})
            ctx.note_case(("c08", tuple(texts), split, tuple(order)))
            replay = {"kind": "binary", "argv": argv + [x for g in gspecs for x in ("-G", g)], "files": dict(zip(names, texts)),
                      "observed": res.brief(), "lineup": lineup}
            captured = [x for x in os.listdir(log) if x.endswith(".stdin") and x.startswith("gen-ok-c08.")]
            captured2 = [x for x in os.listdir(log) if x.endswith(".stdin") and x.startswith("gen-ok-second.")]
            try:
                if "died" in r or r.get("panic") or res.crashed():
                    ctx.stats["crashed"] += 1
                    raise Mismatch("crash", "crash while producing the request: %s / %s" % (res.crashed(), r.get("panic") or r.get("died")))
                if r.get("has_errors") or res.status != (1 if expect_failures else 0) or len(captured) != 1:
                    if r.get("has_errors") and res.status != 0:
                        ctx.stats["skipped_invalid_program"] += 1
                        continue
                    raise Mismatch("no-request", "valid program: exit %r, captured %r, library errors %r" % (res.status, captured, r.get("has_errors")))
                with open(os.path.join(log, captured[0]), "rb") as f:
                    data = f.read()
                replay["request_hex"] = data[:4000].hex()
                try:
                    req = wire.decode_request(schema, data)
                except wire.WireError as e:
                    raise Mismatch("request-undecodable", "request does not decode under the shipped schema: %s" % e)
                ctx.stats["requests_decoded"] += 1
                ctx.stats["request_bytes"] += len(data)
                if req["operation"] != "generateCode":
                    raise Mismatch("operation-name", "operation name %r" % req["operation"])
                if [tuple(a) for a in req["args"]] != args:
                    raise Mismatch("arguments", "arguments %r, expected %r" % (req["args"], args))
                if lineup == "between":
                    if len(captured2) != 1:
                        raise Mismatch("no-request", "the second healthy generator captured %r" % (captured2,))
                    with open(os.path.join(log, captured2[0]), "rb") as f:
                        data2 = f.read()
                    try:
                        req2 = wire.decode_request(schema, data2)
                    except wire.WireError as e:
                        raise Mismatch("request-undecodable", "request of the second generator does not decode: %s" % e)
                    if [tuple(a) for a in req2["args"]] != args2:
                        raise Mismatch("arguments", "second generator: arguments %r, expected %r" % (req2["args"], args2))
                    if data2[:req2["_end_referenceFiles"]] != data[:req["_end_referenceFiles"]]:
                        raise Mismatch("generators-get-different-requests", "the two healthy generators received different requests")
                    ctx.stats["second_generator_requests"] += 1
                dumped = r["files"]
                with_module = [f for f in dumped if f["module"] is not None]
                want_src = [f for f in with_module if f["is_source"]]
                want_ref = [f for f in with_module if not f["is_source"]]
                # source/reference split and order, as the command line says (sources in order given, then references)
                has_module = [i != moduleless_at for i in range(len(texts))]
                if [f["path"] for f in want_src] != [names[i] for i in order if split[i] and has_module[i]]:
                    raise Mismatch("harness-library-order", "library file order %r, expected %r; has_module %r order %r split %r names %r texts %r"
                                   % ([f["path"] for f in want_src], [names[i] for i in order if split[i] and has_module[i]], has_module, order, split, names,
                                      [t[:40] for t in texts]))
                if [f["path"] for f in req["sourceFiles"]] != [f["path"] for f in want_src] or \
                        [f["path"] for f in req["referenceFiles"]] != [f["path"] for f in want_ref]:
                    raise Mismatch("source-reference-split", "request has sources %r / references %r, compiled were %r / %r"
                                   % ([f["path"] for f in req["sourceFiles"]], [f["path"] for f in req["referenceFiles"]],
                                      [f["path"] for f in want_src], [f["path"] for f in want_ref]))
                ents = entity_names(dumped)
                for df, wf in zip(req["sourceFiles"] + req["referenceFiles"], want_src + want_ref):
                    FileCmp(df, ents, None).run(wf)
                    ctx.stats["files_compared"] += 1
                    ctx.stats["symbols_compared"] += len(df["contents"])
                    ctx.stats["anonymous_symbols"] += sum(1 for s in df["contents"] if s["variant"] in ANON)
                if n == 0:
                    ctx.sample({"argv": argv, "files": dict(zip(names, texts)), "request_bytes": len(data)}, limit=1)
            except Mismatch as m:
                if m.sig.startswith("harness"):
                    raise
                ctx.violate("request-differs:" + m.sig, m.what, replay)
            finally:
                shutil.rmtree(case_dir, ignore_errors=True)


def plan(tier, seed):
    n = 2000 if tier == "quick" else 50000
    return [("random", n // 16, i) for i in range(16)]


def main(tier, seed):
    paths = build.build("release", ("slicec", "vh"))
    run = core.run_shards(__name__, PROP, tier, seed, paths, plan(tier, seed))
    return core.finish(
        run, "exploration",
        rule=("case = one generated valid program (<= 4 files, every definition kind, anonymous types nested to depth 3, aliases of "
              "anonymous types, doc comments with links / @see / @param / @returns, tags, enumerator values at range limits, built-in "
              "and foreign attributes, multi-byte text) compiled by the real binary under one split of its files into sources and "
              "-R references, with a capturing generator; the captured bytes are decoded with the shipped schema and compared with "
              "the library's AST dump of the same command line. distinct_nontrivial = distinct (program, split, order)"),
        required={"requests_decoded": 2000, "files_compared": 3000, "symbols_compared": 10000, "anonymous_symbols": 2000},
        assumptions=["struct = bit-sequence (only when it has optional fields), fields in schema order, tag-end marker; enum with "
                     "fields = varint32 discriminant, field(s), tag-end marker; enum with underlying type = that type; the layout "
                     "was validated by hand against a captured request (DESIGN.md 4/C08)",
                     "documentation of a return value = the message of the @returns tag naming it (unnamed tag for a single return)"],
    )
