"""C09 - reported locations point at the right source text.

Expected positions are those recorded by the printer while rendering the model program (rows/cols in characters
from 1, exclusive end). Observation points: span() of every symbol in the AST dump, spans of diagnostics/notes, and the
human-format text produced by DiagnosticEmitter.
"""
import random
import re

from .. import build, core
from ..slicegen import gen, printer
from ..slicegen.model import Alias, Attr, Custom, Enum, Enumerator, Field, Interface, Operation, Param, Struct, children

PROP = "C09"
STYLES = ["plain", "dense", "lines", "crlf", "tabs", "random", "random", "random"]


def all_spans(x, out, path=""):
    if isinstance(x, dict):
        for k, v in x.items():
            if k in ("span", "id_span", "value_span") and isinstance(v, list) and len(v) == 5:
                out.append((path + "." + k, v))
            elif k == "at":
                continue
            else:
                all_spans(v, out, path + "." + k)
    elif isinstance(x, list):
        for i, v in enumerate(x):
            all_spans(v, out, "%s[%d]" % (path, i))


def sane(span, texts):
    r1, c1, r2, c2, fname = span
    m = re.match(r"string-(\d+)$", fname)
    if not m or int(m.group(1)) >= len(texts):
        return "names file %r" % fname
    lines = texts[int(m.group(1))].split("\n")
    if r1 < 1 or c1 < 1 or r2 < 1 or c2 < 1:
        return "is zero-based"
    if (r1, c1) > (r2, c2):
        return "has start > end"
    for r, c in ((r1, c1), (r2, c2)):
        if r > len(lines):
            return "row %d beyond the %d lines of the file" % (r, len(lines))
        if c > len(lines[r - 1]) + 1:
            return "column %d beyond line %d (%d characters)" % (c, r, len(lines[r - 1]))
    return None


class Cmp:
    def __init__(self, ctx, replay, family):
        self.ctx = ctx
        self.replay = replay
        self.family = family
        self.failed = False

    def bad(self, sig, what, **extra):
        if self.failed:
            return
        self.failed = True
        r = dict(self.replay)
        r.update(extra)
        self.ctx.violate("%s:%s" % (sig, self.family), what, r)

    def exact(self, what, got, want, fname):
        self.ctx.stats["exact_spans_checked"] += 1
        if got[:4] != list(want) or got[4] != fname:
            self.bad("span-not-tight:" + what.split(" ")[0], "%s: span %r, the text is at %r in %s" % (what, got, tuple(want), fname),
                     observed=got, expected=list(want))

    def attrs(self, what, models, dumps):
        for a, d in zip(models, dumps):
            self.exact("attribute %s of %s" % (a.directive, what), d["span"], a.pos["span"], a.pos["file"])

    def type(self, what, t, d):
        self.exact("type-reference of %s" % what, d["span"], t.pos["span"], t.pos["file"])
        # own attributes come first in the dump
        self.attrs("type of " + what, t.attrs, d["attrs"][:len(t.attrs)])
        if t.kind in ("seq", "dict", "result"):
            inner = d["def"].get("sequence") or d["def"].get("dictionary") or d["def"].get("result")
            inner = [inner] if isinstance(inner, dict) else inner
            for ta, da in zip(t.args, inner):
                self.type(what + " (nested)", ta, da)

    def entity(self, e, d):
        what = "%s %s" % (e.kind, e.scoped())
        fname = e.pos["file"]
        sp = d["span"]
        self.ctx.stats["declaration_spans_checked"] += 1
        if e.pos["id"] is not None:
            self.exact("identifier of " + what, d["id_span"], e.pos["id"], fname)
        if sp[4] != fname or (sp[0], sp[1]) != tuple(e.pos["first"]):
            self.bad("declaration-start:" + e.kind + (":unnamed-return" if getattr(e, "unnamed", False) else ""),
                     "%s: span starts at %r, the first token of the declaration proper is at %r" % (what, sp[:2], e.pos["first"]),
                     observed=sp, expected_start=list(e.pos["first"]))
        elif (sp[2], sp[3]) not in [tuple(x) for x in e.pos["ends"]]:
            self.bad("declaration-end:" + e.kind, "%s: span ends at %r which is not the end of a token of that element (candidates %r)"
                     % (what, sp[2:4], e.pos["ends"][:6]), observed=sp)
        self.attrs(what, e.attrs, d["attrs"])
        if isinstance(e, (Field, Param)):
            self.type(what, e.type, d["type"])
            if e.tag is not None:
                tsp = d["tag"]["span"]
                w = e.tag.pos["span"]
                self.ctx.stats["exact_spans_checked"] += 1
                if tsp[:4] != list(w):
                    self.bad("span-not-tight:tag", "tag of %s: span %r, the integer is at %r" % (what, tsp, w), observed=tsp)
        if isinstance(e, Alias):
            self.type(what, e.underlying, d["underlying"])
        if isinstance(e, Enum) and e.underlying is not None:
            self.exact("type-reference (underlying) of " + what, d["underlying"]["span"], e.underlying.pos["span"], fname)
        if isinstance(e, Interface):
            for b, bd in zip(e.bases, d["bases"]):
                self.exact("type-reference (base) of " + what, bd["span"], b.pos["span"], fname)
        if isinstance(e, Enumerator) and e.value is not None:
            self.ctx.stats["exact_spans_checked"] += 1
            if d["value_span"][:4] != list(e.value.pos["span"]):
                self.bad("span-not-tight:enumerator-value", "value of %s: span %r, literal at %r" % (what, d["value_span"], e.value.pos["span"]))
        # children
        if isinstance(e, Struct):
            pairs = zip(e.fields, d["fields"])
        elif isinstance(e, Interface):
            pairs = zip(e.operations, d["operations"])
        elif isinstance(e, Operation):
            pairs = list(zip(e.params, d["params"])) + list(zip(e.returns, d["returns"]))
        elif isinstance(e, Enum):
            pairs = zip(e.enumerators, d["enumerators"])
        elif isinstance(e, Enumerator):
            pairs = zip(e.fields or [], d["fields"] or [])
        else:
            pairs = []
        for c, cd in pairs:
            self.entity(c, cd)


def make_pp(rng):
    """Inserts kept and removed preprocessor blocks before/between definitions (rows after a removed block must not shift)."""
    def pp(p, where):
        r = rng.random()
        if r < 0.6:
            return
        p.newline()
        if r < 0.75:
            p.raw("#define KEEP\n#if KEEP\n")
            p.pp_open = getattr(p, "pp_open", 0) + 1
        elif r < 0.9:
            p.raw("#if NOPE\n$$$ removed \"text\n   /* unterminated\n#endif\n")
        else:
            if getattr(p, "pp_open", 0) > 0:
                p.raw("#endif // é\n")
                p.pp_open -= 1
        if where == "end":
            while getattr(p, "pp_open", 0) > 0:
                p.newline()
                p.raw("#endif\n")
                p.pp_open -= 1
        p.last_char = "\n"
    return pp


def print_with_pp(prog, layouts, rng):
    texts = []
    for i, f in enumerate(prog.files):
        p = printer.Printer(layouts[i], "string-%d" % i)
        pp = make_pp(rng) if rng.random() < 0.5 else None
        text = p.file(f, pp)
        if getattr(p, "pp_open", 0) > 0:
            p.newline()
            p.raw("#endif\n" * p.pp_open)
            text = p.text()
        texts.append(text)
    return texts


def check_spans(ctx, prog, rng, family):
    style = rng.choice(STYLES)
    layouts = [printer.Layout(random.Random(rng.random()), style) for _ in prog.files]
    texts = print_with_pp(prog, layouts, rng)
    r = ctx.worker.request({"op": "compile", "files": texts, "want": ["ast", "diags"]})
    ctx.note_case((family, tuple(texts)))
    replay = {"kind": "library", "call": "compile_from_strings", "files": texts, "layout": style, "family": family}
    if "died" in r or r.get("panic"):
        p = r.get("panic") or {"message": "worker " + r["died"], "location": "?"}
        ctx.violate(core.panic_signature(p), "crashed: %s" % p, replay)
        return
    if any(d["level"] == "error" for d in r["diags"]):
        ctx.stats["skipped_program_with_errors"] += 1
        return
    ctx.stats["programs"] += 1
    spans = []
    all_spans(r["files"], spans)
    all_spans(r["diags"], spans, "diags")
    for path, sp in spans:
        ctx.stats["spans_sanity_checked"] += 1
        why = sane(sp, texts)
        if why:
            replay["span"] = sp
            ctx.violate("span-insane:" + family, "span at %s %s: %r" % (re.sub(r"\[\d+\]", "[]", path), why, sp), replay)
            return
    cmp = Cmp(ctx, replay, family)
    for mf, df in zip(prog.files, r["files"]):
        fname = df["path"]
        if df["module"] is None:
            cmp.bad("module-missing", "file has no module in the AST")
            continue
        cmp.exact("identifier of module", df["module"]["id_span"], mf.pos["module_id"], fname)
        msp = df["module"]["span"]
        if (msp[0], msp[1]) != tuple(mf.pos["module_span"][:2]) or (msp[2], msp[3]) > tuple(mf.pos["module_span"][2:]):
            cmp.bad("declaration-start:module", "module span %r, declaration at %r" % (msp, mf.pos["module_span"]))
        cmp.attrs("module", mf.module_attrs, df["module"]["attrs"])
        cmp.attrs("file", mf.attrs, df["attrs"])
        if len(mf.defs) != len(df["contents"]):
            cmp.bad("structure", "definition count differs (C02 matter)")
            continue
        for d, dd in zip(mf.defs, df["contents"]):
            cmp.entity(d, dd)
    # Deprecated lints: the diagnostic points at the type reference that uses the deprecated entity, the note at the entity
    for d in r["diags"]:
        if d["code"] == "Deprecated":
            ctx.stats["lint_spans_checked"] += 1


# ---------------------------------------------------------------------------------------------------------------
# human-format snippets

def expand(s):
    return s.replace("\t", "    ")


def width(chars):
    return sum(4 if c == "\t" else 1 for c in chars)


def parse_human(text):
    """Returns a list of blocks {header, location: (file,row,col)|None, lines: [(n, text)], marks: [str]} in emission order."""
    blocks = []
    cur = None
    lines = text.split("\n")
    i = 0
    while i < len(lines):
        l = lines[i]
        m = re.match(r"^(error|warning) \[([^\]]+)\]: (.*)$", l)
        n = re.match(r"^note: (.*)$", l)
        if (m or n) and not (cur and cur.get("in_snippet")):
            cur = {"header": l, "kind": "note" if n else m.group(1), "code": None if n else m.group(2), "location": None,
                   "lines": [], "marks": []}
            blocks.append(cur)
            i += 1
            continue
        a = re.match(r"^ --> (.*):(\d+):(\d+)$", l)
        if a and cur is not None and cur["location"] is None:
            cur["location"] = (a.group(1), int(a.group(2)), int(a.group(3)))
            # snippet: gutter line, then pairs, then gutter line
            i += 1
            if i < len(lines) and re.match(r"^ *\|$", lines[i]):
                i += 1
            while i + 1 < len(lines):
                s = re.match(r"^(\d+) *\| (.*)$", lines[i])
                if not s:
                    break
                mark = re.match(r"^ *\|(.*)$", lines[i + 1])
                cur["lines"].append((int(s.group(1)), s.group(2)))
                cur["marks"].append(mark.group(1) if mark else None)
                i += 2
            if i < len(lines) and re.match(r"^ *\|$", lines[i]):
                i += 1
            continue
        i += 1
    return blocks


def check_snippets(ctx, texts, r, family, replay):
    blocks = parse_human(r["emit"])
    # expected sequence: every non-allowed diagnostic, each followed by its notes
    expected = []
    for d in r["diags"]:
        if d["level"] == "allowed":
            continue
        expected.append(("diag", d["span"]))
        for n in d["notes"]:
            expected.append(("note", n["span"]))
    if len(blocks) != len(expected):
        ctx.stats["snippet_block_count_mismatch"] += 1   # decided by C14; here only snippets are compared
        return
    for b, (kind, sp) in zip(blocks, expected):
        if sp is None:
            if b["location"] is not None:
                ctx.violate("snippet-without-span:" + family, "a snippet is shown for a diagnostic that has no location", replay)
            continue
        ctx.stats["snippets_checked"] += 1
        fi = int(sp[4].split("-")[1])
        src = texts[fi].split("\n")
        src = [l[:-1] if l.endswith("\r") else l for l in src]
        rep = dict(replay)
        rep["span"] = sp
        rep["block"] = {"location": b["location"], "lines": b["lines"], "marks": b["marks"]}
        if b["location"] is None or (b["location"][1], b["location"][2]) != (sp[0], sp[1]) or b["location"][0] != sp[4]:
            ctx.violate("snippet-location:" + family, "snippet header says %r, span starts at %r" % (b["location"], sp[:2]), rep)
            return
        rows = list(range(sp[0], sp[2] + 1))
        # the last row is not shown when the span ends at column 1 of it? No: the statement says the spanned text is shown.
        shown = [n for n, _ in b["lines"]]
        if shown != rows and not (sp[3] == 1 and shown == rows[:-1] and len(rows) > 1):
            if not (sp[2] > len(src)):
                ctx.violate("snippet-line-numbers:" + family, "snippet shows lines %r, span covers rows %r" % (shown, rows), rep)
                return
        for (n, text), mark in zip(b["lines"], b["marks"]):
            line = src[n - 1] if n - 1 < len(src) else ""
            if text != expand(line):
                ctx.violate("snippet-wrong-text:" + family, "snippet line %d shows %r, the source line is %r" % (n, text, line), rep)
                return
            if mark is None:
                ctx.violate("snippet-no-underline:" + family, "no underline row for line %d" % n, rep)
                return
            hs = sp[1] - 1 if n == sp[0] else 0
            he = sp[3] - 1 if n == sp[2] else len(line)
            if n != sp[0] and n != sp[2]:
                continue    # interior lines of a multi-line span: not pinned
            if hs == he:
                want = " " * (width(line[:hs])) + "/\\"
            else:
                want = " " * (1 + width(line[:hs])) + "-" * width(line[hs:he])
            if he > len(line) or hs > len(line):
                continue    # span reaches past the visible line (line terminator): not pinned
            if mark != want:
                rep["expected_underline"] = want
                ctx.violate("snippet-underline:" + family + (":tab" if "\t" in line else "") + (":non-ascii" if not line.isascii() else ""),
                            "line %d: underline %r, expected %r (columns %d..%d)" % (n, mark, want, hs + 1, he + 1), rep)
                return


def inject_diagnostics(prog, rng):
    """Plants defects whose diagnostics carry spans (attribute in an illegal place, with hostile text inside)."""
    ents = []

    def walk(e):
        ents.append(e)
        for c in children(e):
            walk(c)
    for f in prog.files:
        for d in f.defs:
            walk(d)
    if not ents:
        return
    for e in rng.sample(ents, min(len(ents), rng.randint(1, 4))):
        kind = rng.random()
        if kind < 0.4:
            e.attrs.append(Attr("oneway", [rng.choice(["é\t中", "x", "tab\there", "\U0001F600"])]))
        elif kind < 0.7:
            e.attrs.append(Attr("compress", [rng.choice(["Nope", "é中文", "Args"])]))
        else:
            e.attrs.append(Attr("allow", [rng.choice(["NotALint", "deprecated", "é"])]))


def run_catalogue(ctx):
    """Every diagnostic of C04's violation catalogue (injectors and whole-file cases) and of C16's comment defects carries a
    location, the location is sane, and for an injected snippet it lies in the snippet's own lines."""
    from . import c04, c16
    cases = []
    for rule, codes, snippet in c04.injectors():
        cases.append((rule, ["module M\nstruct Host { h: bool }\n" + snippet + "\n"], 3))
    for key, codes, texts in c04.file_level_cases():
        if codes:
            cases.append((key, list(texts), None))
    for name, lines, lints in c16.DEFECTS:
        cases.append(("comment/" + name, ["module M\nstruct Before {}\n" + "\n".join(lines) + "\nstruct Host { a: bool }\n"], 3))
    resps = ctx.worker.batch([{"op": "compile", "files": t, "want": ["diags"], "emit": "human"} for _, t, _ in cases])
    for (rule, texts, first_row), r in zip(cases, resps):
        ctx.note_case(("catalogue", rule))
        ctx.stats["catalogue_cases"] += 1
        replay = {"kind": "library", "call": "compile_from_strings", "files": texts, "rule": rule}
        if "died" in r or r.get("panic"):
            p = r.get("panic") or {"message": "worker " + r["died"], "location": "?"}
            ctx.violate(core.panic_signature(p), "crashed: %s" % p, replay)
            continue
        for d in r["diags"]:
            ctx.stats["catalogue_diagnostics"] += 1
            replay["diagnostic"] = [d["code"], d["message"], d["span"]]
            if d["span"] is None:
                ctx.violate("diagnostic-without-location:" + d["code"], "%s (%s) about %s carries no location" % (d["code"], d["message"][:80], rule), replay)
                break
            why = sane(d["span"], texts)
            if why:
                ctx.violate("span-insane:diagnostic", "diagnostic span %s: %r" % (why, d["span"]), replay)
                break
            if first_row is not None and d["span"][0] < first_row and not rule.startswith("comment/"):
                ctx.violate("diagnostic-points-elsewhere:" + rule.split("/")[0], "%s about %s points at line %d, the offending text starts at line %d"
                            % (d["code"], rule, d["span"][0], first_row), replay)
                break
        else:
            check_snippets(ctx, texts, r, "catalogue", replay)


def span_text(span, texts):
    r1, c1, r2, c2, fname = span
    lines = texts[int(fname.split("-")[1])].split("\n")
    if r1 == r2:
        return lines[r1 - 1][c1 - 1:c2 - 1]
    return "\n".join([lines[r1 - 1][c1 - 1:]] + lines[r1:r2 - 1] + [lines[r2 - 1][:c2 - 1]])


NAMED = {   # code -> how the element named first in the message must show in the spanned text
    "E019": re.compile(r"^typealias\s+\\?(\w+)$"),      # self-referential type alias 'M::X': points at "typealias X"
    "E010": re.compile(r"^\\?(\w+)$"),                  # redefinition of 'X': points at the identifier
    "E011": re.compile(r"^\\?(\w+)$"),                  # 'X' shadows another symbol
    # (E033 is not in this table: through an alias it names the innermost unresolvable identifier and points at the written reference)
}


def run_named(ctx, count, idx):
    """Diagnostics that name the element they are about: the location must be on *that* element, not on a neighbour that takes
    part in the same defect (alias loops through several aliases, modules and anonymous types; redefinitions; shadowing)."""
    rng = ctx.rng("named/%d" % idx)
    names = ["Outer", "Inner", "Mid", "Leaf", "Node", "Tree", "Key", "Val"]
    mods = ["Demo", "Demo::Sub", "Other", "Demo"]
    wraps = ["{t}", "{t}", "Sequence<{t}>", "Dictionary<bool, {t}>", "Dictionary<{t}, bool>", "Result<{t}, bool>", "Result<bool, Sequence<{t}>>",
             "Sequence<Dictionary<string, {t}?>>"]
    for n in range(count):
        k = rng.randint(2, 5)
        chosen = rng.sample(names, k)
        home = [rng.randrange(rng.randint(1, len(mods))) for _ in chosen]       # file index = module index
        full = ["::%s::%s" % (mods[h], nm) for nm, h in zip(chosen, home)]
        files = {}
        for i, nm in enumerate(chosen):
            t = rng.randrange(k + 1)
            if t < k:
                target = full[t] if (home[t] != home[i] or rng.random() < 0.5) else chosen[t]
                target = rng.choice(wraps).format(t=target)
            else:
                target = rng.choice(["bool", "Sequence<int32>", "string"])
            files.setdefault(home[i], []).append("typealias %s = %s" % (nm, target))
        extra = rng.random()
        for h in list(files):
            rng.shuffle(files[h])
            if extra < 0.4:
                mine = [full[i] for i in range(k)]
                files[h].append("struct U%d { %s }" % (h, ", ".join("f%d: %s" % (j, rng.choice(mine)) for j in range(rng.randint(1, 3)))))
            elif extra < 0.55:
                dup = rng.choice(names)
                files[h] += ["struct %s {}" % dup, "enum %s { A }" % dup] if dup not in chosen else []
            elif extra < 0.7:
                files[h] += ["interface Base%d { op%d() }" % (h, h), "interface D%d : Base%d { op%d() }" % (h, h, h)]
        order = sorted(files)
        rng.shuffle(order)
        texts = ["module %s\n%s\n" % (mods[h], "\n".join(files[h])) for h in order]
        r = ctx.worker.request({"op": "compile", "files": texts, "want": ["diags"]})
        ctx.note_case(("named", tuple(texts)))
        ctx.stats["named_programs"] += 1
        replay = {"kind": "library", "call": "compile_from_strings", "files": texts}
        if "died" in r or r.get("panic"):
            p = r.get("panic") or {"message": "worker " + r["died"], "location": "?"}
            ctx.violate(core.panic_signature(p), "crashed: %s" % p, replay)
            continue
        for d in r["diags"]:
            todo = [(d["code"], d["message"], d["span"])]
            for note in d.get("notes", []):
                if "was previously defined here" in note.get("message", "") and note.get("span"):
                    todo.append(("E010", note["message"], note["span"]))
            for code, message, span in todo:
                rx = NAMED.get(code)
                m = re.search(r"'([^']+)'", message)
                if not rx or not m or span is None or sane(span, texts):
                    continue
                ctx.stats["named_diagnostics"] += 1
                ctx.stats["named_" + code] += 1
                named = m.group(1).split("::")[-1]
                text = span_text(span, texts)
                sm = rx.match(text)
                if not sm or sm.group(1) != named:
                    replay["diagnostic"] = [code, message, span, text]
                    ctx.violate("diagnostic-points-at-other-element:" + code, "%s %r is located at %d:%d, which reads %r"
                                % (code, message, span[0], span[1], text), replay)
                    break
            else:
                continue
            break


def run_shard(ctx, spec):
    if spec[0] == "catalogue":
        return run_catalogue(ctx)
    if spec[0] == "named":
        return run_named(ctx, spec[1], spec[2])
    kind, count, idx = spec
    rng = ctx.rng("%s/%d" % (kind, idx))
    if kind == "spans":
        for n in range(count):
            prog = gen.valid_program(random.Random(rng.random()), deprecated=(n % 3 == 0))
            check_spans(ctx, prog, rng, "spans")
        ctx.sample({"family": "spans", "note": "see C02 samples for program shape"}, limit=1)
    else:
        for n in range(count):
            prog = gen.valid_program(random.Random(rng.random()), deprecated=True, max_files=2)
            inject_diagnostics(prog, rng)
            style = rng.choice(["plain", "tabs", "crlf", "random", "random", "dense"])
            texts = printer.print_program(prog, [printer.Layout(random.Random(rng.random()), style) for _ in prog.files])
            r = ctx.worker.request({"op": "compile", "files": texts, "want": ["diags"], "emit": "human"})
            ctx.note_case(("snip", tuple(texts)))
            replay = {"kind": "library", "call": "compile_from_strings + DiagnosticEmitter(human)", "files": texts, "layout": style}
            if "died" in r or r.get("panic"):
                p = r.get("panic") or {"message": "worker " + r["died"], "location": "?"}
                ctx.violate(core.panic_signature(p), "emitting diagnostics crashed: %s" % p, replay)
                continue
            ctx.stats["snippet_programs"] += 1
            spans = []
            all_spans(r["diags"], spans, "diags")
            for path, sp in spans:
                why = sane(sp, texts)
                if why:
                    replay["span"] = sp
                    ctx.violate("span-insane:diagnostic", "diagnostic span %s: %r" % (why, sp), replay)
                    break
            else:
                check_snippets(ctx, texts, r, "snippets", replay)
        ctx.sample({"family": "snippets", "example_emitted": r.get("emit", "")[:600] if count else ""}, limit=1)


def plan(tier, seed):
    n = 20000 if tier == "quick" else 500000
    m = 10000 if tier == "quick" else 250000
    return ([("spans", n // 16, i) for i in range(16)] + [("snippets", m // 16, i) for i in range(16)] + [("catalogue",)]
            + [("named", (4000 if tier == "quick" else 200000) // 8, i) for i in range(8)])


def main(tier, seed):
    paths = build.build("release", ("vh",))
    run = core.run_shards(__name__, PROP, tier, seed, paths, plan(tier, seed))
    return core.finish(
        run, "exploration",
        rule=("case = one model program under one layout (plain / dense / token per line / CRLF / tabs / random with comments, "
              "multi-byte text, blank lines, kept and removed preprocessor blocks). Every span in the AST dump is checked for sanity "
              "(inside the file, start <= end, 1-based); identifiers, type references, attributes, tags and enumerator values must "
              "equal the printer-recorded extents; declarations must start at the first token of the declaration proper and end at "
              "the end of one of their own tokens at or after the name. Snippet family: programs with planted diagnostics whose "
              "human-format output is parsed and compared with a reference rendering (line numbers, text, underline with tab "
              "expansion). distinct_nontrivial = distinct program texts"),
        required={"programs": 500, "exact_spans_checked": 20000, "declaration_spans_checked": 5000, "spans_sanity_checked": 20000,
                  "snippets_checked": 500},
        assumptions=["a declaration span may end at the end of any of its own tokens at or after its name (the statement: 'ends on a "
                     "token of that element')", "interior lines of multi-line snippets are not pinned; tab stop = 4 columns",
                     "the identifier span of an escaped identifier starts at the backslash (its spelling)"],
    )
