"""C10 - Slice encoding round-trips and matches the wire format (oracle and workload live in codec-harness/src/c10.rs)."""
from .. import codec_check

PROP = "C10"


def main(tier, seed):
    return codec_check.run(
        PROP, "c10", tier, seed,
        rule=("every value is encoded through the growable and the fixed-slice target (exact size and one byte short), compared "
              "byte-for-byte with an independent reference encoder, decoded back (floats by bit pattern) and checked for exact "
              "consumption; var-ints are additionally decoded into every target width. distinct_nontrivial counts only the "
              "enumerations that are distinct by construction (16-bit domains, the strided var-int sweep)"),
        required={"native.varint_sweep_done": 1, "native.varint_refused": 10, "native.varuint_refused": 10,
                  "native.collections": 100, "native.strings": 100, "native.boundary_neighbourhoods": 1,
                  "asan.clean_runs": 1, "miri.clean_shards": 16},
        assumptions=["reference encoder codec-harness/src/refmodel.rs is written from the statement (LE two's complement / IEEE-754 "
                     "bit patterns; shortest of 1/2/4/8 bytes holding value<<2 | length code)",
                     "dictionary wire order is the container's own iteration order (the statement does not fix one)"],
        exhaustive_note=("all 8- and 16-bit values of every fixed-width type; var-ints: quick = every 4099th magnitude < 2^30, "
                         "thorough = every magnitude < 2^30 and all 2^32 f32 bit patterns; +-64 around every power of two"),
    )
