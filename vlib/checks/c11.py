"""C11 - decoding untrusted bytes fails cleanly (oracle and workload live in codec-harness/src/c11.rs)."""
from .. import codec_check

PROP = "C11"


def main(tier, seed):
    return codec_check.run(
        PROP, "c11", tier, seed,
        rule=("each of 38 decodable types (fixed width, var-ints into every width, sizes, String, Vec, HashMap, BTreeMap, "
              "skip_tagged_fields, the generator-reply types) is fed: every byte string of length <= 2 (thorough: 3), random "
              "strings <= 64 bytes, every truncation and single-byte corruption of valid encodings, duplicate keys, lying size "
              "prefixes 2^k-1/2^k in every width. Oracle: strict reference decoder (Ok/Err agreement, value, bytes consumed), "
              "catch_unwind, every error rendered, per-decode CPU time and peak-RSS growth. Also: ASCII strings of every length 0..96 "
              "with each position replaced by each kind of invalid byte / a valid two-byte character; thorough tier: the same "
              "differential oracle inside a libFuzzer + AddressSanitizer target for a fixed time on all cores (counters fuzz.*), "
              "artifacts re-judged by the uninstrumented harness. distinct_nontrivial = exhaustive "
              "and lying-prefix inputs on which the reference accepts or rejects for a reason other than plain end-of-buffer"),
        required={"native.ok_agree": 1000, "native.err_agree": 1000, "native.reject_BadBool": 10, "native.reject_BadUtf8": 10,
                  "native.reject_OutOfRange": 10, "native.reject_DuplicateKey": 10, "native.reject_BadLevel": 10,
                  "native.cost_measured": 500, "native.truncations": 1000, "native.corruptions": 1000,
                  "native.lying_prefix_cases": 1000, "compiler.runs": 100, "asan.clean_runs": 1, "miri.clean_shards": 16, "native.string_position_cases": 50000,
                  **({"fuzz.executions": 500000} if tier == "thorough" else {})},
        assumptions=["non-minimal var-int encodings are accepted (the statement only rejects out-of-range values)",
                     "cost clause decided on resident memory (VmHWM growth <= 64 MiB) and thread CPU time (<= 2 s) for inputs "
                     "<= 64 bytes; untouched virtual reservations are not counted",
                     "under Miri inputs announcing sizes > 65536 are skipped (the interpreter really allocates them)"],
        exhaustive_note="all byte strings of length <= 2 (quick) / <= 3 (thorough) for each decodable type",
    )
