"""C12 - output targets act as an append-only byte log with safe reservations (codec-harness/src/c12.rs)."""
from .. import codec_check

PROP = "C12"


def main(tier, seed):
    return codec_check.run(
        PROP, "c12", tier, seed,
        rule=("history + executable reference model in lock-step: every operation sequence of length <= 4 (thorough: 5) over "
              "{write_byte, write_bytes k, reserve k, write k bytes into reservation r (also over-long), k in 0..3} on fixed "
              "slices of capacity 0..4 (canary-padded, raw view after every operation) and on growable targets (fresh, "
              "pre-filled with dirty spare capacity, long-lived and re-created per operation); every read/peek sequence of "
              "length <= 3 (thorough: 4) on buffers of length 0..4; random histories of 200 operations with sizes <= 4 KiB. "
              "distinct_nontrivial = number of distinct enumerated histories"),
        required={"native.exhaustive_output_histories": 1000, "native.exhaustive_input_histories": 1000,
                  "native.random_histories": 100, "asan.clean_runs": 1, "miri.clean_shards": 16},
        assumptions=["reservation ranges are observed through Reservation's Debug output",
                     "the fixed-slice target leaves reserved bytes as they were (only the growable target zeroes them)"],
        exhaustive_note="all output histories of length <= 4/5 and all input histories of length <= 3/4 over the stated alphabets",
    )
