"""C13 - lint suppression silences only the named lints in scope, never errors.

Template product: lint kind x concerned element x placement of the suppression x argument. Reference rule (from the
statement): a lint is silenced exactly when it is named (or 'All') by an accepted --allow value, by an allow attribute on
its file, on the element it concerns or on a definition enclosing that element. Metamorphic pairs (with / without the
suppression) must not differ in anything else. Observation points: levels of the diagnostics returned by the library,
the AST dump, and for a sample the binary's stderr / exit status / generator request.
"""
import json
import os
import random
import shutil

from .. import build, core, wire

PROP = "C13"

# Each template: (name, lint, text with slots, ordered list of slots that are "in scope" for the lint, slots out of scope)
# Slots are replaced by "" or an allow attribute. {file} is a file-attribute slot of the file holding the lint; {other} sits in
# a second file.
T = []


def t(name, lint, text, in_scope, out_scope, extra_files=()):
    T.append({"name": name, "lint": lint, "text": text, "in": in_scope, "out": out_scope, "extra": list(extra_files)})


DEP = "[deprecated(\"gone\")] "
t("deprecated/struct-field", "Deprecated",
  "{file}module M\n{depdef}" + DEP + "struct D {{}}\n{encl}struct S {{ {elem}a: D, {sib}b: bool }}\n", ["elem", "encl"], ["sib", "depdef"])
t("deprecated/enumerator-field", "Deprecated",
  "{file}module M\n{depdef}" + DEP + "struct D {{}}\n{encl2}enum E {{ {encl}X({elem}a: D, {sib}b: bool), {sib2}Y }}\n", ["elem", "encl", "encl2"], ["sib", "sib2", "depdef"])
t("deprecated/parameter", "Deprecated",
  "{file}module M\n{depdef}" + DEP + "struct D {{}}\n{encl2}interface I {{ {encl}op({elem}a: D, {sib}b: bool) {sib2}other() }}\n", ["elem", "encl", "encl2"], ["sib", "sib2", "depdef"])
t("deprecated/return-member", "Deprecated",
  "{file}module M\n{depdef}" + DEP + "struct D {{}}\n{encl2}interface I {{ {encl}op() -> ({elem}a: D, {sib}b: bool) }}\n", ["elem", "encl", "encl2"], ["sib", "depdef"])
# a parameter and a return member of one operation may share a name: a suppression on one is not a suppression on the other
t("deprecated/parameter-named-like-return-member", "Deprecated",
  "{file}module M\n{depdef}" + DEP + "struct D {{}}\n{encl2}interface I {{ {encl}op({elem}x: D, {sib}b: bool) -> ({sib2}x: bool, y: bool) }}\n",
  ["elem", "encl", "encl2"], ["sib", "sib2", "depdef"])
t("deprecated/return-member-named-like-parameter", "Deprecated",
  "{file}module M\n{depdef}" + DEP + "struct D {{}}\n{encl2}interface I {{ {encl}op({sib2}x: bool, {sib}b: bool) -> ({elem}x: D, y: bool) }}\n",
  ["elem", "encl", "encl2"], ["sib", "sib2", "depdef"])
t("deprecated/single-return", "Deprecated",
  "{file}module M\n{depdef}" + DEP + "struct D {{}}\n{encl2}interface I {{ {encl}op() -> D }}\n", ["encl", "encl2"], ["depdef"])
t("deprecated/alias", "Deprecated",
  "{file}module M\n{depdef}" + DEP + "struct D {{}}\n{elem}typealias A = D\n{sib}struct Other {{}}\n", ["elem"], ["sib", "depdef"])
t("deprecated/interface-base", "Deprecated",
  "{file}module M\n{depdef}" + DEP + "interface B {{}}\n{elem}interface I : B {{ {sib}op() }}\n", ["elem"], ["sib", "depdef"])
t("deprecated/enum-underlying", "Deprecated",
  "{file}module M\n{depdef}" + DEP + "typealias U = uint8\n{elem}enum E : U {{ {sib}X }}\n", ["elem"], ["sib", "depdef"])
t("deprecated/nested-sequence", "Deprecated",
  "{file}module M\n{depdef}" + DEP + "enum D {{ X }}\n{encl}struct S {{ {elem}a: Sequence<Dictionary<string, D>>, {sib}b: bool }}\n", ["elem", "encl"], ["sib", "depdef"])
t("deprecated/cross-file", "Deprecated",
  "{file}module M\n{encl}struct S {{ {elem}a: N::D }}\n", ["elem", "encl"], ["other"], extra_files=["{other}module N\n" + DEP + "struct D {{}}\n"])
for lint, doc in (("BrokenDocLink", "/// see {{@link Nope}}"), ("IncorrectDocComment", "/// @returns: nothing to return"),
                  ("MalformedDocComment", "/// {{@link S")):
    key = lint[:6].lower()
    t("%s/struct" % key, lint, "{file}module M\n" + doc + "\n{elem}struct S {{ {sib}a: bool }}\n{sib2}struct Z {{}}\n", ["elem"], ["sib", "sib2"])
    t("%s/field" % key, lint, "{file}module M\n{encl}struct S {{\n" + doc + "\n{elem}a: bool, {sib}b: bool }}\n", ["elem", "encl"], ["sib"])
    t("%s/interface" % key, lint, "{file}module M\n" + doc + "\n{elem}interface I {{ {sib}op() }}\n", ["elem"], ["sib"])
    t("%s/enum" % key, lint, "{file}module M\n" + doc + "\n{elem}enum E {{ {sib}X }}\n", ["elem"], ["sib"])
    t("%s/enumerator" % key, lint, "{file}module M\n{encl}enum E {{\n" + doc + "\n{elem}X, {sib}Y }}\n", ["elem", "encl"], ["sib"])
    t("%s/custom" % key, lint, "{file}module M\n" + doc + "\n{elem}custom C\n{sib}custom K\n", ["elem"], ["sib"])
    t("%s/alias" % key, lint, "{file}module M\n" + doc + "\n{elem}typealias A = bool\n", ["elem"], [])
    t("%s/other-file" % key, lint, "{file}module M\n" + doc + "\n{elem}struct S {{}}\n", ["elem"], ["other"], extra_files=["{other}module N\nstruct Q {{}}\n"])
for lint, doc in (("BrokenDocLink", "/// see {{@link Nope}}"), ("IncorrectDocComment", "/// @param nope: no such parameter"),
                  ("MalformedDocComment", "/// @unknowntag")):
    key = lint[:6].lower()
    t("%s/operation" % key, lint, "{file}module M\n{encl}interface I {{\n" + doc + "\n{elem}op(a: bool) {sib}other() }}\n", ["elem", "encl"], ["sib"])

# every report site of the operation-level lints
OPT = "{file}module M\n{encl}interface I {{\n%s\n{elem}%s {sib}other() }}\n"
t("incorr/op-unknown-param", "IncorrectDocComment", OPT % ("/// @param nope: x", "op(a: bool)"), ["elem", "encl"], ["sib"])
t("incorr/op-returns-on-void", "IncorrectDocComment", OPT % ("/// @returns: x", "op(a: bool)"), ["elem", "encl"], ["sib"])
t("incorr/op-named-returns-on-single", "IncorrectDocComment", OPT % ("/// @returns r: x", "op(a: bool) -> bool"), ["elem", "encl"], ["sib"])
t("incorr/op-unknown-return-member", "IncorrectDocComment", OPT % ("/// @returns nope: x", "op() -> (a: bool, b: bool)"), ["elem", "encl"], ["sib"])
t("broken/op-link-in-param", "BrokenDocLink", OPT % ("/// @param a: see {{@link Nope}}", "op(a: bool)"), ["elem", "encl"], ["sib"])
t("broken/op-link-in-returns", "BrokenDocLink", OPT % ("/// @returns: see {{@link Nope}}", "op() -> bool"), ["elem", "encl"], ["sib"])
t("broken/op-see", "BrokenDocLink", OPT % ("/// @see Nope", "op()"), ["elem", "encl"], ["sib"])
t("broken/op-link-to-parameter", "BrokenDocLink", OPT % ("/// {{@link op::a}}", "op(a: bool)"), ["elem", "encl"], ["sib"])
t("malfor/op-inline-param", "MalformedDocComment", OPT % ("/// x {{@param a}}", "op(a: bool)"), ["elem", "encl"], ["sib"])
t("incorr/struct-param", "IncorrectDocComment", "{file}module M\n/// @param x: y\n{elem}struct S {{ {sib}a: bool }}\n", ["elem"], ["sib"])
t("incorr/field-returns", "IncorrectDocComment", "{file}module M\n{encl}struct S {{\n/// @returns: y\n{elem}a: bool, {sib}b: bool }}\n", ["elem", "encl"], ["sib"])
t("broken/enumerator-field", "BrokenDocLink", "{file}module M\n{encl2}enum E {{ {encl}X(\n/// {{@link Nope}}\n{elem}a: bool, {sib}b: bool) }}\n", ["elem", "encl", "encl2"], ["sib"])

ARGS = ["{lint}", "All", "{other_lint}", "{other_lint}, {lint}", "{lint}, {other_lint}"]
ALL_LINTS = ["Deprecated", "BrokenDocLink", "IncorrectDocComment", "MalformedDocComment"]


def fill(template, slot, arg, more=()):
    """Returns the list of file texts with `slot` holding allow(arg) (slot None = no suppression); `more` = further (slot, arg)
    pairs; a slot used twice gets two attributes."""
    values = {}
    for s in ["file", "other", "elem", "encl", "encl2", "sib", "sib2", "depdef"]:
        values[s] = ""
    for sl, a in ([(slot, arg)] if slot is not None else []) + list(more):
        if sl in ("file", "other"):
            values[sl] += "[[allow(%s)]]\n" % a
        else:
            values[sl] += "[allow(%s)] " % a
    return [template["text"].format(**values)] + [x.format(**values) for x in template["extra"]]


def seeded(diags, lint):
    return [d for d in diags if d["code"] == lint]


SPAN_KEYS = {"span", "id_span", "at", "value_span", "other", "attrs", "all_attrs"}


def strip(x):
    if isinstance(x, dict):
        return {k: strip(v) for k, v in x.items() if k not in SPAN_KEYS}
    if isinstance(x, list):
        return [strip(v) for v in x]
    return x


def sig_of(d):
    return (d["code"], d["message"], tuple(n["message"] for n in d["notes"]))


def run_templates(ctx, spec):
    _, idx, n = spec
    cases = []
    for ti, tpl in enumerate(T):
        slots = ["file"] + tpl["in"] + tpl["out"]
        for slot in slots:
            for a in ARGS:
                other = [l for l in ALL_LINTS if l != tpl["lint"]][(ti + len(a)) % 3]
                arg = a.format(lint=tpl["lint"], other_lint=other)
                names_lint = tpl["lint"] in [x.strip() for x in arg.split(",")] or "All" in arg
                in_scope = slot == "file" or slot in tpl["in"]
                cases.append((tpl, "attr:" + slot, fill(tpl, slot, arg), [], names_lint and in_scope, arg))
        # two suppressions visible from the lint: the one that names it is not the first one met on the way outwards / in source
        chain = tpl["in"] + ["file"]
        other = [l for l in ALL_LINTS if l != tpl["lint"]][ti % 3]
        for i, near in enumerate(chain):
            for far in chain[i:]:
                for first_names_it in (False, True):
                    a_near, a_far = (tpl["lint"], other) if first_names_it else (other, tpl["lint"])
                    texts = fill(tpl, near, a_near, more=[(far, a_far)])
                    cases.append((tpl, "attr2:%s+%s" % (near, far), texts, [], True, "%s then %s" % (a_near, a_far)))
        for near in chain:
            cases.append((tpl, "attr2:%s+cmdline-other" % near, fill(tpl, near, tpl["lint"]), [other], True, tpl["lint"] + " / -A " + other))
            cases.append((tpl, "attr2:%s-other+cmdline" % near, fill(tpl, near, other), [tpl["lint"]], True, other + " / -A " + tpl["lint"]))
        # command line placements
        for a in ["{lint}", "All", "{other_lint}", "{lint_lower}", "{lint_upper}", "all", "ALL"]:
            other = [l for l in ALL_LINTS if l != tpl["lint"]][ti % 3]
            arg = a.format(lint=tpl["lint"], other_lint=other, lint_lower=tpl["lint"].lower(), lint_upper=tpl["lint"].upper())
            names_lint = arg.lower() in (tpl["lint"].lower(), "all")
            cases.append((tpl, "cmdline", fill(tpl, None, ""), [arg], names_lint, arg))
    mine = [c for i, c in enumerate(cases) if i % n == idx]
    reqs = []
    for tpl, place, texts, allow, silenced, arg in mine:
        # `allow` goes through the real command-line parser, so that only accepted values are used
        argv = ["slicec"] + [x for a in allow for x in ("-A", a)]
        reqs.append({"op": "options", "argv": argv})
    opts = ctx.worker.batch(reqs) if reqs else []
    base_cache = {}
    creqs = []
    for (tpl, place, texts, allow, silenced, arg), o in zip(mine, opts):
        accepted = "options" in o
        allowed = o["options"]["allowed_lints"] if accepted else None
        creqs.append((accepted, allowed))
    run_list = []
    for (tpl, place, texts, allow, silenced, arg), (accepted, allowed) in zip(mine, creqs):
        if not accepted:
            ctx.stats["cmdline_values_rejected_by_clap"] += 1
            continue
        run_list.append((tpl, place, texts, allowed, silenced, arg))
    resps = ctx.worker.batch([{"op": "compile", "files": r[2], "allow": r[3], "want": ["ast", "diags"]} for r in run_list])
    for tpl in T:
        base_cache[tpl["name"]] = None
    bases = ctx.worker.batch([{"op": "compile", "files": fill(tpl, None, ""), "want": ["ast", "diags"]} for tpl in T])
    for tpl, b in zip(T, bases):
        base_cache[tpl["name"]] = b
    for (tpl, place, texts, allowed, silenced, arg), r in zip(run_list, resps):
        ctx.note_case(("tpl", tpl["name"], place, arg))
        ctx.stats["template_cases"] += 1
        replay = {"kind": "library", "call": "compile_from_strings + into_diagnostics(options)", "files": texts, "allow": allowed,
                  "template": tpl["name"], "placement": place, "argument": arg, "expected": "silenced" if silenced else "reported as a warning"}
        if "died" in r or r.get("panic"):
            p = r.get("panic") or {"message": "worker " + r["died"], "location": "?"}
            ctx.violate(core.panic_signature(p), "crashed: %s" % p, replay)
            continue
        base = base_cache[tpl["name"]]
        sd = seeded(r["diags"], tpl["lint"])
        bsd = seeded(base["diags"], tpl["lint"])
        if len(bsd) != 1:
            ctx.violate("harness:template-does-not-seed-one-lint:" + tpl["name"], "template yields %d %s lints" % (len(bsd), tpl["lint"]), replay)
            continue
        if bsd[0]["level"] != "warning":
            ctx.violate("lint-not-a-warning-by-default:" + tpl["lint"], "unsuppressed %s has level %s" % (tpl["lint"], bsd[0]["level"]), replay)
            continue
        if len(sd) != 1:
            replay["observed"] = [(d["code"], d["level"]) for d in r["diags"]]
            ctx.violate("suppression-changes-diagnostics:" + tpl["name"], "with the suppression there are %d %s diagnostics" % (len(sd), tpl["lint"]), replay)
            continue
        level = sd[0]["level"]
        ctx.stats["expected_silenced" if silenced else "expected_reported"] += 1
        kind = tpl["name"].split("/")[0] + "/" + place
        if silenced and level != "allowed":
            ctx.violate("not-silenced:%s/%s" % (tpl["name"], place), "%s about %s, suppression %s '%s': still level %s"
                        % (tpl["lint"], tpl["name"].split("/")[1], place, arg, level), replay)
            continue
        if not silenced and level != "warning":
            ctx.violate("silenced-out-of-scope:%s/%s" % (tpl["name"], place), "%s about %s, suppression %s '%s' must not apply: level %s"
                        % (tpl["lint"], tpl["name"].split("/")[1], place, arg, level), replay)
            continue
        # nothing else changes
        others = sorted(sig_of(d) + (d["level"],) for d in r["diags"] if d is not sd[0])
        bothers = sorted(sig_of(d) + (d["level"],) for d in base["diags"] if d is not bsd[0])
        if others != bothers or sig_of(sd[0]) != sig_of(bsd[0]):
            replay["with"] = others[:4]
            replay["without"] = bothers[:4]
            ctx.violate("suppression-changes-other-diagnostics:" + kind, "adding the suppression changed other diagnostics", replay)
            continue
        if json.dumps(strip(r["files"]), sort_keys=True) != json.dumps(strip(base["files"]), sort_keys=True):
            ctx.violate("suppression-changes-ast:" + kind, "adding the suppression changed the AST beyond the attribute itself", replay)
            continue
    if idx == 0:
        ctx.sample({"template": T[0]["name"], "files": fill(T[0], "encl", "Deprecated"), "expected": "Deprecated lint silenced"}, limit=1)


ERRORS = ["struct ErrA { x: NoSuchType }", "struct ErrB { tag(1) a: bool?, tag(1) b: bool? }", "[foo] struct ErrC {}", "struct ErrD { d: ErrD }"]


def run_errors(ctx, spec):
    """An error seeded next to every suppression: it stays an error, and the exit status does not change (binary)."""
    _, idx, n = spec
    rng = ctx.rng("err/%d" % idx)
    tmp = ctx.tmpdir()
    k = 0
    for ti, tpl in enumerate(T):
        if ti % n != idx:
            continue
        for slot in ["file"] + tpl["in"]:
            for arg in ("All", tpl["lint"]):
                err = rng.choice(ERRORS)
                texts = fill(tpl, slot, arg)
                texts[0] = texts[0] + err + "\n"
                plain = fill(tpl, None, "")
                plain[0] = plain[0] + err + "\n"
                outs = []
                for variant, extra in ((texts, []), (plain, []), (plain, ["-A", "All"])):
                    d = os.path.join(tmp, "e%d_%d" % (idx, k))
                    k += 1
                    os.makedirs(d)
                    names = []
                    for i, tx in enumerate(variant):
                        with open(os.path.join(d, "f%d.slice" % i), "w") as f:
                            f.write(tx)
                        names.append("f%d.slice" % i)
                    res = ctx.run_slicec(names + extra + ["--diagnostic-format", "json"], cwd=d)
                    errs = sorted(json.loads(l)["error_code"] for l in res.stderr.decode("utf-8", "replace").splitlines()
                                  if l.startswith("{") and json.loads(l)["severity"] == "error")
                    outs.append((res.status, errs, res.crashed()))
                    shutil.rmtree(d, ignore_errors=True)
                ctx.note_case(("err", tpl["name"], slot, arg, err))
                ctx.stats["error_cases"] += 1
                replay = {"kind": "binary", "files": texts, "template": tpl["name"], "slot": slot, "argument": arg, "observed": outs}
                if any(o[2] for o in outs):
                    ctx.violate("crash:suppression-with-error", "crashed: %r" % (outs,), replay)
                elif any(o[0] == 0 for o in outs) or any(not o[1] for o in outs):
                    ctx.violate("suppression-silences-error", "an error disappeared or the exit status became 0: %r" % (outs,), replay)
                elif len(set((o[0], tuple(o[1])) for o in outs)) != 1:
                    ctx.violate("suppression-changes-errors", "errors / exit status differ with and without suppression: %r" % (outs,), replay)


PARSE_PHASE_ERRORS = [("syntax-error-at-end", "struct ErrP { x: int32, x"), ("tag-overflow", "struct ErrQ { tag(5000000000) a: bool? }"),
                      ("lexer-error", "struct ErrR { a: $ }"), ("preprocessor-error", "#if\nstruct ErrS {}\n#endif"),
                      ("missing-brace", "struct ErrT { a: bool"), ("bad-literal", "enum ErrU : uint8 { A = 0xZZ }"),
                      ("tag-negative", "struct ErrV { tag(-1) a: bool? }"),
                      ("enumerator-overflow", "enum ErrW : uint8 { A = 999999999999999999999999999999999999999999 }")]


GRAMMATICAL = {"tag-overflow", "tag-negative", "enumerator-overflow"}   # the file is read to its end; an action reports the error


def run_parse_errors(ctx, spec):
    """An error of the *parsing* phase in the same file or in another file: the suppressed lint stays suppressed, the
    unsuppressed one stays a warning, the error stays an error (library, all diagnostics with their levels)."""
    _, idx, n = spec
    cases = []
    for ti, tpl in enumerate(T):
        if ti % n != idx:
            continue
        for slot in ["file"] + tpl["in"][:2]:
            for ename, err in PARSE_PHASE_ERRORS:
                for where in ("same-file", "other-file-after", "other-file-before"):
                    if slot == "file" and where == "same-file" and ename not in GRAMMATICAL:
                        # a file whose text is not a Slice file has no file attributes (the parser hands them over when it
                        # reaches the end of the file): "an allow attribute on the file" presupposes a file that could be read
                        # to its end. Errors reported *while* a grammatical file is parsed (a tag out of range) are demanded.
                        continue
                    for suppressed in (True, False):
                        texts = fill(tpl, slot, tpl["lint"]) if suppressed else fill(tpl, None, "")
                        if where == "same-file":
                            texts = [texts[0] + err + "\n"] + texts[1:]
                        elif where == "other-file-after":
                            texts = texts + ["module ErrMod\n" + err + "\n"]
                        else:
                            texts = ["module ErrMod\n" + err + "\n"] + texts
                        cases.append((tpl, slot, ename, where, suppressed, texts))
    resps = ctx.worker.batch([{"op": "compile", "files": c_[5], "want": ["diags"]} for c_ in cases])
    for (tpl, slot, ename, where, suppressed, texts), r in zip(cases, resps):
        ctx.note_case(("parse-err", tpl["name"], slot, ename, where, suppressed))
        ctx.stats["parse_error_cases"] += 1
        replay = {"kind": "library", "call": "compile_from_strings + into_diagnostics", "files": texts, "template": tpl["name"], "slot": slot,
                  "error": ename, "where": where, "suppressed": suppressed}
        if "died" in r or r.get("panic"):
            p = r.get("panic") or {"message": "worker " + r["died"], "location": "?"}
            ctx.violate(core.panic_signature(p), "crashed: %s" % p, replay)
            continue
        errs = [d for d in r["diags"] if d["level"] == "error"]
        lints = seeded(r["diags"], tpl["lint"])
        replay["observed"] = [(d["code"], d["level"]) for d in r["diags"]]
        if not errs:
            ctx.violate("suppression-silences-error:parse-phase", "the %s error disappeared" % ename, replay)
            continue
        if not lints:
            # lints of the later phases are legitimately not produced once parsing has failed
            ctx.stats["parse_error_lint_not_produced"] += 1
            continue
        ctx.stats["parse_error_lint_judged"] += 1
        level = lints[0]["level"]
        if suppressed and level != "allowed":
            ctx.violate("not-silenced:with-parse-phase-error/" + where, "%s named by an allow attribute (%s) is reported as %s because a %s error exists (%s)"
                        % (tpl["lint"], slot, level, ename, where), replay)
        elif not suppressed and level != "warning":
            ctx.violate("silenced-out-of-scope:with-parse-phase-error/" + where, "unsuppressed %s has level %s" % (tpl["lint"], level), replay)


def run_unfinished(ctx, spec):
    """A lint recorded for a member whose container is never completed (a syntax error follows inside the same definition). The
    member never enters the AST, and suppressions are found by looking the lint's scoped name up in the AST at the end."""
    witnesses = [
        ("not-silenced:member-of-unfinished-container", "allowed",
         ["module M\n[allow(MalformedDocComment)] struct T {\n[allow(MalformedDocComment)]\n/// {@link\na: int32\nb: }\n"]),
        ("not-silenced:member-of-unfinished-container", "allowed",
         ["module M\n[allow(All)] interface I {\n/// {@link\n[allow(MalformedDocComment)] op()\nop2( }\n"]),
        ("silenced-out-of-scope:same-name-elsewhere-after-syntax-error", "warning",
         ["module M\nstruct S {\n/// {@link\nf: int32\ng: }\n", "module M\nstruct S { [allow(MalformedDocComment)] f: int32 }\n"]),
        # controls: the same suppressions with the syntax error in a *later* definition, and no suppression at all
        ("control", "allowed",
         ["module M\n[allow(MalformedDocComment)] struct T {\n/// {@link\na: int32 }\nstruct U { b: }\n"]),
        ("control", "warning", ["module M\nstruct T {\n/// {@link\na: int32\nb: }\n"]),
        # a *different* element named like the member, in an enclosing scope (same file before the error; another file; the
        # module itself; two levels out), carries the allow attribute: it is unrelated, the lint stays a warning
        ("sibling", "warning", ["module M\n[allow(MalformedDocComment)] struct f { a: int32 }\nstruct S {\n/// {@link }\nf: int32\ng int32\n}\n"]),
        ("sibling", "warning", ["module M\n[allow(All)] custom op\n", "module M\ninterface I {\n/// {@link\nop()\nop2( }\n"]),
        ("sibling", "warning", ["[allow(All)] module A::B\nenum E {\n/// {@link\nB,\nC = }\n"]),
        ("sibling", "warning", ["module A\n[allow(MalformedDocComment)] typealias x = int32\n", "module A::B::C\nenum E {\nV(\n/// {@link\nx: int32,\ny: ) }\n"]),
    ]
    resps = ctx.worker.batch([{"op": "compile", "files": w[2], "want": ["diags"]} for w in witnesses])
    for (sig, want, texts), r in zip(witnesses, resps):
        ctx.note_case(("unfinished", tuple(texts)))
        ctx.stats["unfinished_container_cases"] += 1
        replay = {"kind": "library", "call": "compile_from_strings + into_diagnostics", "files": texts, "expected_level": want}
        if "died" in r or r.get("panic"):
            p = r.get("panic") or {"message": "worker " + r["died"], "location": "?"}
            ctx.violate(core.panic_signature(p), "crashed: %s" % p, replay)
            continue
        lints = [d for d in r["diags"] if d["code"] == "MalformedDocComment"]
        errs = [d for d in r["diags"] if d["level"] == "error"]
        replay["observed"] = [(d["code"], d["level"]) for d in r["diags"]]
        if len(lints) != 1 or not errs:
            ctx.violate("harness:unfinished-container-witness", "witness does not produce one lint and an error: %r" % replay["observed"], replay)
            continue
        if lints[0]["level"] != want:
            what = ("a suppression on the member / its enclosing definition is ignored" if want == "allowed"
                    else "an allow attribute on a different element of the same scoped name, in another file, silences it")
            ctx.violate(sig if sig not in ("control", "sibling") else "unfinished-container-" + sig, "MalformedDocComment about a member of a definition that a syntax "
                        "error leaves unfinished has level %s, expected %s: %s" % (lints[0]["level"], want, what), replay)


def fill_raw(template, raw):
    """Like fill(), but each slot holds the given raw text."""
    values = {s: "" for s in ["file", "other", "elem", "encl", "encl2", "sib", "sib2", "depdef"]}
    values.update(raw)
    return [template["text"].format(**values)] + [x.format(**values) for x in template["extra"]]


ATTRIBUTE_ERRORS = [("[deprecated] ", "[deprecated] "), ("[deprecated(\"a\")] ", "[deprecated(\"b\")] "), ("[nope] ", ""), ("[allow(NoSuchLint)] ", ""),
                    ("[oneway(x)] ", ""), ("[compress(Args)] ", "[compress(Return)] "), ("[deprecated] ", "[x::y] [deprecated] ")]


def run_errors_at_element(ctx, spec):
    """Errors that sit on the very element that carries the suppression (a repeated, unknown or malformed attribute next to the
    allow, before it, after it, around it): the same errors with and without the allow attribute (library, all diagnostics)."""
    _, idx, n = spec
    cases = []
    for ti, tpl in enumerate(T):
        if ti % n != idx:
            continue
        for slot in tpl["in"]:
            for arg in ("All", tpl["lint"]):
                allow = "[allow(%s)] " % arg
                for e1, e2 in ATTRIBUTE_ERRORS:
                    for order, (with_, without) in (("allow-first", (allow + e1 + e2, e1 + e2)), ("allow-between", (e1 + allow + e2, e1 + e2)),
                                                     ("allow-last", (e1 + e2 + allow, e1 + e2))):
                        cases.append((tpl, slot, arg, order, e1 + e2, fill_raw(tpl, {slot: with_}), fill_raw(tpl, {slot: without})))
    reqs = []
    for c_ in cases:
        reqs.append({"op": "compile", "files": c_[5], "want": ["diags"]})
        reqs.append({"op": "compile", "files": c_[6], "want": ["diags"]})
    resps = ctx.worker.batch(reqs)
    for i, (tpl, slot, arg, order, errattrs, with_, without) in enumerate(cases):
        a, b = resps[2 * i], resps[2 * i + 1]
        ctx.note_case(("err-at", tpl["name"], slot, arg, order, errattrs))
        ctx.stats["errors_at_element_cases"] += 1
        replay = {"kind": "library", "call": "compile_from_strings + into_diagnostics", "files": with_, "files_without_suppression": without,
                  "template": tpl["name"], "slot": slot, "argument": arg, "order": order}
        if any("died" in r or r.get("panic") for r in (a, b)):
            p = a.get("panic") or b.get("panic") or {"message": "worker died", "location": "?"}
            ctx.violate(core.panic_signature(p), "crashed: %s" % p, replay)
            continue
        ea = sorted((d["code"], d["message"]) for d in a["diags"] if d["level"] == "error")
        eb = sorted((d["code"], d["message"]) for d in b["diags"] if d["level"] == "error")
        replay["errors_with"] = ea[:5]
        replay["errors_without"] = eb[:5]
        if not eb:
            ctx.stats["errors_at_element_no_error_in_twin"] += 1     # that attribute is legal there: nothing to compare
            continue
        ctx.stats["errors_at_element_compared"] += 1
        if ea != eb:
            ctx.violate("suppression-changes-errors:at-element/" + order, "the allow attribute (%s, %s) changes the errors on its own element: "
                        "%r with it, %r without" % (arg, order, [e[0] for e in ea], [e[0] for e in eb]), replay)


def run_request(ctx, spec):
    """The generator request with and without a suppression differs only in the attribute."""
    _, idx, n = spec
    schema = wire.parse_schema(os.path.join(build.repo(), "slice", "Compiler"))
    tmp = ctx.tmpdir()
    k = 0

    def request_for(texts, extra):
        nonlocal k
        d = os.path.join(tmp, "r%d_%d" % (idx, k))
        k += 1
        log = os.path.join(d, "log")
        os.makedirs(log)
        names = []
        for i, tx in enumerate(texts):
            with open(os.path.join(d, "f%d.slice" % i), "w") as f:
                f.write(tx)
            names.append("f%d.slice" % i)
        core.link_tool(ctx.paths["fakegen"], os.path.join(d, "gen-ok-c13"))
        with open(os.path.join(log, "gen-ok-c13.reply"), "wb") as f:
            f.write(wire.enc_reply([]))
        res = ctx.run_slicec(names + extra + ["-G", "./gen-ok-c13"], cwd=d, env={"FAKEGEN_LOG": log})
        cap = [x for x in os.listdir(log) if x.endswith(".stdin")]
        req = None
        if cap:
            with open(os.path.join(log, cap[0]), "rb") as f:
                req = wire.decode_request(schema, f.read())
        shutil.rmtree(d, ignore_errors=True)
        return res, req

    def drop_allow(x):
        if isinstance(x, dict):
            if x.get("_struct") == "Attribute" and x.get("directive") == "allow":
                return None
            return {key: drop_allow(v) for key, v in x.items() if not key.startswith("_end")}
        if isinstance(x, list):
            return [y for y in (drop_allow(v) for v in x) if y is not None]
        return x

    for ti, tpl in enumerate(T):
        if ti % n != idx:
            continue
        base_res, base_req = request_for(fill(tpl, None, ""), [])
        for slot in (["file"] + tpl["in"] + tpl["out"])[:3]:
            res, req = request_for(fill(tpl, slot, tpl["lint"]), [])
            ctx.note_case(("req", tpl["name"], slot))
            ctx.stats["request_pairs"] += 1
            replay = {"kind": "binary", "files": fill(tpl, slot, tpl["lint"]), "template": tpl["name"], "slot": slot}
            if res.crashed() or base_res.crashed() or req is None or base_req is None:
                ctx.violate("crash:suppression-request", "no request captured: %r" % res.brief(), replay)
                continue
            if res.status != base_res.status:
                ctx.violate("suppression-changes-exit-status", "exit status %r -> %r" % (base_res.status, res.status), replay)
                continue
            if json.dumps(drop_allow(req), sort_keys=True) != json.dumps(drop_allow(base_req), sort_keys=True):
                ctx.violate("suppression-changes-request", "the generator request differs beyond the allow attribute", replay)
        res, req = request_for(fill(tpl, None, ""), ["-A", "All"])
        if req is not None and base_req is not None and json.dumps(drop_allow(req), sort_keys=True) != json.dumps(drop_allow(base_req), sort_keys=True):
            ctx.violate("suppression-changes-request", "-A All changes the generator request", {"kind": "binary", "template": tpl["name"]})


def run_dupfile(ctx, spec):
    """DuplicateFile has no location: only the command line can silence it."""
    tmp = os.path.join(ctx.tmpdir(), "dup")
    os.makedirs(tmp, exist_ok=True)
    with open(os.path.join(tmp, "a.slice"), "w") as f:
        f.write("module M\n[deprecated] struct D {}\nstruct S { d: D }\n")
    with open(os.path.join(tmp, "b.slice"), "w") as f:
        f.write("module N\nstruct T {}\n")
    lists = [["a.slice", "./a.slice"], ["a.slice", "b.slice", "a.slice"], ["b.slice", "-R", "a.slice", "-R", "./a.slice"],
             ["a.slice", "a.slice", "a.slice"]]
    allows = [([], False), (["-A", "DuplicateFile"], True), (["-A", "All"], True), (["--allow", "duplicatefile"], True), (["-A", "ALL"], True),
              (["-A", "Deprecated"], False), (["-A", "BrokenDocLink", "-A", "DuplicateFile"], True), (["-A", "Deprecated", "-A", "IncorrectDocComment"], False)]
    for files in lists:
        for allow, silenced in allows:
            argv = ["slicec"] + files + allow
            r = ctx.worker.request({"op": "compile_opts", "argv": argv, "cwd": tmp, "want": ["diags"]})
            ctx.note_case(("dupfile", tuple(argv)))
            ctx.stats["duplicate_file_cases"] += 1
            replay = {"kind": "library", "call": "compile_from_options + into_diagnostics", "argv": argv, "files": {"a.slice": "...", "b.slice": "..."},
                      "expected": "silenced" if silenced else "warning"}
            if "died" in r or r.get("panic") or "usage_error" in r:
                ctx.violate("crash:dupfile", "failed: %r" % (r.get("panic") or r.get("died") or r.get("usage_error")), replay)
                continue
            dups = [d for d in r["diags"] if d["code"] == "DuplicateFile"]
            paths = [x for x in files if x != "-R"]
            want_n = len(paths) - len(set(os.path.normpath(x) for x in paths))
            replay["observed"] = [(d["code"], d["level"]) for d in r["diags"]]
            if len(dups) != want_n:
                ctx.violate("duplicate-file-count", "%d DuplicateFile lints for %r" % (len(dups), files), replay)
                continue
            levels = set(d["level"] for d in dups)
            if silenced and levels != {"allowed"}:
                ctx.violate("not-silenced:duplicate-file/cmdline", "DuplicateFile with %r: levels %s" % (allow, sorted(levels)), replay)
            elif not silenced and levels != {"warning"}:
                ctx.violate("silenced-out-of-scope:duplicate-file/cmdline", "DuplicateFile with %r: levels %s" % (allow, sorted(levels)), replay)
            # the other lint of the program is untouched by a DuplicateFile suppression
            dep = [d for d in r["diags"] if d["code"] == "Deprecated"]
            want_dep = "allowed" if any(a.lower() in ("all", "deprecated") for a in allow) else "warning"
            if len(dep) != 1 or dep[0]["level"] != want_dep:
                ctx.violate("suppression-changes-other-diagnostics:duplicate-file", "Deprecated lint is %r with %r" % ([d["level"] for d in dep], allow), replay)


# ---------------------------------------------------------------------------------------------------------------
# random programs with many lints and many suppressions

def _entities(prog):
    from ..slicegen.model import children
    out = []

    def walk(e, fi):
        out.append((e, fi))
        for ch in children(e):
            walk(ch, fi)
    for fi, f in enumerate(prog.files):
        for d in f.defs:
            walk(d, fi)
    return out


def make_random(rng, n):
    """A valid model program into which lints are injected at known elements and allow attributes are scattered.
    Returns (prog, lints, cmdline) with lints = [{"kind", "entity", "file", "marker" | "comment"}]."""
    from ..slicegen import gen
    from ..slicegen.model import (Alias, Attr, Comment, Enum, Enumerator, Field, Interface, Operation, Param, Struct, TypeExpr)
    prog = gen.valid_program(random.Random(rng.random()), max_files=3, type_depth=2)
    ents = _entities(prog)
    lints = []
    k = 0
    # deprecated targets live in the first file's module and are referenced globally
    mod0 = prog.files[0].module
    deps = []

    def dep_ref(optional=False):
        nonlocal k
        k += 1
        name = "Dep%dq%d" % (n, k)
        d = Struct(name, [Field("x", TypeExpr("prim", "bool"))], compact=True,
                   attrs=[Attr("deprecated", rng.choice([[], ["reason %d" % k]]))])
        deps.append(d)
        t = TypeExpr("named", "::" + mod0 + "::" + name, optional=optional)
        t.target = d
        return name, t

    def wrap(t):
        r = rng.random()
        if r < 0.6:
            return t
        if r < 0.8:
            return TypeExpr("seq", args=[t])
        if r < 0.9:
            return TypeExpr("dict", args=[TypeExpr("prim", "string"), t])
        return TypeExpr("result", args=[TypeExpr("prim", "bool"), t])

    for e, fi in list(ents):
        if rng.random() > 0.35:
            continue
        new = None
        if isinstance(e, Struct):
            name, t = dep_ref()
            new = Field("zdep%d" % k, t if e.compact else wrap(t))
            new.parent = e
            e.fields.insert(rng.randint(0, len(e.fields)), new)
        elif isinstance(e, Operation):
            name, t = dep_ref()
            pnames, rnames = [p.id for p in e.params], [r.id for r in e.returns if not r.unnamed]
            if e.return_tuple and len(e.returns) >= 2 and rng.random() < 0.5:
                # sometimes named like a parameter (parameters and return members are separate name scopes)
                free = [x for x in pnames if x not in rnames]
                new = Param(rng.choice(free) if free and rng.random() < 0.5 else "zdep%d" % k, wrap(t))
                e.returns.insert(0, new)
            else:
                free = [x for x in rnames if x not in pnames]
                new = Param(rng.choice(free) if free and rng.random() < 0.5 else "zdep%d" % k, wrap(t))
                e.params.insert(0, new)
            new.parent = e
            # a twin on the other side of the arrow with the same identifier and its own deprecated type: two lints of one kind
            # whose elements have the same scoped name; a suppression on one of them says nothing about the other
            twin = None
            if rng.random() < 0.5:
                in_returns = any(x is new for x in e.returns)
                if in_returns and new.id not in [p.id for p in e.params if p is not new]:
                    name2, t2 = dep_ref()
                    twin = Param(new.id, wrap(t2))
                    e.params.insert(0, twin)
                elif not in_returns and e.return_tuple and len(e.returns) >= 2 and new.id not in [r.id for r in e.returns]:
                    name2, t2 = dep_ref()
                    twin = Param(new.id, wrap(t2))
                    e.returns.insert(0, twin)
            if twin is not None:
                twin.parent = e
                twin.module = e.module
                lints.append({"kind": "Deprecated", "entity": twin, "file": fi, "marker": name2})
                r = rng.random()
                if r < 0.6:
                    which = twin if r < 0.3 else new
                    which.attrs = list(which.attrs) + [Attr("allow", [rng.choice(["Deprecated", "All"])])]
        elif isinstance(e, Enumerator) and e.fields is not None:
            name, t = dep_ref()
            new = Field("zdep%d" % k, wrap(t))
            new.parent = e
            e.fields.insert(0, new)
        if new is not None:
            new.module = e.module
            lints.append({"kind": "Deprecated", "entity": new, "file": fi, "marker": name})
    # aliases of deprecated types (the alias is the element concerned)
    for fi, f in enumerate(prog.files):
        if rng.random() < 0.5:
            name, t = dep_ref()
            a = Alias("ZAlias%dq%d" % (n, k), t)
            a.module = f.module
            f.defs.append(a)
            lints.append({"kind": "Deprecated", "entity": a, "file": fi, "marker": name})
    # doc-comment lints, one comment per element, one or two lints per comment
    for e, fi in _entities(prog):
        if isinstance(e, Param) or e.comment is not None or rng.random() > 0.3:
            continue
        k += 1
        choice = rng.choice(["broken", "broken-see", "malformed", "incorrect", "broken+incorrect"])
        lines, kinds = [], []
        if choice in ("broken", "broken+incorrect"):
            lines.append(" text {@link Nope%dq%d} more" % (n, k)); kinds.append("BrokenDocLink")
        if choice == "broken-see":
            lines.append(" @see Nope%dq%d" % (n, k)); kinds.append("BrokenDocLink")
        if choice == "malformed":
            lines.append(" @unknown%dq%d foo" % (n, k)); kinds.append("MalformedDocComment")
        if choice in ("incorrect", "broken+incorrect"):
            # '@param' is legal on enumerators (it documents their fields), '@returns' only on operations
            lines.append((" @param nope%dq%d: no such parameter" % (n, k)) if isinstance(e, Operation) else " @returns: nothing to return")
            kinds.append("IncorrectDocComment")
        cm = Comment()
        cm.raw_lines = lines
        e.comment = cm
        for li, kind in enumerate(kinds):
            lints.append({"kind": kind, "entity": e, "file": fi, "comment": cm, "line": li})
    prog.files[0].defs = deps + prog.files[0].defs
    for d in deps:
        d.module = mod0
        for fld in d.fields:
            fld.module = mod0
    # suppressions: anywhere
    names = ["Deprecated", "BrokenDocLink", "IncorrectDocComment", "MalformedDocComment", "All"]
    for e, fi in _entities(prog):
        if isinstance(e, Param) and e.unnamed:
            continue
        if rng.random() < 0.18:
            e.attrs = list(e.attrs) + [Attr("allow", rng.sample(names, rng.choice([1, 1, 2])))]
    for f in prog.files:
        if rng.random() < 0.2:
            f.attrs = list(f.attrs) + [Attr("allow", rng.sample(names, rng.choice([1, 1, 2])))]
    cmdline = rng.choice([[], [], [], ["Deprecated"], ["BrokenDocLink"], ["IncorrectDocComment", "MalformedDocComment"], ["All"], ["DuplicateFile"]])
    return prog, lints, cmdline


def _allows(attrs):
    out = set()
    for a in attrs:
        if a.directive == "allow":
            out.update(a.args)
    return out


def run_random(ctx, spec):
    from ..slicegen import printer
    _, count, idx = spec
    rng = ctx.rng("rand/%d" % idx)
    items, reqs = [], []
    for n in range(count):
        prog, lints, cmdline = make_random(random.Random(rng.random()), idx * 100000 + n)
        style = rng.choice(["plain", "dense", "lines", "random"])
        texts = printer.print_program(prog, [printer.Layout(random.Random(rng.random()), style) for _ in prog.files])
        items.append((prog, lints, cmdline, texts))
        reqs.append({"op": "compile", "files": texts, "allow": cmdline, "want": ["diags"]})
    for k0 in range(0, len(reqs), 40):
        resps = ctx.worker.batch(reqs[k0:k0 + 40])
        for (prog, lints, cmdline, texts), r in zip(items[k0:k0 + 40], resps):
            judge_random(ctx, prog, lints, cmdline, texts, r)
    if items:
        ctx.sample({"family": "random programs with many lints", "files": items[0][3], "command_line_allow": items[0][2]}, limit=1)


def judge_random(ctx, prog, lints, cmdline, texts, r):
    ctx.note_case(("rand", tuple(texts), tuple(cmdline)))
    replay = {"kind": "library", "call": "compile_from_strings + into_diagnostics(options)", "files": texts, "allow": cmdline}
    if "died" in r or r.get("panic"):
        p = r.get("panic") or {"message": "worker " + r["died"], "location": "?"}
        ctx.violate(core.panic_signature(p), "crashed: %s" % p, replay)
        return
    if r.get("has_errors"):
        # the construction is meant to be valid; an error here is a generator problem, not a verdict on suppression
        ctx.stats["random_programs_with_errors_skipped"] += 1
        for d in r["diags"]:
            if d["level"] == "error":
                ctx.stats["random_skip_reason:" + d["code"]] += 1
                ctx.extra.setdefault("random_skip_examples", {}).setdefault(d["code"], d["message"][:200])
        return
    ctx.stats["random_programs"] += 1
    diags = [d for d in r["diags"] if d["code"] in ALL_LINTS]
    used = set()
    for L in lints:
        e = L["entity"]
        # the suppressions visible from the element: itself, every enclosing definition, its file, the command line
        visible = set(cmdline)
        chain = []
        x = e
        while x is not None:
            chain.append(x)
            x = x.parent
        for x in chain:
            visible |= _allows(x.attrs)
        visible |= _allows(prog.files[L["file"]].attrs)
        silenced = L["kind"] in visible or "All" in visible
        if "marker" in L:
            found = [i for i, d in enumerate(diags) if d["code"] == "Deprecated" and ("'%s'" % L["marker"]) in d["message"]]
        else:
            row = L["comment"].pos["lines"][L["line"]][0]
            found = [i for i, d in enumerate(diags) if d["code"] == L["kind"] and d["span"] and d["span"][4] == "string-%d" % L["file"]
                     and d["span"][0] == row]
        where = "%s about %s %s" % (L["kind"], e.kind, e.scoped())
        replay2 = dict(replay, lint=where, expected="silenced" if silenced else "reported as a warning",
                       suppressions_in_scope=sorted(visible))
        if len(found) != 1:
            ctx.violate("random:lint-count:%s/%s" % (L["kind"], e.kind), "%s: recorded %d time(s)" % (where, len(found)), replay2)
            return
        used.add(found[0])
        level = diags[found[0]]["level"]
        ctx.stats["random_lints_judged"] += 1
        ctx.stats["random_expected_silenced" if silenced else "random_expected_reported"] += 1
        if silenced and level != "allowed":
            ctx.violate("random:not-silenced:%s/%s" % (L["kind"], e.kind), "%s: a suppression in scope names it, level is %s" % (where, level), replay2)
            return
        if not silenced and level != "warning":
            ctx.violate("random:silenced-out-of-scope:%s/%s" % (L["kind"], e.kind), "%s: no suppression in scope names it, level is %s"
                        % (where, level), replay2)
            return
    extra = [d for i, d in enumerate(diags) if i not in used]
    if extra:
        ctx.violate("random:unexpected-lint:" + extra[0]["code"], "lint not injected by the generator: %r" % (extra[0],), replay)


def run_shard(ctx, spec):
    {"templates": run_templates, "random": run_random, "errors-at-element": run_errors_at_element, "parse-errors": run_parse_errors, "unfinished": run_unfinished, "errors": run_errors, "request": run_request, "dupfile": run_dupfile}[spec[0]](ctx, spec)


def plan(tier, seed):
    n = 3000 if tier == "quick" else 400000
    return ([("templates", i, 8) for i in range(8)] + [("errors", i, 8) for i in range(8)] + [("request", i, 8) for i in range(8)] + [("dupfile",)]
            + [("random", n // 16, i) for i in range(16)] + [("errors-at-element", i, 8) for i in range(8)] + [("parse-errors", i, 8) for i in range(8)] + [("unfinished",)])


def main(tier, seed):
    paths = build.build("release", ("slicec", "vh"))
    run = core.run_shards(__name__, PROP, tier, seed, paths, plan(tier, seed))
    return core.finish(
        run, "exploration",
        rule=("exhaustive template product: %d templates (Deprecated about a struct field / enumerator field / parameter / return "
              "member / single return / alias / base list / underlying type / nested type / cross-file; BrokenDocLink, "
              "IncorrectDocComment, MalformedDocComment about struct, field, interface, operation, enum, enumerator, custom, alias) x "
              "placement of the suppression (file attribute, the element, each enclosing definition, siblings, the deprecated "
              "definition, another file, -A on the command line in several letter cases) x argument (the lint, All, another lint, "
              "two lints). Each case is compared with its unsuppressed twin (level of the seeded lint, all other diagnostics, AST). "
              "Binary families: an error next to every in-scope suppression (errors and exit status unchanged), generator request "
              "with/without. Random family: model-generated valid programs (<= 3 files) into which Deprecated uses (new fields, "
              "parameters, return members, enumerator fields, aliases - each naming its own deprecated type) and doc-comment lints "
              "(one comment per element, located by file and row) are injected at known elements and allow attributes are scattered "
              "over every kind of element, the files and the command line; every injected lint must be recorded exactly once with "
              "the level the rule gives, and no other lint may appear. "
              "distinct_nontrivial = distinct (template, placement, argument) + distinct random programs" % len(T)),
        required={"template_cases": 2000, "expected_silenced": 1000, "expected_reported": 400, "error_cases": 100, "request_pairs": 50,
                  "duplicate_file_cases": 10,
                  "errors_at_element_compared": 1000, "parse_error_lint_judged": 500, "random_programs": 2000, "random_lints_judged": 10000, "random_expected_silenced": 3000, "random_expected_reported": 3000},
        assumptions=["which -A spellings are accepted is taken from the command-line parser itself; an accepted value must be effective",
                     "the element a Deprecated lint concerns is the member / alias / interface / enum holding the reference",
                     "DuplicateFile can only be suppressed from the command line (covered by C14's binary family)"],
        exhaustive=True,
        extra_coverage={"exhaustive_space": "%d templates x all placements x 5 attribute arguments + 7 command-line spellings" % len(T)},
    )
