"""C14 - emitted diagnostics are complete, well-formed and match the totals.

Observation points: bytes written by DiagnosticEmitter into an in-memory writer (library worker) and
stderr / stdout / exit status of the real binary. Oracle: Python's json module as the independent JSON reader, a block
parser for the human format, and the diagnostics list returned by the library for the same inputs.
"""
import json
import os
import random
import re
import shutil

from .. import build, core
from ..slicegen import gen, printer
from ..slicegen.model import Attr
from . import c09

PROP = "C14"
KEYS = {"message", "severity", "span", "notes", "error_code"}
MARK = "MARKER_%d_ZQ"


def want_span(sp):
    if sp is None:
        return None
    return {"start": {"row": sp[0], "col": sp[1]}, "end": {"row": sp[2], "col": sp[3]}, "file": sp[4]}


def check_json(ctx, text, diags, replay, family, stream_name="emitter output"):
    """text: what was written to the diagnostic stream; diags: the library's list (with levels)."""
    shown = [d for d in diags if d["level"] != "allowed"]
    lines = text.split("\n")
    if lines and lines[-1] == "":
        lines = lines[:-1]
    elif text:
        ctx.violate("json-last-line-unterminated:" + family, "%s does not end with a line break" % stream_name, replay)
        return False
    objs = []
    for i, l in enumerate(lines):
        try:
            o = json.loads(l)
        except ValueError as e:
            replay["line"] = l[:400]
            ctx.violate("json-line-not-json:" + family, "line %d of the %s is not a JSON document: %s" % (i + 1, stream_name, e), replay)
            return False
        if not isinstance(o, dict) or set(o) != KEYS:
            replay["line"] = l[:400]
            ctx.violate("json-keys:" + family, "line %d has keys %r" % (i + 1, sorted(o) if isinstance(o, dict) else type(o)), replay)
            return False
        objs.append(o)
    if len(objs) != len(shown):
        replay["emitted_codes"] = [o["error_code"] for o in objs]
        replay["library_codes"] = [(d["code"], d["level"]) for d in diags]
        ctx.violate("json-count:" + family, "%d JSON diagnostics emitted, the library holds %d that are not suppressed" % (len(objs), len(shown)), replay)
        return False
    for i, (o, d) in enumerate(zip(objs, shown)):
        want = {"message": d["message"], "severity": d["level"], "span": want_span(d["span"]), "error_code": d["code"],
                "notes": [{"message": n["message"], "span": want_span(n["span"])} for n in d["notes"]]}
        if o != want:
            diffkeys = [k for k in KEYS if o[k] != want[k]]
            replay["emitted"] = o
            replay["library"] = want
            ctx.violate("json-content:%s:%s" % (family, "+".join(sorted(diffkeys))), "diagnostic %d (%s): emitted %s differs from the recorded diagnostic"
                        % (i, d["code"], diffkeys), replay)
            return False
        ctx.stats["json_diagnostics_compared"] += 1
    return True


def check_human(ctx, text, diags, replay, family):
    shown = [d for d in diags if d["level"] != "allowed"]
    blocks = [b for b in c09.parse_human(text)]
    heads = [b for b in blocks if b["kind"] != "note"]
    if len(heads) != len(shown):
        replay["emitted_headers"] = [b["header"][:100] for b in heads]
        replay["library"] = [(d["code"], d["level"]) for d in diags]
        ctx.violate("human-count:" + family, "%d diagnostics shown, the library holds %d that are not suppressed" % (len(heads), len(shown)), replay)
        return False
    bi = 0
    for d in shown:
        b = blocks[bi]
        want_header = "%s [%s]: %s" % (d["level"], d["code"], d["message"])
        if b["header"] != want_header:
            replay["emitted_header"] = b["header"]
            replay["expected_header"] = want_header
            ctx.violate("human-header:" + family, "header %r, expected %r" % (b["header"][:120], want_header[:120]), replay)
            return False
        if (d["span"] is None) != (b["location"] is None):
            ctx.violate("human-location-presence:" + family, "diagnostic %s: location shown=%s, recorded=%s" % (d["code"], b["location"], d["span"]), replay)
            return False
        bi += 1
        for n in d["notes"]:
            if bi >= len(blocks) or blocks[bi]["kind"] != "note" or blocks[bi]["header"] != "note: " + n["message"]:
                replay["note"] = n["message"]
                ctx.violate("human-note-missing:" + family, "note %r of %s is not shown after it" % (n["message"][:80], d["code"]), replay)
                return False
            if (n["span"] is None) != (blocks[bi]["location"] is None):
                ctx.violate("human-note-location:" + family, "note %r: location shown=%s recorded=%s" % (n["message"][:60], blocks[bi]["location"], n["span"]), replay)
                return False
            bi += 1
        ctx.stats["human_diagnostics_compared"] += 1
    if bi != len(blocks):
        ctx.violate("human-extra-blocks:" + family, "%d extra note blocks" % (len(blocks) - bi), replay)
        return False
    return True


def check_no_trace(ctx, text, diags, replay, family, fmt):
    """Suppressed lints leave no trace: their (unique) message markers do not occur anywhere in the output."""
    visible = set()
    for d in diags:
        if d["level"] != "allowed":
            visible.update(re.findall(r"MARKER_\d+_ZQ", d["message"] + " ".join(n["message"] for n in d["notes"])))
    for d in diags:
        if d["level"] == "allowed":
            for m in re.findall(r"MARKER_\d+_ZQ", d["message"]):
                if m in visible:
                    continue    # the same text is legitimately shown by another, unsuppressed diagnostic
                ctx.stats["suppressed_markers_checked"] += 1
                # the marker may legitimately be visible inside a *source snippet* of another diagnostic (human format)
                if fmt == "json" and m in text:
                    ctx.violate("suppressed-lint-leaves-trace:" + family, "suppressed lint %s (%s) is visible in the %s output" % (d["code"], m, fmt), replay)
                    return False
                if fmt == "human" and re.search(r"^(warning|error|note)[^\n]*" + m, text, flags=re.M):
                    ctx.violate("suppressed-lint-leaves-trace:" + family, "suppressed lint %s (%s) is visible in the %s output" % (d["code"], m, fmt), replay)
                    return False
    return True


HOSTILE = ["plain", "with \"quotes\"", "back\\slash\\", "tab\there", "uni sep", "emoji \U0001F600", "é中文", "ctrl\x01\x1f", "</script>",
           "{\"json\": true}", "'single'", "%s %d {}", "\x7f", "a\u0085b", "﻿bom"]


def make_program(rng, n):
    """A generated program with many diagnostics of every kind; returns (texts, allow list)."""
    prog = gen.valid_program(random.Random(rng.random()), deprecated=True, max_files=3)
    gen.add_comments(prog, random.Random(rng.random()), 0.4)
    # hostile text in deprecated reasons (they end up in messages), each with a unique marker
    k = 0
    from ..slicegen.model import children

    def walk(e):
        nonlocal k
        for a in e.attrs:
            if a.directive == "deprecated":
                k += 1
                a.args = [(MARK % (n * 1000 + k)) + " " + rng.choice(HOSTILE)]
                a.quoted = [True]
        for c in children(e):
            walk(c)
    for f in prog.files:
        for d in f.defs:
            walk(d)
    if rng.random() < 0.7:
        c09.inject_diagnostics(prog, rng)
    # comment defects (lints): appended as raw text below
    style = rng.choice(["plain", "tabs", "crlf", "random"])
    texts = printer.print_program(prog, [printer.Layout(random.Random(rng.random()), style) for _ in prog.files])
    if rng.random() < 0.6:
        extra = rng.choice(["\n/// {@link Nope%d}\n/// @param q: MARKER_%d_ZQ\nstruct Extra%d {}\n", "\n/// {@link S\n/// @foo bar\ncustom Extra%d\n",
                            "\n/// @returns: nothing MARKER_%d_ZQ\nstruct Extra%d {}\n"])
        texts[0] += extra.replace("%d", str(n * 1000 + 999))
    allow = rng.choice([[], [], ["All"], ["Deprecated"], ["BrokenDocLink", "IncorrectDocComment"], ["MalformedDocComment"], ["DuplicateFile"],
                        ["all"], ["duplicatefile", "Deprecated"]])
    return texts, allow


def run_library(ctx, count, idx):
    rng = ctx.rng("lib/%d" % idx)
    for n in range(count):
        texts, allow = make_program(rng, idx * 100000 + n)
        base = {"op": "compile", "files": texts, "allow": allow, "want": ["diags"]}
        rj = ctx.worker.request(dict(base, emit="json"))
        rh = ctx.worker.request(dict(base, emit="human"))
        ctx.note_case(("lib", tuple(texts), tuple(allow)))
        replay = {"kind": "library", "call": "compile_from_strings + DiagnosticEmitter", "files": texts, "allow": allow}
        bad = [r for r in (rj, rh) if "died" in r or r.get("panic")]
        if bad:
            p = bad[0].get("panic") or {"message": "worker " + bad[0]["died"], "location": "?"}
            ctx.violate(core.panic_signature(p), "emitting diagnostics crashed: %s" % p, replay)
            continue
        ctx.stats["library_programs"] += 1
        ctx.stats["diagnostics_recorded"] += len(rj["diags"])
        ctx.stats["suppressed_diagnostics"] += sum(1 for d in rj["diags"] if d["level"] == "allowed")
        ctx.stats["diagnostics_with_notes"] += sum(1 for d in rj["diags"] if d["notes"])
        ctx.stats["diagnostics_without_span"] += sum(1 for d in rj["diags"] if d["span"] is None)
        replay["format"] = "json"
        if check_json(ctx, rj["emit"], rj["diags"], replay, "library"):
            check_no_trace(ctx, rj["emit"], rj["diags"], replay, "library", "json")
        replay = dict(replay, format="human")
        if "\x1b" in rh["emit"]:
            ctx.violate("escape-sequence-with-colours-disabled:library", "ESC byte in output although colours are disabled", replay)
        if check_human(ctx, rh["emit"], rh["diags"], replay, "library"):
            check_no_trace(ctx, rh["emit"], rh["diags"], replay, "library", "human")
        w, e = rh["totals"]
        want_w = sum(1 for d in rh["diags"] if d["level"] == "warning")
        want_e = sum(1 for d in rh["diags"] if d["level"] == "error")
        if (w, e) != (want_w, want_e):
            ctx.violate("totals-differ:library", "get_totals says %r, the list holds %d warnings / %d errors" % ((w, e), want_w, want_e), replay)
        if n == 0:
            ctx.sample({"family": "library", "json_output_head": rj["emit"][:700]}, limit=1)


FILE_NAMES = ["plain.slice", "with space.slice", "quo\"te.slice", "back\\slash.slice", "é中文.slice", "emoji\U0001F600.slice", "new\nline.slice",
              "tab\t.slice", "a'b.slice", "uni .slice", "per%cent.slice", "-dash.slice", "ctl\x01.slice"]


def run_binary(ctx, count, idx):
    rng = ctx.rng("bin/%d" % idx)
    tmp = ctx.tmpdir()
    for n in range(count):
        texts, allow = make_program(rng, 5000000 + idx * 100000 + n)
        d = os.path.join(tmp, "b%d_%d" % (idx, n))
        os.makedirs(d)
        fmt = rng.choice(["human", "json", "json"])
        names = []
        pool = [f for f in FILE_NAMES if fmt == "json" or "\n" not in f]
        for i, t in enumerate(texts):
            name = "%d%s" % (i, rng.choice(pool))
            with open(os.path.join(d, name), "w", newline="") as f:
                f.write(t)
            names.append("./" + name if name.startswith("-") else name)
        if rng.random() < 0.25:
            names.append(names[0])     # DuplicateFile lint: a diagnostic without span
        if rng.random() < 0.1:
            names.append("missing é.slice")   # E001: an error without span
        colour = rng.choice(["disable", "force", "default"])
        argv = list(names)
        for a in allow:
            argv += ["-A", a]
        if fmt == "json":
            argv += ["--diagnostic-format", "json"]
        if colour == "disable":
            argv.append("--disable-color")
        env = {"CLICOLOR_FORCE": "1"} if colour != "default" else {}
        res = ctx.run_slicec(argv, cwd=d, env=env)
        r = ctx.worker.request({"op": "compile_opts", "argv": ["slicec"] + argv, "cwd": d, "want": ["diags"]})
        ctx.note_case(("bin", tuple(texts), tuple(argv)))
        replay = {"kind": "binary", "argv": argv, "env": env, "files": dict(zip(names, texts)), "observed": res.brief()}
        try:
            if res.timed_out:
                ctx.inconclusive.append({"why": "watchdog"})
                continue
            crash = res.crashed()
            if crash or "died" in r or r.get("panic"):
                p = core.stderr_panic(res.stderr) or r.get("panic") or {"message": str(crash or r.get("died")), "location": "?"}
                ctx.violate(core.panic_signature(p) if p["location"] != "?" else "crash:emission", "crashed: %s" % (crash or p), replay)
                continue
            ctx.stats["binary_runs"] += 1
            diags = r["diags"]
            ctx.stats["diagnostics_without_span"] += sum(1 for x in diags if x["span"] is None)
            ctx.stats["diagnostics_recorded"] += len(diags)
            nw = sum(1 for x in diags if x["level"] == "warning")
            ne = sum(1 for x in diags if x["level"] == "error")
            err = res.stderr.decode("utf-8", "replace")
            out = res.stdout.decode("utf-8", "replace")
            if colour == "disable":
                ctx.stats["colour_disabled_runs"] += 1
                if "\x1b" in err or "\x1b" in out:
                    ctx.violate("escape-sequence-with-colours-disabled:binary", "--disable-color but ESC bytes in the output (format %s)" % fmt, replay)
                    continue
            if fmt == "json":
                if "\x1b" in err and colour != "force":
                    ctx.violate("escape-sequence-in-json", "ESC bytes in JSON output", replay)
                    continue
                if not check_json(ctx, err, diags, dict(replay), "binary", "stderr"):
                    continue
                check_no_trace(ctx, err, diags, replay, "binary", "json")
                if out.strip():
                    ctx.violate("json-format-writes-summary", "stdout is not empty in JSON format: %r" % out[:200], replay)
                    continue
            else:
                plain = re.sub(r"\x1b\[[0-9;]*m", "", err)
                if not check_human(ctx, plain, diags, dict(replay), "binary"):
                    continue
                check_no_trace(ctx, plain, diags, replay, "binary", "human")
                pout = re.sub(r"\x1b\[[0-9;]*m", "", out)
                mw = re.search(r"^Warnings: Compilation generated (\d+) warning\(s\)$", pout, flags=re.M)
                me = re.search(r"^Failed: Compilation failed with (\d+) error\(s\)$", pout, flags=re.M)
                gw = int(mw.group(1)) if mw else 0
                ge = int(me.group(1)) if me else 0
                ctx.stats["summaries_checked"] += 1
                if (gw, ge) != (nw, ne):
                    ctx.violate("summary-counts", "summary says %d warning(s) / %d error(s); %d / %d diagnostics are shown" % (gw, ge, nw, ne), replay)
                    continue
            if (res.status != 0) != (ne > 0):
                ctx.violate("exit-status-vs-totals", "exit status %r with %d errors" % (res.status, ne), replay)
            # independent of the library's own levels: a lint named on the command line leaves no trace at all
            for a in allow:
                names = ["DuplicateFile", "Deprecated", "BrokenDocLink", "IncorrectDocComment", "MalformedDocComment"] if a.lower() == "all" else \
                    [n for n in ["DuplicateFile", "Deprecated", "BrokenDocLink", "IncorrectDocComment", "MalformedDocComment"] if n.lower() == a.lower()]
                for lint_name in names:
                    ctx.stats["command_line_suppressions_checked"] += 1
                    marker = ("[%s]" % lint_name) if fmt == "human" else ('"error_code":"%s"' % lint_name)
                    if marker in re.sub(r"\x1b\[[0-9;]*m", "", err):
                        ctx.violate("suppressed-lint-leaves-trace:command-line:" + lint_name,
                                    "-A %s was given but a %s diagnostic is on stderr (%s format)" % (a, lint_name, fmt), replay)
        finally:
            shutil.rmtree(d, ignore_errors=True)
    ctx.sample({"family": "binary", "file_names": FILE_NAMES[:6]}, limit=1)


def run_generators(ctx, count, idx):
    """Diagnostics that stem from failing generators are diagnostics like any other: emitted once each, in generator order, after
    the compiler's own, and counted by the summary and the exit status - whatever the position of the failing generator."""
    from .. import genrun, wire
    rng = ctx.rng("gen/%d" % idx)
    root = os.path.join(ctx.tmpdir(), "gens%d" % idx)
    os.makedirs(root, exist_ok=True)
    for n in range(count):
        gc = genrun.GenCase(ctx, root, "g%d" % n)
        warn = rng.random() < 0.5
        gc.write("a.slice", "module M\n[deprecated] struct D {}\nstruct S { a: D }\n" if warn else "module M\nstruct S { a: bool }\n")
        lineup = [rng.choice(["ok", "ok", "exit1", "missing", "stderr", "badreply", "replykill"]) for _ in range(rng.randint(1, 4))]
        argv = ["a.slice"]
        expected = []       # paths of the generators that must be reported, in order
        for gi, g in enumerate(lineup):
            if g == "missing":
                path = "./no-such-generator-%d" % gi
            elif g == "badreply":
                path = gc.add_generator("ok", b"\x01\x02", tag="bad%d" % gi)
            else:
                path = gc.add_generator(g, wire.enc_reply([("out%d.txt" % gi, "x\n")]), tag="t%d" % gi)
            if g != "ok":
                expected.append(path)
            argv += ["-G", path]
        fmt = rng.choice(["human", "human", "json"])
        if "stderr" in lineup:
            # what a generator writes to its stderr is forwarded verbatim by design (collect_plugin_output); those bytes are the
            # generator's, not diagnostics, so that behaviour is only used where they cannot be mistaken for any
            fmt = "human"
        allow = rng.choice([[], [], ["Deprecated"], ["All"]])
        for a in allow:
            argv += ["-A", a]
        if fmt == "json":
            argv += ["--diagnostic-format", "json"]
        argv.append("--disable-color")
        res = gc.run(argv)
        ctx.note_case(("gens", tuple(lineup), warn, fmt, tuple(allow)))
        replay = {"kind": "binary", "argv": argv, "generators": lineup, "files": {"a.slice": "..."}, "observed": res.brief()}
        try:
            if res.timed_out:
                ctx.inconclusive.append({"why": "watchdog"})
                continue
            crash = res.crashed()
            if crash:
                p = core.stderr_panic(res.stderr) or {"message": str(crash), "location": "?"}
                ctx.violate(core.panic_signature(p) if p["location"] != "?" else "crash:emission", "crashed: %s" % crash, replay)
                continue
            ctx.stats["generator_lineups"] += 1
            err = res.stderr.decode("utf-8", "replace")
            out = res.stdout.decode("utf-8", "replace")
            nw = 1 if warn and not allow else 0
            if fmt == "json":
                objs = []
                bad = False
                for line in err.splitlines():
                    try:
                        objs.append(json.loads(line))
                    except ValueError:
                        bad = True
                if bad:
                    ctx.violate("json-line-not-an-object:generators", "a stderr line is not a JSON object: %r" % err[:300], replay)
                    continue
                shown_e = [o for o in objs if o.get("severity") == "error"]
                shown_w = [o for o in objs if o.get("severity") == "warning"]
                named = [re.search(r"code-generator '([^']*)'", o["message"]) for o in shown_e]
            else:
                shown_e = re.findall(r"^error \[(\w+)\]: (.*)$", err, flags=re.M)
                shown_w = re.findall(r"^warning \[(\w+)\]", err, flags=re.M)
                named = [re.search(r"code-generator '([^']*)'", m[1]) for m in shown_e]
            got = [m.group(1) if m else None for m in named]
            if got != expected:
                ctx.violate("generator-errors-differ", "errors name generators %r, the failing ones are %r (line-up %r)" % (got, expected, lineup), replay)
                continue
            if len(shown_w) != nw:
                ctx.violate("generator-run-warnings-differ", "%d warnings shown, %d expected" % (len(shown_w), nw), replay)
                continue
            if fmt == "human":
                mw = re.search(r"^Warnings: Compilation generated (\d+) warning\(s\)$", out, flags=re.M)
                me = re.search(r"^Failed: Compilation failed with (\d+) error\(s\)$", out, flags=re.M)
                gw = int(mw.group(1)) if mw else 0
                ge = int(me.group(1)) if me else 0
                ctx.stats["summaries_checked"] += 1
                if (gw, ge) != (nw, len(expected)):
                    ctx.violate("summary-counts:generators", "summary says %d warning(s) / %d error(s); %d / %d diagnostics are shown (line-up %r)"
                                % (gw, ge, nw, len(expected), lineup), replay)
                    continue
            elif out.strip():
                ctx.violate("json-format-writes-summary", "stdout is not empty in JSON format: %r" % out[:200], replay)
                continue
            if (res.status != 0) != bool(expected):
                ctx.violate("exit-status-vs-totals:generators", "exit status %r with %d failing generator(s) (line-up %r)" % (res.status, len(expected), lineup), replay)
        finally:
            gc.cleanup()


def run_shard(ctx, spec):
    if spec[0] == "library":
        run_library(ctx, spec[1], spec[2])
    elif spec[0] == "generators":
        run_generators(ctx, spec[1], spec[2])
    else:
        run_binary(ctx, spec[1], spec[2])


def plan(tier, seed):
    n = 5000 if tier == "quick" else 250000
    m = 2500 if tier == "quick" else 100000
    g = 800 if tier == "quick" else 30000
    return ([("library", n // 16, i) for i in range(16)] + [("binary", m // 16, i) for i in range(16)]
            + [("generators", g // 8, i) for i in range(8)])


def main(tier, seed):
    paths = build.build("release", ("slicec", "vh"))
    run = core.run_shards(__name__, PROP, tier, seed, paths, plan(tier, seed))
    return core.finish(
        run, "exploration",
        rule=("case = one generated program with 0-40 diagnostics of every kind (lints with notes from deprecated uses, planted "
              "attribute errors, doc-comment defects, DuplicateFile without span; user text with quotes, backslashes, control "
              "characters, U+2028, emoji) x -A list; library family: emitter output into a buffer in both formats vs the returned "
              "diagnostics; binary family: real files with hostile names x {human, json} x {--disable-color, CLICOLOR_FORCE, default}. "
              "generator family: 1-4 generators drawn from {ok, exit 1, missing, stderr output, undecodable reply, killed after reply} "
              "after a clean or warnings-only compile: one E001 per failing generator, in order, counted by the summary and the "
              "exit status. distinct_nontrivial = distinct (program, options)"),
        required={"library_programs": 300, "binary_runs": 200, "json_diagnostics_compared": 1000, "human_diagnostics_compared": 1000,
                  "suppressed_diagnostics": 100, "diagnostics_with_notes": 100, "diagnostics_without_span": 10,
                  "summaries_checked": 50, "colour_disabled_runs": 50, "suppressed_markers_checked": 50, "generator_lineups": 500},
        assumptions=["file names containing line breaks are used with the JSON format only",
                     "bytes a generator writes to its own stderr are forwarded verbatim by design and are not diagnostics: 'nothing "
                     "else is written' is judged on runs whose generators keep their stderr empty",
                     "a suppressed lint's text may still be visible inside a source snippet of another diagnostic (human format)"],
    )
