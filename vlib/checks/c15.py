"""C15 - results are reproducible and do not depend on the order of the inputs.

Metamorphic monitor over the real binary (fresh process per run, hence fresh hash seeds): identical runs must be
byte-identical (stdout, stderr, captured generator request); permutations of the file list and moves between sources and
references must keep accepted <-> rejected, and for accepted programs every file's decoded request content and the
multiset of warnings.
"""
import itertools
import json
import os
import random
import shutil

from .. import build, core, wire
from ..slicegen import gen, printer

PROP = "C15"

COLLISIONS = [
    # definition vs. nested module of another file, used from a third file
    ("def-vs-nested-module", ["module A\nstruct B { x: bool }\n", "module A::B\nstruct C { y: bool }\n", "module Z\nstruct U { b: A::B }\n"]),
    ("def-vs-nested-module-2", ["module A\nenum B { X }\n", "module A::B\ncustom C\n", "module A\nstruct U { b: B, c: B::C }\n"]),
    ("same-definition-twice", ["module A\nstruct S {}\n", "module A\nstruct S {}\n", "module A\nstruct U { s: S }\n"]),
    ("same-name-different-kind", ["module A\nstruct S {}\n", "module A\ninterface S {}\n", "module A\nstruct U { s: S }\n"]),
    ("reopened-modules", ["module A\nstruct S1 { s: S2 }\n", "module A\nstruct S2 { x: bool }\n", "module A::B\nstruct S3 { a: S1, b: A::S2 }\n"]),
    ("deprecated-across-files", ["module A\n[deprecated(\"old\")] struct D {}\n", "module B\nstruct U { d: A::D }\n", "module C\ninterface I { op(d: A::D) -> A::D }\n"]),
    ("cross-file-aliases", ["module A\ntypealias T = Sequence<B::S>\n", "module B\nstruct S { x: bool }\n", "module C\nstruct U { t: A::T, u: A::T? }\n"]),
    ("cross-file-bases", ["module A\ninterface I : B::J { a() }\n", "module B\ninterface J : C::K { b() }\n", "module C\ninterface K { c() }\n"]),
    ("shadowing-across-files", ["module A\nstruct X { a: bool }\n", "module A::B\nstruct X { b: bool }\n", "module A::B\nstruct U { x: X, y: A::X }\n"]),
    ("member-vs-module", ["module A\nstruct S { B: bool }\n", "module A::S\nstruct B {}\n", "module Z\nstruct U { b: A::S::B }\n"]),
    ("enumerator-vs-definition", ["module A\nenum E { X }\n", "module A::E\nstruct X {}\n", "module Z\nstruct U { x: A::E::X }\n"]),
    ("broken-links-across-files", ["module A\n/// {@link B::S} and {@link Nope}\nstruct D {}\n", "module B\n/// @see A::D\nstruct S {}\n"]),
    ("cycle-across-files", ["module A\nstruct S { t: B::T }\n", "module B\nstruct T { s: A::S? }\n"]),
    ("alias-loop-across-files", ["module A\ntypealias X = B::Y\n", "module B\ntypealias Y = A::X\n", "module C\nstruct U { x: A::X }\n"]),
    # preprocessor symbols must not travel between files
    ("preprocessor-define-elsewhere", ["#define X\nmodule A\nstruct S {}\n", "module B\n#if X\nstruct Hidden {}\n#endif\nstruct T {}\n", "module C\nstruct U { t: B::T }\n"]),
    ("preprocessor-define-guards-error", ["#define X\nmodule A\nstruct S {}\n", "module B\n#if X\nstruct Bad { f: NoSuch }\n#endif\n", "module C\ncustom K\n"]),
    ("preprocessor-undef-elsewhere", ["#define Y\n#undef Y\nmodule A\nstruct S {}\n", "#define Y\nmodule B\n#if Y\nstruct Seen {}\n#endif\n", "module C\n#if !Y\nstruct NotY {}\n#endif\n"]),
    ("preprocessor-define-needed-by-reference", ["module A\n#if Z\nstruct Bad { f: NoSuch }\n#else\nstruct Good {}\n#endif\n", "#define Z\nmodule B\nstruct S {}\n"]),
    # a definition named like a module that is only implied (an enclosing module of a declared one)
    ("def-vs-implied-module", ["module A\nstruct B { x: bool }\n", "module A::B::C\nstruct D { y: bool }\n", "module Z\nstruct U { b: A::B }\n"]),
    ("def-vs-implied-module-deep", ["module A::B\nenum C { X }\n", "module A::B::C::D::E\ncustom K\n", "module Z\ncustom Q\n"]),
    ("alias-vs-implied-module", ["module A\ntypealias B = bool\n", "module A::B::C\nstruct D { y: bool }\n", "module A::B::C\nstruct E { d: D }\n"]),
    ("interface-vs-implied-module", ["module A\ninterface B { C() }\n", "module A::B::C::D\nstruct S {}\n", "module Z\nstruct U { s: A::B::C::D::S }\n"]),
    # files that hold no module once preprocessed, in every position
    ("module-less-file-if", ["#if LEGACY\nmodule L\nstruct Old {}\n#endif\n", "module A\nstruct S { x: bool }\n", "module B\nstruct T { s: A::S }\n"]),
    ("module-less-file-empty", ["", "module A\nstruct S { x: bool }\n", "module B\nstruct T { s: A::S }\n"]),
    ("module-less-file-comment", ["// nothing here\n/* at all */\n", "module A\nstruct S { x: bool }\n", "module B\ninterface I { op(s: A::S) }\n"]),
    ("module-less-files-two", ["", "module A\nstruct S { x: bool }\n", "#if X\nmodule Hidden\n#endif\n", "module B\nstruct T { s: A::S }\n"]),
    # an inheritance loop next to an interface that derives from one of its members; no operations, so that only the loop is at fault
    ("inheritance-loop-with-outsider", ["module A\ninterface Derived : B::X {}\n", "module B\ninterface X : Y {}\ninterface Y : X {}\n", "module C\ncustom K\n"]),
    ("inheritance-loop-3-with-outsiders", ["module A\ninterface D1 : B::X {}\ninterface D2 : B::Z {}\n", "module B\ninterface X : Y {}\n", "module B\ninterface Y : Z {}\ninterface Z : X {}\n"]),
    ("containment-cycle-with-outsider", ["module A\nstruct Holder { x: B::X }\n", "module B\nstruct X { y: Y? }\n", "module B\nstruct Y { x: X }\n"]),
    ("alias-loop-with-outsider", ["module A\ntypealias Out = Sequence<B::P>\nstruct U { o: Out }\n", "module B\ntypealias P = Sequence<Q>\n", "module B\ntypealias Q = Sequence<P>\n"]),
    # the same spelled-out name reached from two scopes ("T" from A::B and "B::T" from A both spell A::B::T, which does not exist):
    # whatever one file's lookup leaves behind must not answer the other's; the two candidates differ in what they may be used for
    ("relative-vs-qualified-same-spelling", ["module A::B\nstruct X { f: Dictionary<T, int32> }\n", "module A\ncompact struct T { id: int32 }\nstruct Y { g: B::T }\n",
                                            "module B\nstruct T { name: string }\n"]),
    ("relative-vs-qualified-same-spelling-2", ["module A::B\ninterface I : T {}\n", "module A\ninterface T {}\nstruct Y { g: B::T }\n", "module B\nstruct T { x: bool }\n"]),
    ("relative-vs-qualified-three-levels", ["module A::B::C\nstruct X { t: T, u: C::T? }\n", "module A\nstruct T { a: bool }\n", "module A::B\nstruct W { t: C::T }\n", "module C\nenum T { E }\n"]),
    # the same lint arising in several files of one module, about one deprecated element: every use is reported, in every order
    ("deprecated-users-in-one-module", ["module A\n[deprecated] struct Old {}\n[deprecated] interface OldI {}\n", "module A\ntypealias X = Old\ninterface I1 : OldI {}\n",
                                       "module A\ntypealias Y = Old\ninterface I2 : OldI {}\n", "module A\ntypealias Z = Sequence<Old>\nstruct U { o: Old, p: Old }\n"]),
    ("broken-links-same-target-many-files", ["module A\n/// {@link Nope}\nstruct S1 {}\n", "module A\n/// {@link Nope}\nstruct S2 {}\n/// {@link Nope}\nstruct S3 {}\n",
                                            "module A::B\n/// {@link Nope}\n/// @see Nope\nstruct S1 {}\n"]),
    # symbols given on the command line (DEFINES below) belong to every file afresh: a file that undefines or swaps them changes
    # nothing for the files compiled after it
    ("cmdline-symbol-undefined-elsewhere", ["#undef LEGACY\nmodule Demo\nstruct Fresh { id: int32 }\n",
                                            "module Demo\n#if LEGACY\nstruct Shared { x: bool }\n#endif\nstruct User { s: Shared }\n", "module Z\ncustom K\n"]),
    ("cmdline-symbol-swapped-elsewhere", ["module First\n#undef A\n#define B\nstruct F {}\n",
                                          "module Second\n#if A\nstruct SeenA {}\n#endif\n#if B\nstruct Bad { f: NoSuch }\n#endif\nstruct U { a: SeenA }\n", "module Z\ncustom K\n"]),
    ("cmdline-symbols-undefined-and-redefined", ["#undef P\n#undef Q\n#define P\nmodule A\n#if P && !Q\nstruct S {}\n#endif\nstruct T { s: S }\n",
                                                 "module B\n#if P && Q\nstruct S {}\n#endif\nstruct T { s: S }\n", "#undef Q\nmodule C\n#if P && !Q\nstruct V { t: B::T }\n#endif\n"]),
    ("operation-vs-parameter-scope", ["module A\ninterface I { op(op: bool) -> (op: bool, r: bool) }\n", "module A\n/// {@link I::op}\nstruct L {}\n"]),
]

DEFINES = {"collision/cmdline-symbol-undefined-elsewhere": ["LEGACY"], "collision/cmdline-symbol-swapped-elsewhere": ["A"],
           "collision/cmdline-symbols-undefined-and-redefined": ["P", "Q"]}
_CASE_DEFINES = {}

INJECT = ["\nstruct DupX {}\nstruct DupX {}\n", "\nstruct BadRef { f: NoSuchType }\n", "\nstruct BadTag { tag(1) a: bool?, tag(1) b: bool? }\n",
          "\nstruct Cyc { c: Cyc }\n", "\n[foo] struct BadAttr {}\n", "\nstruct {\n"]


def run_once(ctx, case_dir, names, order, split, schema, gen_path):
    """Returns observation dict."""
    log = os.path.join(case_dir, "_log")
    if os.path.isdir(log):
        shutil.rmtree(log)
    os.makedirs(log)
    with open(os.path.join(log, os.path.basename(gen_path) + ".reply"), "wb") as f:
        f.write(wire.enc_reply([]))
    argv = []
    for i in order:
        argv += [names[i]] if split[i] else ["-R", names[i]]
    for sym in _CASE_DEFINES.get(case_dir, ()):
        argv += ["-D", sym]
    argv += ["--diagnostic-format", "json", "-G", gen_path + ",k1=v1,k2=v2,zeta=é,alpha,k5=5,k6=six"]
    res = ctx.run_slicec(argv, cwd=case_dir, env={"FAKEGEN_LOG": log})
    cap = [x for x in os.listdir(log) if x.endswith(".stdin")]
    data = None
    if cap:
        with open(os.path.join(log, cap[0]), "rb") as f:
            data = f.read()
    return {"argv": argv, "res": res, "request": data}


def summarize(obs, schema):
    """(accepted, per-file content by path, sorted warnings) or raises."""
    res = obs["res"]
    diags = []
    for line in res.stderr.decode("utf-8", "replace").splitlines():
        if line.startswith("{"):
            diags.append(json.loads(line))
    accepted = res.status == 0
    warnings = sorted(json.dumps([d["error_code"], d["message"], d["span"]], sort_keys=True) for d in diags if d["severity"] == "warning")
    errors = sorted(d["error_code"] for d in diags if d["severity"] == "error")
    files = None
    if accepted and obs["request"] is not None:
        req = wire.decode_request(schema, obs["request"])
        files = {f["path"]: json.dumps(f, sort_keys=True) for f in req["sourceFiles"] + req["referenceFiles"]}
    return accepted, files, warnings, errors


def check_program(ctx, root, n, texts, family, schema, valid_expected=None, dups=()):
    """dups: indices of files that are listed once more each (the same spelling), so that every arrangement holds repeats."""
    case_dir = os.path.join(root, "p%d" % n)
    os.makedirs(case_dir)
    if family in DEFINES:
        _CASE_DEFINES[case_dir] = DEFINES[family]
    names = []
    for i, t in enumerate(texts):
        name = "f%d.slice" % i
        with open(os.path.join(case_dir, name), "w", newline="") as f:
            f.write(t)
        names.append(name)
    gen_path = os.path.join(case_dir, "gen-ok-c15")
    core.link_tool(ctx.paths["fakegen"], gen_path)
    k = len(texts)
    rng = ctx.rng("p/%s/%d" % (family, n))
    base_order = list(range(k)) + list(dups)
    all_src = [True] * k
    replay = {"kind": "binary", "files": dict(zip(names, texts)), "family": family}
    ctx.note_case((family, tuple(texts)))
    ctx.stats["programs"] += 1
    try:
        # (a) identical runs in fresh processes
        first = run_once(ctx, case_dir, names, base_order, all_src, schema, "./gen-ok-c15")
        if first["res"].timed_out:
            ctx.inconclusive.append({"family": family, "why": "watchdog"})
            return
        crash = first["res"].crashed()
        if crash:
            p = core.stderr_panic(first["res"].stderr) or {"message": crash, "location": "?"}
            replay["argv"] = first["argv"]
            ctx.violate(core.panic_signature(p) if p["location"] != "?" else "crash:" + family, "slicec crashed: %s" % crash, replay)
            return
        for rep in range(2):
            again = run_once(ctx, case_dir, names, base_order, all_src, schema, "./gen-ok-c15")
            ctx.stats["repeat_runs"] += 1
            for what in ("stdout", "stderr"):
                if getattr(again["res"], what) != getattr(first["res"], what):
                    replay["argv"] = first["argv"]
                    replay["first"] = getattr(first["res"], what)[:1500].decode("utf-8", "replace")
                    replay["second"] = getattr(again["res"], what)[:1500].decode("utf-8", "replace")
                    ctx.violate("not-reproducible:" + what, "two identical runs produced different %s" % what, replay)
                    return
            if again["request"] != first["request"] or again["res"].status != first["res"].status:
                replay["argv"] = first["argv"]
                ctx.violate("not-reproducible:request", "two identical runs produced different generator requests / exit status", replay)
                return
        base = summarize(first, schema)
        if valid_expected is True and not base[0]:
            ctx.stats["generated_program_rejected"] += 1     # decided by C02/C04
        ctx.stats["accepted_programs" if base[0] else "rejected_programs"] += 1
        # (b) permutations x source/reference assignments
        perms = sorted(set(itertools.permutations(base_order)))
        splits = [s for s in itertools.product([True, False], repeat=k) if any(s)]
        combos = [(p, s) for p in perms for s in splits]
        rng.shuffle(combos)
        limit = 16 if ctx.tier == "quick" else 60
        for order, split in combos[:limit]:
            obs = run_once(ctx, case_dir, names, list(order), list(split), schema, "./gen-ok-c15")
            ctx.stats["permuted_runs"] += 1
            if obs["res"].timed_out:
                ctx.inconclusive.append({"family": family, "why": "watchdog"})
                continue
            crash = obs["res"].crashed()
            if crash:
                p = core.stderr_panic(obs["res"].stderr) or {"message": crash, "location": "?"}
                replay["argv"] = obs["argv"]
                ctx.violate(core.panic_signature(p) if p["location"] != "?" else "crash:" + family, "slicec crashed: %s" % crash, replay)
                return
            cur = summarize(obs, schema)
            replay["argv_a"] = first["argv"]
            replay["argv_b"] = obs["argv"]
            if cur[0] != base[0]:
                replay["errors_a"], replay["errors_b"] = base[3], cur[3]
                moved = list(split) != all_src
                ctx.violate("acceptance-depends-on-%s:%s" % ("source-reference-split" if moved and list(order) == base_order else "order", family),
                            "accepted=%s with %r but accepted=%s with %r (errors %r vs %r)" % (base[0], first["argv"][:k * 2], cur[0], obs["argv"][:k * 2], base[3], cur[3]),
                            replay)
                return
            if base[0]:
                if cur[2] != base[2]:
                    replay["warnings_a"], replay["warnings_b"] = base[2][:6], cur[2][:6]
                    ctx.violate("warnings-depend-on-order:" + family, "the set of warnings differs between two arrangements of the same files", replay)
                    return
                if cur[1] is None or base[1] is None or set(cur[1]) != set(base[1]):
                    ctx.violate("transmitted-files-differ:" + family, "different files are transmitted for two arrangements", replay)
                    return
                for path in base[1]:
                    if cur[1][path] != base[1][path]:
                        replay["path"] = path
                        ctx.violate("compiled-content-depends-on-order:" + family, "compiled content of %s differs between two arrangements" % path, replay)
                        return
                ctx.stats["files_compared"] += len(base[1])
            else:
                ctx.stats["rejections_compared"] += 1
    finally:
        if not os.environ.get("VERIF_KEEP_SCRATCH"):
            shutil.rmtree(case_dir, ignore_errors=True)


def run_shard(ctx, spec):
    schema = wire.parse_schema(os.path.join(build.repo(), "slice", "Compiler"))
    root = os.path.join(ctx.tmpdir(), "s%s" % "_".join(map(str, spec[1:])))
    os.makedirs(root)
    if spec[0] == "collisions":
        _, idx, n = spec
        for i, (name, texts) in enumerate(COLLISIONS):
            if i % n == idx:
                check_program(ctx, root, i, texts, "collision/" + name, schema)
                ctx.stats["collision_families"] += 1
    elif spec[0] == "duplicates":
        # the same file listed more than once, adjacent or not, among sources or references: every arrangement is accepted alike,
        # transmits the same files and reports the same DuplicateFile warnings
        picks = [("reopened-modules", (0,)), ("reopened-modules", (1, 1)), ("cross-file-aliases", (1,)), ("deprecated-across-files", (0, 2)),
                 ("cross-file-bases", (2,)), ("shadowing-across-files", (0,))]
        table = dict(COLLISIONS)
        for i, (name, dups) in enumerate(picks):
            check_program(ctx, root, 1000 + i, table[name], "duplicates/" + name, schema, dups=dups)
            ctx.stats["duplicate_listing_families"] += 1
    else:
        _, count, idx = spec
        rng = ctx.rng("gen/%d" % idx)
        for n in range(count):
            prng = random.Random(rng.random())
            prog = gen.valid_program(prng, max_files=4, max_defs=4, deprecated=(n % 2 == 0))
            while len(prog.files) < 2:
                prog = gen.valid_program(prng, max_files=4, max_defs=4, deprecated=(n % 2 == 0))
            gen.add_comments(prog, prng, 0.3)
            texts = printer.print_program(prog)
            if n % 3 == 2:
                j = rng.randrange(len(texts))
                texts[j] = texts[j] + rng.choice(INJECT)
                check_program(ctx, root, n, texts, "generated-with-error", schema)
            else:
                check_program(ctx, root, n, texts, "generated-valid", schema, valid_expected=True)
            if n == 0:
                ctx.sample({"family": "generated", "files": texts}, limit=1)


def plan(tier, seed):
    n = 400 if tier == "quick" else 10000
    return [("collisions", i, 8) for i in range(8)] + [("generated", n // 16, i) for i in range(16)] + [("duplicates", 0)]


def main(tier, seed):
    paths = build.build("release", ("slicec", "vh"))
    run = core.run_shards(__name__, PROP, tier, seed, paths, plan(tier, seed))
    return core.finish(
        run, "exploration",
        rule=("case = one multi-file program (generated valid, generated with one injected error, or one of %d hand-written collision "
              "families); 3 identical runs in fresh processes compared byte-wise (stdout, stderr, captured request), then up to %d "
              "(permutation, source/reference assignment) pairs compared with the all-sources run: acceptance, per-file decoded "
              "request content, multiset of warnings (JSON diagnostics). distinct_nontrivial = distinct programs"
              % (len(COLLISIONS), 16 if tier == "quick" else 60)),
        required={"programs": 60, "repeat_runs": 100, "permuted_runs": 400, "accepted_programs": 20, "rejected_programs": 10,
                  "files_compared": 200, "collision_families": len(COLLISIONS)},
        assumptions=["hash-order dependence is detected with high probability only (each process has fresh RandomState keys)",
                     "'twice' is decided on 3 runs"],
    )
