"""C16 - doc comments keep their text, tags and links.

Model-generated comments (overview lines with varied, also non-ASCII, indentation; blank lines; inline links at line start,
middle and end; block tags with inline and continuation messages) in every commentable position; link targets of every kind
and scope distance; a defect catalogue of malformed comments. Observation points: Commentable::comment() of every entity as
dumped by the library worker (overview, params, returns, see, linked entities) and the lint diagnostics with their levels.
"""
import json
import random

from .. import build, core
from ..slicegen import gen, printer, resolve
from ..slicegen.model import (Alias, Comment, Custom, Enum, Enumerator, Field, Interface, Operation, Param, Struct, children)

PROP = "C16"
WS = [" ", " ", " ", "\t", " ", "　", " "]
WORDS = gen.WORDS + ["@mid", "a@b", "}", "{", "{ @", "::", ":", "x: y", "@", "tab\tin"]


def norm(components):
    """Merges adjacent text components: [("t", str) | ("l", target)]."""
    out = []
    for c in components:
        if c[0] == "t" and out and out[-1][0] == "t":
            out[-1] = ("t", out[-1][1] + c[1])
        elif c[0] == "t" and c[1] == "":
            continue
        else:
            out.append(c)
    return out


def dumped_message(m):
    comps = []
    for c in m["value"]:
        if "text" in c:
            comps.append(("t", c["text"].replace("\r", "")))
        elif "patched" in c["link"]:
            comps.append(("l", c["link"]["patched"]["psid"]))
        else:
            comps.append(("l", ("unbound", c["link"]["unpatched"]["value"])))
    return norm(comps)


class LineGen:
    def __init__(self, rng, table, entity, targets):
        self.rng, self.table, self.entity, self.targets = rng, table, entity, targets

    def content(self, allow_link_first=True):
        """Returns (rendered text, components). Never starts or ends with white space; never starts with '@'."""
        rng = self.rng
        parts = []
        comps = []
        n = rng.randint(1, 4)
        for i in range(n):
            if self.targets and rng.random() < 0.3 and (allow_link_first or parts):
                link = gen.link_to(rng, self.table, self.entity, rng.choice(self.targets))
                if link is not None:
                    inner = rng.choice(["{@link %s}", "{@link  %s }", "{ @link %s}", "{@link %s }"]) % link.spelling
                    if parts:
                        parts.append(" ")
                        comps.append(("t", " "))
                    parts.append(inner)
                    comps.append(("l", link.target.scoped()))
                    continue
            w = " ".join(rng.choice(WORDS) for _ in range(rng.randint(1, 3)))
            w = w.strip()
            if not parts:
                while w.startswith("@") or w.startswith("{ @") or not w:
                    w = rng.choice(gen.WORDS)
            # a '{' followed (after blanks) by '@' would start an inline tag: keep such text out of well-formed comments
            w = w.replace("{ @", "{ a").replace("{@", "{a")
            if parts:
                w = " " + w
            parts.append(w)
            comps.append(("t", w))
        text = "".join(parts)
        import re
        if re.search(r"\{\s*@(?!link )", text) or re.search(r"\{\s*@link\s*\}", text):
            return self.content(allow_link_first)
        # text pieces may not create an accidental inline tag across pieces
        if re.search(r"\{\s+\{@link", text):
            return self.content(allow_link_first)
        return text.rstrip(), norm([(k, v.rstrip() if (k == "t" and j == len(comps) - 1) else v) for j, (k, v) in enumerate(comps)])


def make_comment(rng, table, e, targets, allow_blank=True):
    """Returns (raw lines, expected dict). allow_blank=False: no empty comment lines (under CRLF an empty line is a line made of
    a carriage return, i.e. white space only, which the statement leaves open)."""
    lg = LineGen(rng, table, e, targets)
    ws = rng.choice(WS)
    base = ws * rng.choice([0, 1, 1, 1, 2, 3])
    lines = []
    exp = {"overview": None, "params": [], "returns": [], "see": []}
    # overview
    nover = rng.choice([0, 1, 1, 2, 3, 4, 6])
    rows = []
    for i in range(nover):
        if allow_blank and 0 < i < nover - 1 and rng.random() < 0.2:
            rows.append(None)
        else:
            extra = rng.choice([0, 0, 0, 1, 2])
            text, comps = lg.content()
            rows.append((extra, text, comps))
    if rows:
        nonblank = [r for r in rows if r is not None]
        common = min(len(base) + r[0] for r in nonblank)
        comps = []
        for r in rows:
            if r is None:
                lines.append("")
                comps.append(("t", "\n"))
            else:
                lines.append(base + ws * r[0] + r[1])
                lead = ws * (len(base) + r[0] - common)
                comps += [("t", lead)] + r[2] + [("t", "\n")]
        exp["overview"] = norm(comps)

    def section(prefix):
        """prefix: '@param x' / '@returns' / '@returns x'. Returns expected message."""
        comps = []
        style = rng.random()
        tag_indent = base if rng.random() < 0.8 else base + ws
        if style < 0.75:
            text, c = lg.content()
            pad = rng.choice(["", " ", " ", "   "])
            if text.startswith(":"):
                pad = " "       # ':::' would be read as a scope separator
            lines.append(tag_indent + prefix + ":" + pad + text)
            comps += c + [("t", "\n")]
        elif style < 0.9 and allow_blank:
            lines.append(tag_indent + prefix + ":")     # (not under CRLF: the carriage return would be an inline message)
        else:
            lines.append(tag_indent + prefix)
        ncont = rng.choice([0, 0, 1, 2, 3])
        if style >= 0.75 and ncont == 0:
            ncont = 1
        cont = []
        for j in range(ncont):
            if allow_blank and 0 < j < ncont - 1 and rng.random() < 0.2:
                cont.append(None)
            else:
                text, c = lg.content()
                cont.append((rng.choice([0, 1, 2, 4]), text, c))
        nonblank = [x for x in cont if x is not None]
        if nonblank:
            common = min(len(base) + x[0] for x in nonblank)
            for x in cont:
                if x is None:
                    lines.append("")
                    comps.append(("t", "\n"))
                else:
                    lines.append(base + ws * x[0] + x[1])
                    comps += [("t", ws * (len(base) + x[0] - common))] + x[2] + [("t", "\n")]
        return norm(comps)

    tags = []
    if isinstance(e, Operation):
        names = [p.id for p in e.params]
        rng.shuffle(names)
        for n in names[:rng.randint(0, len(names))]:
            tags.append(("param", n))
        if e.returns and rng.random() < 0.7:
            if e.return_tuple:
                rn = [p.id for p in e.returns]
                rng.shuffle(rn)
                for n in rn[:rng.randint(1, len(rn))]:
                    tags.append(("returns", n))
            else:
                tags.append(("returns", None))
    for _ in range(rng.choice([0, 0, 1, 2])):
        tags.append(("see", None))
    rng.shuffle(tags)
    for kind, name in tags:
        if kind == "param":
            exp["params"].append((name, section("@param " + name)))
        elif kind == "returns":
            exp["returns"].append((name, section("@returns" + (" " + name if name else ""))))
        else:
            link = gen.link_to(rng, table, e, rng.choice(targets))
            if link is None:
                continue
            lines.append(base + "@see " + link.spelling + rng.choice(["", " ", "  "]))
            exp["see"].append(link.target.scoped())
            if allow_blank and rng.random() < 0.3:
                # empty lines after a see tag - a separator before the next tag, or the end of the comment - change nothing
                lines.extend([""] * rng.choice([1, 1, 2]))
    if not lines:
        text, c = lg.content()
        lines.append(base + text)
        exp["overview"] = norm([("t", "")] + c + [("t", "\n")])
    return lines, exp


def entities_of(prog):
    out = []

    def walk(e):
        if not isinstance(e, Param):
            out.append(e)
        for c in children(e):
            walk(c)
    for f in prog.files:
        for d in f.defs:
            walk(d)
    return out


def find_dump(files, psid, kind):
    kinds = {"struct": "struct", "field": "field", "interface": "interface", "operation": "operation", "enum": "enum",
             "enumerator": "enumerator", "custom": "custom", "alias": "alias"}

    def walk(d):
        if d.get("psid") == psid and d.get("kind") == kinds[kind]:
            return d
        for key in ("fields", "operations", "enumerators"):
            for m in d.get(key) or []:
                r = walk(m)
                if r:
                    return r
        return None
    for f in files:
        for d in f["contents"]:
            r = walk(d)
            if r:
                return r
    return None


def compare_comment(ctx, e, exp, d, replay):
    what = "%s %s" % (e.kind, e.scoped())
    c = d.get("comment")
    ctx.stats["comments_compared"] += 1
    rep = dict(replay)
    rep["entity"] = what
    if c is None:
        ctx.violate("comment-lost:" + e.kind, "%s: well-formed doc comment is absent from the AST" % what, rep)
        return False
    got_over = dumped_message(c["overview"]) if c["overview"] else None
    if got_over != exp["overview"]:
        rep["expected"], rep["observed"] = exp["overview"], got_over
        kind = "links" if got_over and exp["overview"] and [x for x in got_over if x[0] == "l"] != [x for x in exp["overview"] if x[0] == "l"] else "text"
        ctx.violate("overview-%s-differs:%s" % (kind, e.kind), "%s: overview %r, written %r" % (what, _s(got_over), _s(exp["overview"])), rep)
        return False
    got_params = [(p["id"]["value"], dumped_message(p["message"])) for p in c["params"]]
    if got_params != exp["params"]:
        rep["expected"], rep["observed"] = exp["params"], got_params
        sig = "param-identifiers" if [p[0] for p in got_params] != [p[0] for p in exp["params"]] else "param-message"
        ctx.violate("%s-differ" % sig, "%s: @param tags %r, written %r" % (what, _s(got_params), _s(exp["params"])), rep)
        return False
    got_returns = [((p["id"] or {}).get("value"), dumped_message(p["message"])) for p in c["returns"]]
    if got_returns != exp["returns"]:
        rep["expected"], rep["observed"] = exp["returns"], got_returns
        sig = "returns-identifiers" if [p[0] for p in got_returns] != [p[0] for p in exp["returns"]] else "returns-message"
        ctx.violate("%s-differ" % sig, "%s: @returns tags %r, written %r" % (what, _s(got_returns), _s(exp["returns"])), rep)
        return False
    got_see = [s["link"]["patched"]["psid"] if "patched" in s["link"] else ("unbound", s["link"]["unpatched"]["value"]) for s in c["see"]]
    if got_see != exp["see"]:
        rep["expected"], rep["observed"] = exp["see"], got_see
        ctx.violate("see-targets-differ", "%s: @see targets %r, written %r" % (what, got_see, exp["see"]), rep)
        return False
    ctx.stats["links_bound"] += sum(1 for x in (exp["overview"] or []) if x[0] == "l") + len(exp["see"])
    return True


def _s(x):
    s = repr(x)
    return s if len(s) < 300 else s[:300] + "..."


def run_valid(ctx, spec):
    _, count, idx = spec
    rng = ctx.rng("valid/%d" % idx)
    for n in range(count):
        prng = random.Random(rng.random())
        prog = gen.valid_program(prng, max_files=3, max_defs=5)
        table = prog.table()
        ents = entities_of(prog)
        if not ents:
            continue
        expected = {}
        style = rng.choice(["plain", "plain", "random", "crlf", "tabs", "dense"])
        for e in ents:
            if prng.random() < 0.6:
                lines, exp = make_comment(prng, table, e, ents, allow_blank=(style != "crlf"))
                c = Comment()
                c.raw_lines = lines
                e.comment = c
                expected[e] = exp
        texts = printer.print_program(prog, [printer.Layout(random.Random(rng.random()), style) for _ in prog.files])
        r = ctx.worker.request({"op": "compile", "files": texts, "want": ["ast", "diags"]})
        ctx.note_case(("valid", tuple(texts)))
        replay = {"kind": "library", "call": "compile_from_strings", "files": texts, "layout": style, "family": "well-formed"}
        if "died" in r or r.get("panic"):
            p = r.get("panic") or {"message": "worker " + r["died"], "location": "?"}
            ctx.violate(core.panic_signature(p), "comment parsing crashed: %s" % p, replay)
            continue
        if r["diags"]:
            d = r["diags"][0]
            replay["diagnostics"] = [(x["code"], x["message"], x["span"]) for x in r["diags"][:4]]
            ctx.violate("diagnostic-on-well-formed-comment:" + d["code"], "well-formed comments produced %s: %s" % (d["code"], d["message"]), replay)
            continue
        ctx.stats["programs"] += 1
        for e, exp in expected.items():
            d = find_dump(r["files"], e.scoped(), e.kind)
            if d is None:
                ctx.violate("documented-element-missing", "%s %s is missing from the AST" % (e.kind, e.scoped()), replay)
                break
            if not compare_comment(ctx, e, exp, d, replay):
                break
        if n == 0:
            ctx.sample({"family": "well-formed", "files": texts}, limit=1)


# ---------------------------------------------------------------------------------------------------------------
# defect catalogue

DEFECTS = [
    ("unknown-tag", ["/// text", "/// @foo bar"], {"MalformedDocComment"}),
    ("at-alone", ["/// @"], {"MalformedDocComment"}),
    ("at-space-tag", ["/// @ see X"], {"MalformedDocComment"}),
    ("missing-brace", ["/// see {@link Host"], {"MalformedDocComment"}),
    ("missing-brace-then-text", ["/// see {@link Host and more", "/// next line"], {"MalformedDocComment"}),
    ("inline-param", ["/// text {@param x} more"], {"MalformedDocComment"}),
    ("inline-see", ["/// {@see Host}"], {"MalformedDocComment"}),
    ("block-link", ["/// @link Host"], {"MalformedDocComment"}),
    ("stray-symbol-in-tag", ["/// @param ( x: y"], {"MalformedDocComment"}),
    ("stray-symbol-in-see", ["/// @see Host!"], {"MalformedDocComment"}),
    ("see-with-message", ["/// @see Host: because"], {"MalformedDocComment"}),
    ("param-without-identifier", ["/// @param : x"], {"MalformedDocComment"}),
    ("link-without-target", ["/// {@link }"], {"MalformedDocComment"}),
    ("link-two-targets", ["/// {@link Host Host}"], {"MalformedDocComment"}),
    ("unknown-inline-tag", ["/// {@bold x}"], {"MalformedDocComment"}),
    ("param-on-non-operation", ["/// @param x: nothing"], {"IncorrectDocComment"}),
    ("returns-on-non-operation", ["/// @returns: nothing"], {"IncorrectDocComment"}),
    ("unresolvable-link", ["/// {@link NoSuchThing}"], {"BrokenDocLink"}),
    ("unresolvable-see", ["/// @see No::Such::Thing"], {"BrokenDocLink"}),
    ("link-to-primitive", ["/// {@link \\bool}"], {"BrokenDocLink", "MalformedDocComment"}),
    ("link-to-module", ["/// {@link M}"], {"BrokenDocLink"}),
    ("global-missing", ["/// {@link ::Host}"], {"BrokenDocLink"}),
]
OP_DEFECTS = [
    ("unknown-parameter", ["/// @param nope: x"], {"IncorrectDocComment"}),
    ("returns-on-void", ["/// @returns: x"], {"IncorrectDocComment"}, "void"),
    ("named-returns-on-single", ["/// @returns r: x"], {"IncorrectDocComment"}, "single"),
    ("unknown-return-member", ["/// @returns nope: x"], {"IncorrectDocComment"}, "tuple"),
    ("link-to-parameter", ["/// {@link hostop::p}"], {"BrokenDocLink"}),
]

POSITIONS = {
    # the siblings before and after the defective comment carry well-formed comments of their own, which must survive
    "struct": "module M\n/// doc of Before\nstruct Before {{}}\n{doc}struct Host {{ a: bool }}\n/// doc of After, see {{@link Host}}\n/// @see Before\nstruct After {{}}\n",
    "field": "module M\nstruct Host {{\n/// doc of before\nbefore: bool,\n{doc}a: bool,\n/// doc of after {{@link Host::before}}\nafter: bool }}\n/// doc of Later\ncustom Later\n",
    "interface": "module M\n/// doc of Before\ncustom Before\n{doc}interface Host {{\n/// doc of op\nop() }}\n/// doc of After\ncustom After\n",
    "operation": "module M\ninterface Host {{\n/// doc of before\nbefore()\n{doc}hostop(p: bool)\n/// doc of after\n/// @param q: the q {{@link Host}}\nafter(q: bool) }}\n/// doc of Later\nstruct Later {{}}\n",
    "enum": "module M\n{doc}enum Host {{\n/// doc of A\nA }}\n/// doc of After\nstruct After {{}}\n",
    "enumerator": "module M\nenum Host {{\n/// doc of Before\nBefore,\n{doc}A,\n/// doc of After\nAfter }}\n/// doc of Later\ncustom Later\n",
    "custom": "module M\n{doc}custom Host\n/// doc of After\ncustom After\n",
    "alias": "module M\n/// doc of Before\ncustom Before\n{doc}typealias Host = bool\n/// doc of After\ncustom After\n",
    "enumerator-field": "module M\nenum Host {{ X(\n/// doc of before\nbefore: bool,\n{doc}a: bool,\n/// doc of after\nafter: bool) }}\n/// doc of Later\ncustom Later\n",
}
TARGET = {"struct": "M::Host", "field": "M::Host::a", "interface": "M::Host", "operation": "M::Host::hostop", "enum": "M::Host",
          "enumerator": "M::Host::A", "custom": "M::Host", "alias": "M::Host", "enumerator-field": "M::Host::X::a"}


def comments_of(files, skip):
    """{scoped identifier: comment without locations} of every element but the one that carries the defective comment."""
    out = {}

    def walk(d):
        if isinstance(d, dict):
            if "psid" in d and "comment" in d and d["psid"] != skip:
                out[d["psid"] + "/" + d.get("kind", "?")] = strip_spans_only(d["comment"])
            for v in d.values():
                walk(v)
        elif isinstance(d, list):
            for v in d:
                walk(v)
    walk(files)
    return out


def strip_spans_only(x):
    if isinstance(x, dict):
        return {k: strip_spans_only(v) for k, v in x.items() if k not in ("span", "id_span", "at", "value_span", "other")}
    if isinstance(x, list):
        return [strip_spans_only(v) for v in x]
    return x


OP_SHAPES = {"void": "hostop(p: bool)", "single": "hostop(p: bool) -> bool", "tuple": "hostop(p: bool) -> (a: bool, b: bool)"}

SPAN_KEYS = {"span", "id_span", "at", "value_span", "other", "comment"}


def strip(x):
    if isinstance(x, dict):
        return {k: strip(v) for k, v in x.items() if k not in SPAN_KEYS}
    if isinstance(x, list):
        return [strip(v) for v in x]
    return x


def run_defects(ctx, spec):
    cases = []
    for name, lines, lints in DEFECTS:
        for pos, tpl in POSITIONS.items():
            if name in ("param-on-non-operation", "returns-on-non-operation") and pos == "operation":
                continue
            if name == "param-on-non-operation" and pos == "enumerator":
                continue   # the implementation lets enumerators document their fields with @param; the statement is silent
            cases.append((name, pos, tpl.format(doc="\n".join(lines) + "\n"), tpl.format(doc=""), lints))
    for d in OP_DEFECTS:
        name, lines, lints = d[0], d[1], d[2]
        shapes = [d[3]] if len(d) > 3 else list(OP_SHAPES)
        for sh in shapes:
            tpl = POSITIONS["operation"].replace("hostop(p: bool)", OP_SHAPES[sh])
            cases.append((name, "operation-" + sh, tpl.format(doc="\n".join(lines) + "\n"), tpl.format(doc=""), lints))
    reqs = []
    for c in cases:
        reqs.append({"op": "compile", "files": [c[2]], "want": ["ast", "diags"]})
        reqs.append({"op": "compile", "files": [c[3]], "want": ["ast", "diags"]})
    resps = ctx.worker.batch(reqs)
    for i, (name, pos, text, plain, lints) in enumerate(cases):
        r, rp = resps[2 * i], resps[2 * i + 1]
        ctx.note_case(("defect", name, pos))
        ctx.stats["defect_cases"] += 1
        replay = {"kind": "library", "call": "compile_from_strings", "files": [text], "defect": name, "position": pos, "expected_lints": sorted(lints)}
        if "died" in r or r.get("panic"):
            p = r.get("panic") or {"message": "worker " + r["died"], "location": "?"}
            ctx.violate(core.panic_signature(p), "defective comment crashed the compiler: %s" % p, replay)
            continue
        errs = [d for d in r["diags"] if d["level"] == "error"]
        warns = [d for d in r["diags"] if d["level"] == "warning"]
        replay["observed"] = [(d["code"], d["level"], d["message"]) for d in r["diags"]]
        if errs:
            ctx.violate("comment-defect-is-an-error:" + name, "defect '%s' on %s produced error %s" % (name, pos, errs[0]["code"]), replay)
            continue
        if not warns:
            ctx.violate("comment-defect-not-reported:" + name, "defect '%s' on %s produced no warning" % (name, pos), replay)
            continue
        if not any(w["code"] in lints for w in warns):
            ctx.violate("comment-defect-wrong-lint:" + name, "defect '%s' on %s: warnings %s, expected one of %s"
                        % (name, pos, [w["code"] for w in warns], sorted(lints)), replay)
            continue
        if json.dumps(strip(r["files"]), sort_keys=True) != json.dumps(strip(rp["files"]), sort_keys=True):
            ctx.violate("comment-defect-costs-elements:" + name, "defect '%s' on %s changes the element or its siblings (comment apart)" % (name, pos), replay)
            continue
        # the doc comments of every other element - before and after the defective one - are what they are without it
        target = TARGET[pos.split("-")[0] if pos.startswith("operation-") else pos]
        ca, cb = comments_of(r["files"], target), comments_of(rp["files"], target)
        ctx.stats["sibling_comments_compared"] += len(cb)
        if ca != cb:
            lost = sorted(k for k in cb if ca.get(k) != cb[k])
            replay["comments_changed"] = lost[:5]
            ctx.violate("comment-defect-costs-other-comments:" + name, "defect '%s' on %s changes the doc comments of other elements: %s"
                        % (name, pos, lost[:4]), replay)
            continue
    ctx.sample({"family": "defects", "example": cases[3][2]}, limit=1)


def run_scope(ctx, spec):
    """Link targets of every kind and scope distance, resolved by the reference scope search from the documented element."""
    files = [
        "module A\nstruct S { f: bool, g: bool }\nenum E { X, Y(yf: bool) }\ninterface I { op(p: bool) -> (r: bool, s: bool) other() }\ncustom C\ntypealias T = bool\n",
        "module A::B\nstruct S { f: bool, h: bool }\nstruct Only { o: bool }\ninterface J { jop() }\n",
        "module Z\nstruct S { z: bool }\nenum Q { f }\n",
    ]
    from ..slicegen.model import File, Program, TypeExpr
    b = TypeExpr("prim", "bool")
    progs = Program([
        File("A", [Struct("S", [Field("f", b.clone()), Field("g", b.clone())]), Enum("E", [Enumerator("X"), Enumerator("Y", None, [Field("yf", b.clone())])]),
                   Interface("I", [Operation("op", [Param("p", b.clone())], [Param("r", b.clone()), Param("s", b.clone())], True), Operation("other")]),
                   Custom("C"), Alias("T", b.clone())]),
        File("A::B", [Struct("S", [Field("f", b.clone()), Field("h", b.clone())]), Struct("Only", [Field("o", b.clone())]), Interface("J", [Operation("jop")])]),
        File("Z", [Struct("S", [Field("z", b.clone())]), Enum("Q", [Enumerator("f")])]),
    ])
    table = progs.table()
    spellings = ["S", "f", "g", "h", "S::f", "S::g", "S::h", "B::S", "A::S", "::A::S", "::A::B::S::h", "A::B::S::f", "E::X", "E::Y::yf", "yf",
                 "I::op", "op", "I::op::p", "p", "r", "C", "T", "Only", "Only::o", "J::jop", "Z::S", "::Z::S::z", "Z::Q::f", "Q", "A", "B", "A::B",
                 "Nope", "::S", "::f", "X", "Y", "other", "jop", "bool", "A::E", "::A::E::Y", "S::Nope", "z"]
    hosts = [e for e in entities_of(progs)]
    cases = []
    for host in hosts:
        for sp in spellings:
            if sp == "bool":
                continue
            # reference: outward search starting at the documented element's own scoped name
            target = resolve.lookup(table, sp, host.scoped())
            linkable = target is not None and not isinstance(target, (tuple, Param))
            cases.append((host, sp, target if linkable else None, target))
    reqs = []
    meta = []
    for host, sp, want, raw in cases:
        c1 = Comment()
        c1.raw_lines = [" see {@link %s} here" % sp, " @see %s" % sp]
        saved = host.comment
        host.comment = c1
        texts = printer.print_program(progs)
        host.comment = saved
        reqs.append({"op": "compile", "files": texts, "want": ["ast", "diags"]})
        meta.append(texts)
    for k in range(0, len(reqs), 300):
        resps = ctx.worker.batch(reqs[k:k + 300])
        for (host, sp, want, raw), texts, r in zip(cases[k:k + 300], meta[k:k + 300], resps):
            ctx.note_case(("scope", host.scoped(), sp))
            ctx.stats["scope_cases"] += 1
            replay = {"kind": "library", "call": "compile_from_strings", "files": texts, "documented": host.scoped(), "link": sp,
                      "reference": want.scoped() if want is not None else ("not linkable" if raw is not None else "nothing")}
            if "died" in r or r.get("panic"):
                p = r.get("panic") or {"message": "worker " + r["died"], "location": "?"}
                ctx.violate(core.panic_signature(p), "crashed: %s" % p, replay)
                continue
            d = find_dump(r["files"], host.scoped(), host.kind)
            errs = [x for x in r["diags"] if x["level"] == "error"]
            if errs:
                ctx.violate("link-produces-error", "link %r on %s produced error %s" % (sp, host.scoped(), errs[0]["code"]), replay)
                continue
            c = d.get("comment") if d else None
            if c is None:
                ctx.violate("comment-lost:scope", "comment with link %r on %s vanished" % (sp, host.scoped()), replay)
                continue
            links = [x for x in dumped_message(c["overview"]) if x[0] == "l"] + [("l", s["link"]["patched"]["psid"] if "patched" in s["link"] else ("unbound", s["link"]["unpatched"]["value"])) for s in c["see"]]
            broken = [x for x in r["diags"] if x["code"] == "BrokenDocLink"]
            replay["observed"] = links
            if want is not None:
                ctx.stats["links_expected_bound"] += 1
                if links != [("l", want.scoped())] * 2:
                    ctx.violate("link-bound-to-wrong-entity", "{@link %s} / @see on %s: bound to %r, the scope search designates %s"
                                % (sp, host.scoped(), links, want.scoped()), replay)
                elif broken:
                    ctx.violate("resolvable-link-reported-broken", "link %r resolves but BrokenDocLink was reported" % sp, replay)
            else:
                ctx.stats["links_expected_unbound"] += 1
                if any(not isinstance(x[1], tuple) for x in links):
                    ctx.violate("unlinkable-target-bound", "{@link %s} on %s designates %s but was bound: %r"
                                % (sp, host.scoped(), "nothing" if raw is None else "a module/parameter", links), replay)
                elif len(broken) != 2:
                    ctx.violate("broken-link-not-reported", "link %r on %s designates nothing linkable: %d BrokenDocLink warnings (2 expected)"
                                % (sp, host.scoped(), len(broken)), replay)


def run_shard(ctx, spec):
    {"valid": run_valid, "defects": run_defects, "scope": run_scope}[spec[0]](ctx, spec)


def plan(tier, seed):
    n = 15000 if tier == "quick" else 600000
    return [("valid", n // 16, i) for i in range(16)] + [("defects",), ("scope",)]


def main(tier, seed):
    paths = build.build("release", ("vh",))
    run = core.run_shards(__name__, PROP, tier, seed, paths, plan(tier, seed))
    return core.finish(
        run, "exploration",
        rule=("well-formed family: generated programs in which ~60%% of the commentable entities (struct, field, interface, "
              "operation, enum, enumerator, enumerator field, custom, alias) carry a generated comment: 0-6 overview lines with base "
              "indentation of 0-3 characters from {space, tab, U+00A0, U+3000} plus ragged extra indentation, blank lines, inline "
              "links at start / middle / end (with inner blanks), @param / @returns / @see tags in any order with inline and "
              "continuation messages; every comment in the AST dump is compared with what was written. Scope family: every "
              "(documented element, link spelling) pair of a 3-file program vs the reference scope search. Defect catalogue: %d "
              "defects x 9 positions + operation-specific ones. distinct_nontrivial = distinct programs / (defect, position) / "
              "(element, spelling)" % len(DEFECTS)),
        required={"programs": 500, "comments_compared": 2000, "links_bound": 500, "defect_cases": 150, "scope_cases": 500,
                  "links_expected_bound": 100, "links_expected_unbound": 100},
        assumptions=["indentation is uniform within one comment (one white-space character repeated); mixed characters are exercised "
                     "for crashes by C01 only, since 'common indentation' is ambiguous for them",
                     "lines consisting only of white space are not generated", "a trailing CR of a CRLF layout is ignored",
                     "continuation lines of a tag are de-indented by their own common indentation; the inline part is left-trimmed",
                     "adjacent text components are merged before comparison"],
    )
