"""C17 - each input file is compiled exactly once: sources first, in the order given.

Workload: random directory trees with .slice and other files, odd extensions, directories named like files, symbolic
links to files / directories / parents / nothing, FIFOs, invalid UTF-8; argument lists that alias files through '.', '..',
'//', absolute paths and links, in both lists. Reference: this module (os.path.realpath + own walk).
Observation: CompilationState.files from compile_from_options (library worker), E001 / DuplicateFile diagnostics, the AST
node histogram ("nothing is parsed"), and for a sample the paths inside the request captured from the real binary.
"""
import json
import os
import random
import shutil

from .. import build, core, wire

PROP = "C17"


class Tree:
    def __init__(self, root, rng):
        self.root = root
        self.rng = rng
        self.files = []         # relative paths of regular files
        self.dirs = ["."]
        self.links = []         # (relative path, target)
        self.n = 0
        self.invalid = set()

    def content(self):
        self.n += 1
        return "module F%d\nstruct S%d { a: int32 }\n" % (self.n, self.n)

    def build(self):
        rng = self.rng
        names = ["a", "b", "é", "x y", "d.slice", "deep", "..d", "Q"]
        for _ in range(rng.randint(1, 6)):
            parent = rng.choice(self.dirs)
            if parent.count("/") >= 3:
                continue
            d = os.path.normpath(os.path.join(parent, rng.choice(names) + str(rng.randrange(3))))
            if d not in self.dirs:
                os.makedirs(os.path.join(self.root, d), exist_ok=True)
                self.dirs.append(d)
        fnames = ["m.slice", "n.slice", "é.slice", "x y.slice", "a.b.slice", ".h.slice", "UP.SLICE", "t.slice.bak", "readme.txt",
                  "noext", ".slice", "s.slicee", "q.Slice", "z.slice"]
        for _ in range(rng.randint(2, 14)):
            d = rng.choice(self.dirs)
            rel = os.path.normpath(os.path.join(d, rng.choice(fnames)))
            if rel in self.files or os.path.exists(os.path.join(self.root, rel)):
                continue
            if rng.random() < 0.05 and rel.endswith(".slice"):
                with open(os.path.join(self.root, rel), "wb") as f:
                    f.write(b"module Bad\xff\xfe\n")
                self.invalid.add(rel)
            else:
                with open(os.path.join(self.root, rel), "w") as f:
                    f.write(self.content())
            self.files.append(rel)
        # links
        for _ in range(rng.randint(0, 5)):
            d = rng.choice(self.dirs)
            kind = rng.random()
            name = rng.choice(["l%d.slice", "lnk%d", "ld%d.slice", "k%d.txt"]) % rng.randrange(9)
            rel = os.path.normpath(os.path.join(d, name))
            if os.path.lexists(os.path.join(self.root, rel)):
                continue
            if kind < 0.4 and self.files:
                target = rng.choice(self.files)
            elif kind < 0.7:
                target = rng.choice(self.dirs)
            elif kind < 0.8:
                target = ".."          # relative to the link's directory: a loop
                os.symlink(target, os.path.join(self.root, rel))
                self.links.append((rel, "<parent>"))
                continue
            else:
                target = "nowhere/nothing.slice"
            t_abs = os.path.join(self.root, target)
            if rng.random() < 0.5:
                os.symlink(t_abs, os.path.join(self.root, rel))
            else:
                os.symlink(os.path.relpath(t_abs, os.path.dirname(os.path.join(self.root, rel))), os.path.join(self.root, rel))
            self.links.append((rel, target))
        if rng.random() < 0.3:
            d = rng.choice(self.dirs)
            p = os.path.join(self.root, d, "pipe.slice")
            if not os.path.lexists(p):
                os.mkfifo(p)


def is_slice_name(path):
    base = os.path.basename(path)
    if base.startswith(".") and base.count(".") == 1:
        return False     # ".slice": no extension
    return "." in base and base.rsplit(".", 1)[1] == "slice" and base.rsplit(".", 1)[0] != ""


def walk_reference_dir(path, visited=None):
    """Reference recursion: yields candidate file paths (as spelled from `path`) of regular *.slice files; follows links,
    entering each directory (identified by its real path) once. Returns (list of paths, hit_dir_symlink)."""
    out = []
    saw_dirlink = False
    visited = set() if visited is None else visited
    real = os.path.realpath(path)
    if real in visited:
        return out, saw_dirlink
    visited.add(real)
    try:
        entries = sorted(os.listdir(path))
    except OSError:
        return out, saw_dirlink
    for e in entries:
        p = os.path.join(path, e)
        try:
            if os.path.isdir(p):
                if os.path.islink(p):
                    saw_dirlink = True
                sub, s2 = walk_reference_dir(p, visited)
                out += sub
                saw_dirlink |= s2
            elif os.path.isfile(p) and is_slice_name(p):
                out.append(p)
        except OSError:
            continue
    return out, saw_dirlink


def reference_fileset(cwd, sources, references):
    """Returns dict(io_errors=int>=, files=[(realpath, is_source, listed_spelling|None)], dup_min=int, dup_exact=bool)."""
    io_errors = 0
    seen = {}
    order = []
    dup = 0
    exact = True

    def absolute(p):
        return os.path.join(cwd, p)

    listed_src = []
    for s in sources:
        a = absolute(s)
        if s == "" or not os.path.exists(a):
            io_errors += 1
        elif os.path.isdir(a):
            io_errors += 1
        elif os.path.isfile(a) and not is_slice_name(s):
            io_errors += 1
        elif os.path.isfile(a):
            listed_src.append(s)
        else:
            exact = False     # special file given explicitly: outside the statement
    src_real = []
    for s in listed_src:
        r = os.path.realpath(absolute(s))
        if r in src_real:
            dup += 1
        else:
            src_real.append(r)
            order.append((r, True, s))
    ref_found = []      # (realpath, spelling or None, slot)
    for slot, s in enumerate(references):
        a = absolute(s)
        if s == "" or not os.path.exists(a):
            io_errors += 1
        elif os.path.isdir(a):
            found, dirlink = walk_reference_dir(a)
            if dirlink:
                exact = False
            for f in found:
                ref_found.append((os.path.realpath(f), None, slot))
        elif os.path.isfile(a) and not is_slice_name(s):
            io_errors += 1
        elif os.path.isfile(a):
            ref_found.append((os.path.realpath(a), s, slot))
        else:
            exact = False
    ref_real = []
    for r, spelling, slot in ref_found:
        if r in [x[0] for x in ref_real]:
            dup += 1
        else:
            ref_real.append((r, spelling, slot))
    for r, spelling, slot in ref_real:
        if r not in src_real:
            order.append((r, False, spelling, slot))
    return {"io_errors": io_errors, "files": order, "dups": dup, "exact": exact}


def spell(rng, cwd, rel):
    """One of many spellings of the same path, relative to cwd."""
    r = rng.random()
    if r < 0.35:
        return rel
    if r < 0.5:
        return "./" + rel
    if r < 0.6:
        return os.path.join(cwd, rel)
    if r < 0.7:
        return rel.replace("/", "//", 1) if "/" in rel else ".//" + rel
    if r < 0.85:
        d = os.path.dirname(rel)
        return os.path.join(d, "..", os.path.basename(d), os.path.basename(rel)) if d else "../" + os.path.basename(cwd) + "/" + rel
    return os.path.join(os.path.dirname(rel) or ".", ".", os.path.basename(rel))


def run_permissions(ctx):
    """Entries that cannot be read / searched / examined, exercised as an unprivileged user (root ignores permission bits):
    each is reported as an I/O error naming a path at or below the inaccessible entry, the run fails, and the accessible
    control compiles. Skipped (counted, not failed) where `setpriv` cannot drop privileges."""
    import shutil
    import stat
    import subprocess
    drop = ["setpriv", "--reuid=65534", "--regid=65534", "--clear-groups"]
    if os.geteuid() != 0 or shutil.which("setpriv") is None or \
            subprocess.run(drop + ["true"], stdout=subprocess.DEVNULL, stderr=subprocess.DEVNULL).returncode != 0:
        ctx.stats["permission_cases_skipped"] += 1
        return
    base = ctx.tmpdir()
    # the scratch chain must be searchable by the unprivileged user; the binary is copied next to the cases
    d = base
    while d not in ("/", ""):
        try:
            os.chmod(d, os.stat(d).st_mode | 0o055)
        except OSError:
            pass
        d = os.path.dirname(d)
    binary = os.path.join(base, "slicec-copy")
    shutil.copy(ctx.paths["slicec"], binary)
    os.chmod(binary, 0o755)
    if subprocess.run(drop + [binary, "--version"], stdout=subprocess.DEVNULL, stderr=subprocess.DEVNULL).returncode != 0:
        ctx.stats["permission_cases_skipped"] += 1
        return
    good = "module R\nstruct Fine { a: bool }\n"
    cases = {
        # name: (build function, argv, path prefix that an E001 must name, or None for the control)
        "control": (lambda r: None, ["ok.slice", "-R", "refs"], None),
        "unsearchable-reference-directory": (lambda r: os.chmod(os.path.join(r, "refs"), 0o644), ["ok.slice", "-R", "refs"], "refs"),
        "unreadable-reference-subdirectory": (lambda r: os.chmod(os.path.join(r, "refs", "sub"), 0o311), ["ok.slice", "-R", "refs"], "refs/sub"),
        "unsearchable-reference-subdirectory": (lambda r: os.chmod(os.path.join(r, "refs", "sub"), 0o644), ["ok.slice", "-R", "refs"], "refs/sub"),
        "unreadable-reference-file": (lambda r: os.chmod(os.path.join(r, "refs", "r.slice"), 0o000), ["ok.slice", "-R", "refs"], "refs/r.slice"),
        "unreadable-reference-file-listed": (lambda r: os.chmod(os.path.join(r, "refs", "r.slice"), 0o000), ["ok.slice", "-R", "refs/r.slice"], "refs/r.slice"),
        "unreadable-source-file": (lambda r: os.chmod(os.path.join(r, "ok.slice"), 0o000), ["ok.slice", "-R", "refs"], "ok.slice"),
        "unreadable-reference-directory": (lambda r: os.chmod(os.path.join(r, "refs"), 0o311), ["ok.slice", "-R", "refs"], "refs"),
    }
    for name, (prepare, argv, must_name) in cases.items():
        root = os.path.join(base, "perm-" + name)
        os.makedirs(os.path.join(root, "refs", "sub"))
        for rel, text in (("ok.slice", "module M\nstruct S { a: bool }\n"), ("refs/r.slice", good), ("refs/sub/deep.slice", good.replace("module R", "module R2"))):
            with open(os.path.join(root, rel), "w") as f:
                f.write(text)
        for dp, dn, fn in os.walk(root):
            os.chmod(dp, 0o755)
            for x in fn:
                os.chmod(os.path.join(dp, x), 0o644)
        prepare(root)
        p = subprocess.run(drop + [binary, "--dry-run", "--diagnostic-format", "json"] + argv, cwd=root, stdout=subprocess.PIPE, stderr=subprocess.PIPE)
        # restore, so that the scratch tree can be removed
        for dp, dn, fn in os.walk(root):
            os.chmod(dp, 0o755)
        os.chmod(os.path.join(root, "refs"), 0o755)
        os.chmod(os.path.join(root, "refs", "sub"), 0o755)
        ctx.note_case(("perm", name))
        ctx.stats["permission_cases"] += 1
        err = p.stderr.decode("utf-8", "replace")
        replay = {"kind": "binary", "as_user": "uid 65534 (setpriv)", "case": name, "argv": argv, "status": p.returncode, "stderr": err[:600]}
        if p.returncode < 0 or b"panicked at" in p.stderr:
            ctx.violate("crash:inaccessible-entry", "slicec crashed on %s: %s" % (name, err[:200]), replay)
            continue
        e001 = []
        for line in err.splitlines():
            try:
                o = json.loads(line)
            except ValueError:
                continue
            if o.get("error_code") == "E001":
                e001.append(o["message"])
        if must_name is None:
            if p.returncode != 0:
                ctx.violate("accessible-tree-rejected", "the accessible control tree was rejected as an unprivileged user: %s" % err[:200], replay)
            continue
        if p.returncode == 0 or not e001:
            ctx.violate("io-error-not-reported:" + name, "%s: exit status %d, %d I/O errors - the inaccessible entry was skipped silently"
                        % (name, p.returncode, len(e001)), replay)
            continue
        if not any(("'" + must_name) in m or ("/" + must_name) in m for m in e001):
            ctx.violate("io-error-names-other-path:" + name, "%s: I/O errors %r name no path at or below %s" % (name, e001[:2], must_name), replay)


def run_shard(ctx, spec):
    if spec[0] == "permissions":
        return run_permissions(ctx)
    _, count, idx = spec
    rng = ctx.rng("t/%d" % idx)
    tmp = ctx.tmpdir()
    schema = wire.parse_schema(os.path.join(build.repo(), "slice", "Compiler"))
    for n in range(count):
        root = os.path.join(tmp, "t%d_%d" % (idx, n), "work")
        os.makedirs(root)
        t = Tree(root, random.Random(rng.random()))
        t.build()
        slice_files = [f for f in t.files if is_slice_name(f)]
        link_paths = [l[0] for l in t.links]
        # several argument lists per tree
        for _ in range(4):
            sources, references = [], []
            for _s in range(rng.randint(0, 4)):
                r = rng.random()
                if r < 0.65 and slice_files:
                    sources.append(spell(rng, root, rng.choice(slice_files)))
                elif r < 0.75 and link_paths:
                    sources.append(rng.choice(link_paths))
                elif r < 0.83 and t.files:
                    sources.append(rng.choice(t.files))
                elif r < 0.9:
                    sources.append(rng.choice(t.dirs))
                else:
                    sources.append(rng.choice(["missing.slice", "nodir/x.slice", ""]))
            for _s in range(rng.randint(0, 3)):
                r = rng.random()
                if r < 0.45:
                    references.append(spell(rng, root, rng.choice(t.dirs)) if rng.random() < 0.5 else rng.choice(t.dirs))
                elif r < 0.75 and slice_files:
                    references.append(spell(rng, root, rng.choice(slice_files)))
                elif r < 0.85 and link_paths:
                    references.append(rng.choice(link_paths))
                elif r < 0.92 and t.files:
                    references.append(rng.choice(t.files))
                else:
                    references.append(rng.choice(["missing-dir", "missing.slice"]))
            if rng.random() < 0.3 and sources:
                sources.append(sources[0])      # plain repeat
            argv = ["slicec"]
            mix = [("s", s) for s in sources] + [("r", r) for r in references]
            rng.shuffle(mix)
            # keep relative order within each list
            si, ri = iter(sources), iter(references)
            for kind, _v in mix:
                if kind == "s":
                    argv.append(next(si))
                else:
                    argv += ["-R", next(ri)]
            judge(ctx, root, argv, sources, references, t, schema, use_binary=(rng.random() < 0.15))
        shutil.rmtree(os.path.dirname(root), ignore_errors=True)


def judge(ctx, root, argv, sources, references, tree, schema, use_binary):
    ref = reference_fileset(root, sources, references)
    r = ctx.worker.request({"op": "compile_opts", "argv": argv, "cwd": root, "want": ["brief", "diags", "nodes"]})
    ctx.note_case(("c17", tuple(argv), tuple(sorted(tree.files)), tuple(tree.links)))
    ctx.stats["argument_lists"] += 1
    replay = {"kind": "library", "call": "compile_from_options", "argv": argv, "tree": {"files": tree.files, "dirs": tree.dirs, "links": tree.links},
              "reference": {"io_errors": ref["io_errors"], "files": [(os.path.relpath(f[0], root), f[1]) for f in ref["files"]], "dups": ref["dups"]}}
    if "died" in r or r.get("panic"):
        p = r.get("panic") or {"message": "worker " + r["died"], "location": "?"}
        ctx.violate(core.panic_signature(p), "file resolution crashed: %s" % p, replay)
        return
    if "usage_error" in r:
        ctx.stats["usage_errors"] += 1
        return
    if not ref["exact"] and not ref["files"] and False:
        return
    diags = r["diags"]
    e001 = [d for d in diags if d["code"] == "E001"]
    dupw = [d for d in diags if d["code"] == "DuplicateFile"]
    replay["observed_files"] = [(f["path"], f["is_source"]) for f in r["files"]]
    replay["observed_diags"] = [(d["code"], d["message"]) for d in diags][:8]
    unreadable = [f for f in ref["files"] if os.path.relpath(f[0], root) in tree.invalid]
    if ref["io_errors"] or unreadable:
        ctx.stats["io_error_cases"] += 1
        if len(e001) < ref["io_errors"] + (1 if unreadable and not ref["io_errors"] else 0):
            ctx.violate("io-error-not-reported", "%d unusable path(s) (+%d unreadable file(s)) but %d E001 diagnostics"
                        % (ref["io_errors"], len(unreadable), len(e001)), replay)
            return
        # nothing is parsed
        nodes = r.get("nodes", {})
        parsed = {k: v for k, v in nodes.items() if k != "Primitive"}
        if parsed or any(f["defs"] or f["module"] for f in r["files"]):
            ctx.violate("parsed-despite-io-error", "an I/O error was reported but files were parsed: %r" % parsed, replay)
        return
    if e001:
        ctx.violate("unexpected-io-error", "all paths are usable but E001 was reported: %s" % e001[0]["message"], replay)
        return
    ctx.stats["clean_cases"] += 1
    got = [(os.path.realpath(os.path.join(root, f["path"])), f["is_source"], f["path"]) for f in r["files"]]
    # exactly once
    reals = [g[0] for g in got]
    if len(set(reals)) != len(reals):
        twice = sorted(set(os.path.relpath(x, root) for x in reals if reals.count(x) > 1))
        ctx.violate("file-compiled-twice", "files compiled more than once: %r" % twice, replay)
        return
    want = ref["files"]
    if set(reals) != set(w[0] for w in want):
        missing = sorted(os.path.relpath(x, root) for x in set(w[0] for w in want) - set(reals))
        extra = sorted(os.path.relpath(x, root) for x in set(reals) - set(w[0] for w in want))
        ctx.violate("file-set-differs", "compiled file set differs: missing %r, extra %r" % (missing, extra), replay)
        return
    flags = {g[0]: g[1] for g in got}
    for w in want:
        if flags[w[0]] != w[1]:
            ctx.violate("source-flag-wrong", "%s is compiled as %s" % (os.path.relpath(w[0], root), "source" if flags[w[0]] else "reference"), replay)
            return
    # order: sources first in listed order; then references, listed files / directory slots in order
    got_src = [g for g in got if g[1]]
    want_src = [w for w in want if w[1]]
    if got != got_src + [g for g in got if not g[1]]:
        ctx.violate("references-before-sources", "a reference file precedes a source file", replay)
        return
    if [g[0] for g in got_src] != [w[0] for w in want_src]:
        ctx.violate("source-order", "sources are compiled in a different order than listed", replay)
        return
    for g, w in zip(got_src, want_src):
        if g[2] != w[2]:
            ctx.violate("source-spelling", "source listed as %r is reported as %r" % (w[2], g[2]), replay)
            return
    slot_of = {w[0]: w[3] for w in want if not w[1]}
    slots = [slot_of[g[0]] for g in got if not g[1]]
    if slots != sorted(slots):
        ctx.violate("reference-order", "reference files are not in the order of the -R options (slots %r)" % slots, replay)
        return
    ctx.stats["files_matched"] += len(got)
    # DuplicateFile warnings
    if ref["exact"]:
        if len(dupw) != ref["dups"]:
            ctx.violate("duplicate-file-warnings", "%d DuplicateFile warnings, %d repeats within the lists" % (len(dupw), ref["dups"]), replay)
            return
    elif len(dupw) < sum(1 for _ in []):
        pass
    ctx.stats["duplicate_warnings_checked"] += 1 if ref["exact"] else 0
    ctx.stats["repeats_seen"] += ref["dups"]
    ctx.stats["alias_cases"] += 1 if (len(sources) + len(references)) > len(got) else 0
    # "compiled" means parsed: every file of the set shows its module and its definition
    unparsed = [f["path"] for f in r["files"] if f["module"] is None or not f["defs"]]
    if unparsed:
        ctx.violate("file-listed-but-not-parsed", "files are in the compiled set but were not parsed: %r (diagnostics: %r)"
                    % (unparsed[:4], replay["observed_diags"][:3]), replay)
        return
    if r.get("has_errors"):
        ctx.violate("valid-files-rejected", "files are all valid but compilation reported errors: %r" % replay["observed_diags"][:2], replay)
        return
    # the real binary: paths inside the request
    if use_binary and got_src:
        log = os.path.join(os.path.dirname(root), "log")
        os.makedirs(log, exist_ok=True)
        for f in os.listdir(log):
            os.unlink(os.path.join(log, f))
        gen = os.path.join(os.path.dirname(root), "gen-ok-c17")
        if not os.path.lexists(gen):
            core.link_tool(ctx.paths["fakegen"], gen)
        with open(os.path.join(log, "gen-ok-c17.reply"), "wb") as f:
            f.write(wire.enc_reply([]))
        res = ctx.run_slicec(argv[1:] + ["-G", gen], cwd=root, env={"FAKEGEN_LOG": log})
        cap = [x for x in os.listdir(log) if x.endswith(".stdin")]
        ctx.stats["binary_runs"] += 1
        if res.crashed() or res.status != 0 or len(cap) != 1:
            replay["binary"] = res.brief()
            ctx.violate("binary-disagrees", "library compiles the file set but the binary exits %r / captured %r" % (res.status, cap), replay)
            return
        with open(os.path.join(log, cap[0]), "rb") as f:
            req = wire.decode_request(schema, f.read())
        if [f["path"] for f in req["sourceFiles"]] != [g[2] for g in got_src] or \
                [f["path"] for f in req["referenceFiles"]] != [g[2] for g in got if not g[1]]:
            ctx.violate("request-paths-differ", "paths in the generator request differ from the compiled file set", replay)
        ctx.stats["requests_checked"] += 1


def plan(tier, seed):
    n = 3000 if tier == "quick" else 150000
    return [("trees", n // 16, i) for i in range(16)] + [("permissions",)]


def main(tier, seed):
    paths = build.build("release", ("slicec", "vh"))
    run = core.run_shards(__name__, PROP, tier, seed, paths, plan(tier, seed))
    return core.finish(
        run, "exploration",
        rule=("case = (random directory tree of depth <= 4 with .slice files, other extensions (.SLICE, .slice.bak, .Slice, '.slice'), "
              "directories named *.slice, symlinks to files / directories / the parent / nothing, FIFOs, invalid UTF-8 files; "
              "argument list of 0-5 sources and 0-3 references spelled through '.', '..', '//', absolute paths and links, with "
              "repeats). 4 argument lists per tree. distinct_nontrivial = distinct (tree, argv)"),
        required={"argument_lists": 1000, "clean_cases": 200, "io_error_cases": 200, "files_matched": 500, "repeats_seen": 50,
                  "alias_cases": 50, "requests_checked": 10},
        assumptions=["files found below one reference directory are compared as a set in that directory's slot (read_dir order is "
                     "unspecified); their reported spelling may be any path that canonicalises to them",
                     "DuplicateFile warnings are counted exactly only when no directory symlink lies below a reference directory "
                     "(otherwise the number of routes to a file is implementation defined)",
                     "special files given explicitly are outside the statement; permission-denied entries are exercised by the "
                     "permissions family only where privileges can be dropped with setpriv (counter permission_cases)"],
    )
