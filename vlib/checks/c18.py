"""C18 - a failing generator is reported, never fatal, and never half-trusted.

Fault enumeration over fake generators (harness/src/fakegen.rs): every behaviour of the catalogue alone, in both orders
with a healthy generator, and in sampled triples; replies are hand-encoded by vlib/wire.py (independent of slice-codec)
and truncated at every byte. Observation points: invocation logs, captured stdin, directory snapshots (inode, mtime, hash),
stderr and exit status of slicec, CPU/wall of the run.
"""
import os
import re

from .. import build, core, genrun, wire

PROP = "C18"
SRC = "module M\nstruct S { a: int32 }\ninterface I { op(s: S) -> bool }\n"
GOOD_FILES = [("ok_a.txt", "healthy a\n"), ("ok_b.txt", "é healthy b\n")]
VALID_REPLY = wire.enc_reply([("f1.txt", "one\n"), ("f2.txt", "two é\n")], [])
VALID_REPLY_WITH_DIAGNOSTICS = wire.enc_reply([("d1.txt", "must not be written from a cut reply\n")], [(1, "a warning", None), (0, "a note", "d1.txt")])


def corrupt_replies():
    """name -> reply bytes that must NOT decode completely."""
    s = wire.enc_string
    te = wire.TAG_END
    out = {
        "empty": b"",
        "only-files": wire.enc_varuint(0),                                   # diagnostics sequence missing
        "bad-bool": wire.enc_varuint(0) + wire.enc_varuint(1) + b"\x02" + b"\x00" + s("m") + te,
        "bad-utf8-path": wire.enc_varuint(1) + wire.enc_varuint(2) + b"\xff\xfe" + s("c") + te + wire.enc_varuint(0),
        "bad-utf8-contents": wire.enc_varuint(1) + s("p.txt") + wire.enc_varuint(3) + b"a\xffb" + te + wire.enc_varuint(0),
        "bad-level": wire.enc_varuint(0) + wire.enc_varuint(1) + b"\x00" + b"\x03" + s("m") + te,
        "huge-size": wire.enc_varuint(1) + wire.enc_varuint(2 ** 61) + b"abc",
        "huge-count": wire.enc_varuint(2 ** 61),
        "huge-count-40": wire.enc_varuint(2 ** 40) + s("a") + s("b") + te,
        "negative-tag": wire.enc_varuint(1) + s("p.txt") + s("c") + wire.enc_varint(-5) + wire.enc_varuint(0),
        "tag-without-end": wire.enc_varuint(1) + s("p.txt") + s("c") + wire.enc_varint(7) + wire.enc_varuint(2) + b"xy",
        "tag-out-of-range": wire.enc_varuint(1) + s("p.txt") + s("c") + (((2 ** 40) << 2) | 3).to_bytes(8, "little") + te + wire.enc_varuint(0),
        "garbage": bytes(range(200, 256)) * 3,
        "first-file-ok-then-truncated": wire.enc_varuint(2) + wire.enc_generated_file("half1.txt", "must not be written\n") + s("half2.txt"),
        "files-ok-diagnostics-broken": wire.enc_varuint(1) + wire.enc_generated_file("half3.txt", "must not be written\n") + wire.enc_varuint(1) + b"\x01\x01",
    }
    for cut in range(len(VALID_REPLY)):
        out["trunc-%d" % cut] = VALID_REPLY[:cut]
    # a reply that also carries diagnostics (the last sequence of the reply): cut at every byte, in particular right after a count
    for cut in range(len(VALID_REPLY_WITH_DIAGNOSTICS)):
        out["trunc-diag-%d" % cut] = VALID_REPLY_WITH_DIAGNOSTICS[:cut]
    return out


FAULTS = None


def fault_catalogue():
    """name -> dict(kind=..., behaviour=..., reply=...)"""
    global FAULTS
    if FAULTS is not None:
        return FAULTS
    cat = {
        "missing-executable": {"kind": "path", "path": "./does-not-exist"},
        "not-executable": {"kind": "noexec"},
        "directory-as-generator": {"kind": "dir"},
        "exit1": {"behaviour": "exit1", "reply": VALID_REPLY},
        "exit255": {"behaviour": "exit255", "reply": VALID_REPLY},
        "exit1-empty": {"behaviour": "exit1", "reply": b""},
        "sigkill": {"behaviour": "sigkill", "reply": VALID_REPLY},
        "sigsegv": {"behaviour": "sigsegv", "reply": VALID_REPLY},
        "sigterm": {"behaviour": "sigterm", "reply": VALID_REPLY},
        "killed-mid-reply": {"behaviour": "killmid", "reply": VALID_REPLY},
        "sigkill-after-complete-reply": {"behaviour": "replykill", "reply": VALID_REPLY},
        "sigsegv-after-complete-reply": {"behaviour": "replysegv", "reply": VALID_REPLY},
        "sigterm-after-complete-reply": {"behaviour": "replyterm", "reply": VALID_REPLY},
        "stderr-exit0": {"behaviour": "stderr", "reply": VALID_REPLY},
        "stderr-binary": {"behaviour": "stderrbin", "reply": VALID_REPLY},
        "stderr-single-newline": {"behaviour": "stderrnl", "reply": VALID_REPLY},      # "writes to stderr": any byte counts
        "stderr-white-space-only": {"behaviour": "stderrsp", "reply": VALID_REPLY},
        "no-read-fail": {"behaviour": "noreadfail", "reply": b""},
        "no-read-exit0": {"behaviour": "noread", "reply": b""},     # exits 0 without reading and without replying
        "flood-before-reading": {"behaviour": "floodfirst", "reply": b""},   # > 64 KiB of output before it reads its input
    }
    for name, reply in corrupt_replies().items():
        cat["reply-" + name] = {"behaviour": "ok", "reply": reply}
    FAULTS = cat
    return cat


OUT_MODES = ["cwd", "given", "given-identical", "given-different", "subdir-reply"]


def run_case(ctx, root, n, gens, out_mode, big_request=False):
    """gens: list of fault names or 'ok'."""
    cat = fault_catalogue()
    gc = genrun.GenCase(ctx, root, "c%d" % n)
    src = SRC
    if big_request:
        src += "".join("struct Big%d { %s }\n" % (i, ", ".join("f%d: Sequence<Dictionary<string, int32>>" % j for j in range(40))) for i in range(40))
    gc.write("a.slice", src)
    argv = ["a.slice"]
    outdir = None
    if out_mode != "cwd":
        outdir = "out"
        os.makedirs(os.path.join(gc.dir, outdir))
        argv += ["-O", outdir]
    prefix = (outdir + "/") if outdir else ""
    healthy_files = list(GOOD_FILES)
    if out_mode == "subdir-reply":
        os.makedirs(os.path.join(gc.dir, prefix + "sub"))
        healthy_files = healthy_files + [("sub/nested.txt", "nested\n")]
    if out_mode == "given-identical":
        gc.write(prefix + "ok_a.txt", GOOD_FILES[0][1])
        os.utime(os.path.join(gc.dir, prefix + "ok_a.txt"), ns=(10 ** 18, 10 ** 18))
    if out_mode == "given-different":
        gc.write(prefix + "ok_a.txt", "something else\n")
    specs = []
    for gi, g in enumerate(gens):
        if g == "ok":
            path = gc.add_generator("ok", wire.enc_reply(healthy_files), tag="h%d" % gi)
            specs.append((path, "ok", gc.generators[-1][0]))
        else:
            f = cat[g]
            if f.get("kind") == "path":
                path = f["path"]
                name = None
            elif f.get("kind") == "noexec":
                path = "./plainfile-%d" % gi
                gc.write(path[2:], "#!/bin/sh\nexit 0\n")
                os.chmod(os.path.join(gc.dir, path[2:]), 0o644)
                name = None
            elif f.get("kind") == "dir":
                path = "./gendir-%d" % gi
                os.makedirs(os.path.join(gc.dir, path[2:]))
                name = None
            else:
                path = gc.add_generator(f["behaviour"], f["reply"], tag="f%d" % gi)
                name = gc.generators[-1][0]
            specs.append((path, g, name))
        argv += ["-G", path + ",who=g%d" % gi]
    before = gc.snapshot()
    # the deadlock witness would sit out the whole watchdog; idle for 15 s with < 1 s of CPU is as much a hang as idle for 40 s
    limit = 15 if "flood-before-reading" in gens else 40
    res = gc.run(argv, timeout=limit)
    after = gc.snapshot()
    invoked = gc.invoked()
    replay = {"kind": "binary", "argv": argv, "generators": gens, "output": out_mode, "observed": res.brief(), "invoked": invoked,
              "replies_hex": {s[1]: cat[s[1]].get("reply", b"").hex()[:400] for s in specs if s[1] != "ok" and s[1] in cat}}
    ctx.note_case(("c18", tuple(gens), out_mode, big_request))
    ctx.stats["runs"] += 1
    faulty = [s for s in specs if s[1] != "ok"]
    ctx.stats["faults_injected"] += len(faulty)
    try:
        if res.timed_out:
            if res.cpu_s < 1.0:
                ctx.violate("hang:" + "+".join(sorted(set(g.split("-")[0] for g in gens if g != "ok"))),
                            "slicec hung (idle, %.2f s CPU in %d s) with generators %r" % (res.cpu_s, limit, gens), replay)
            else:
                ctx.inconclusive.append({"gens": gens, "why": "watchdog with cpu %.1f" % res.cpu_s})
            return
        crash = res.crashed()
        if crash:
            p = core.stderr_panic(res.stderr) or {"message": crash, "location": "?"}
            ctx.violate(core.panic_signature(p) if p["location"] != "?" else "crash:generator-fault",
                        "slicec crashed (%s) with generators %r: %s" % (crash, gens, p["message"][:200]), replay)
            return
        err_text = res.stderr.decode("utf-8", "replace")
        e001 = re.findall(r"error \[E001\]: unable to run code-generator '([^']*)'", err_text)
        # every faulty generator is reported by name
        for path, g, name in faulty:
            if path not in e001:
                ctx.violate("fault-not-reported:" + re.sub(r"-\d+$", "", g), "generator %s (%s) failed but no E001 names it; stderr: %s"
                            % (path, g, err_text[:300]), replay)
                return
        # healthy generators are not blamed
        for path, g, name in specs:
            if g == "ok" and path in e001:
                ctx.violate("healthy-generator-blamed", "healthy generator %s is reported as failed: %s" % (path, err_text[:300]), replay)
                return
        if faulty and res.status == 0:
            ctx.violate("exit-zero-despite-fault", "exit status 0 although %r failed" % [f[1] for f in faulty], replay)
            return
        if not faulty and res.status != 0:
            ctx.violate("exit-nonzero-without-fault", "all generators healthy but exit status %r: %s" % (res.status, err_text[:300]), replay)
            return
        # every generator that can be started was started exactly once
        for path, g, name in specs:
            if name is not None and invoked.get(name, 0) != 1:
                ctx.violate("generator-not-run:" + ("healthy" if g == "ok" else "faulty"),
                            "generator %s (%s) was started %d time(s) in a run with %r" % (path, g, invoked.get(name, 0), gens), replay)
                return
        # identical request, own arguments
        schema = run_case.schema
        prefixes = []
        for gi, (path, g, name) in enumerate(specs):
            if name is None:
                continue
            data = gc.stdin_of(name)
            if data is None or g.startswith("no-read"):
                continue
            try:
                req = wire.decode_request(schema, data)
            except wire.WireError as e:
                if cat.get(g, {}).get("behaviour") in ("sigkill", "sigsegv", "sigterm", "killmid") or g == "ok" or True:
                    ctx.violate("request-undecodable", "request received by %s does not decode: %s" % (path, e), replay)
                    return
            ctx.stats["requests_compared"] += 1
            prefixes.append(data[:req["_end_referenceFiles"]])
            if [tuple(a) for a in req["args"]] != [("who", "g%d" % gi)]:
                ctx.violate("wrong-arguments", "generator %d received arguments %r" % (gi, req["args"]), replay)
                return
        if len(set(prefixes)) > 1:
            ctx.violate("requests-differ", "generators of one run received different requests", replay)
            return
        # files: exactly those of the healthy generators, below the output directory
        new = set(after) - set(before)
        nhealthy = sum(1 for s in specs if s[1] == "ok")
        want = {prefix + p for p, _ in healthy_files} if nhealthy else set()
        pre_existing = {prefix + "ok_a.txt"} if out_mode in ("given-identical", "given-different") else set()
        if new != want - pre_existing:
            stray = sorted(new - want)
            missing = sorted((want - pre_existing) - new)
            sig = "file-from-undecodable-reply" if stray else "healthy-generator-files-missing"
            ctx.violate(sig, "files written: stray %r, missing %r (generators %r)" % (stray, missing, gens), replay)
            return
        ctx.stats["healthy_outputs_verified"] += nhealthy
        if nhealthy:
            for p, content in healthy_files:
                with open(os.path.join(gc.dir, prefix + p), encoding="utf-8") as f:
                    if f.read() != content:
                        ctx.violate("generated-content-differs", "content of %s differs from the reply" % p, replay)
                        return
            if out_mode == "given-identical":
                k = prefix + "ok_a.txt"
                ctx.stats["identical_file_checks"] += 1
                if after[k][:2] != before[k][:2]:
                    ctx.violate("identical-file-rewritten", "%s already had the generated content but was rewritten (inode/mtime %r -> %r)"
                                % (k, before[k][:2], after[k][:2]), replay)
                    return
            if out_mode == "given-different":
                ctx.stats["different_file_checks"] += 1
        elif out_mode in ("given-identical", "given-different"):
            k = prefix + "ok_a.txt"
            if after.get(k) != before.get(k):
                ctx.violate("file-touched-without-healthy-generator", "%s changed although no generator succeeded" % k, replay)
    finally:
        gc.cleanup()


def plan(tier, seed):
    return [("faults", i, 16) for i in range(16)]


def build_cases(tier, rng):
    cat = fault_catalogue()
    names = sorted(x for x in cat if x != "flood-before-reading")
    cases = []
    for f in names:
        cases.append(([f], "cwd", False))
        cases.append((["ok", f], rng.choice(OUT_MODES), False))
        cases.append(([f, "ok"], rng.choice(OUT_MODES), False))
        if True:
            for m in OUT_MODES:
                cases.append((["ok", f], m, False))
                cases.append(([f, "ok"], m, False))
    for m in OUT_MODES:
        cases.append((["ok"], m, False))
        cases.append((["ok", "ok"], m, False))
    # closes stdin early / never reads, with a request larger than the pipe buffer
    for f in ("no-read-fail", "no-read-exit0", "exit1", "sigkill", "reply-empty", "missing-executable"):
        cases.append(([f, "ok"], "given", True))
        cases.append((["ok", f], "cwd", True))
        cases.append(([f, "ok", "ok"], "cwd", True))
        cases.append(([f, f, "ok"], "given", True))
    # one witness of the pipe deadlock (a hang costs the whole 40 s time-out, so it is not part of the random line-ups)
    cases.append((["flood-before-reading", "ok"], "given", True))
    for _ in range(600 if tier == "quick" else 30000):
        trip = [rng.choice(names + ["ok", "ok"]) for _ in range(3)]
        cases.append((trip, rng.choice(OUT_MODES), rng.random() < 0.1))
    return cases


def reply_cases():
    """Only the faults that are malformed *replies* (the last sentence of C11: in the compiler a malformed generator reply becomes a
    diagnostic), alone and after a healthy generator. Used by C11's compiler-level phase."""
    cases = []
    for f in sorted(x for x in fault_catalogue() if x.startswith("reply-")):
        cases.append(([f], "cwd", False))
        cases.append((["ok", f], "given", False))
        cases.append((["exit1", f], "cwd", False))      # after a generator that has already failed: still decoded, still reported
    return cases


def run_shard(ctx, spec):
    kind, idx, n = spec
    run_case.schema = wire.parse_schema(os.path.join(build.repo(), "slice", "Compiler"))
    cases = reply_cases() if kind == "replies" else build_cases(ctx.tier, ctx.rng("cases"))
    root = os.path.join(ctx.tmpdir(), "s%d" % idx)
    os.makedirs(root)
    for i, (gens, mode, big) in enumerate(cases):
        if i % n == idx:
            run_case(ctx, root, i, gens, mode, big)
    if idx == 0 and kind != "replies":
        ctx.sample({"generators": ["reply-trunc-17", "ok"], "output": "given-identical",
                    "reply_hex": VALID_REPLY[:17].hex(), "valid_reply_hex": VALID_REPLY.hex()}, limit=1)
        ctx.extra["fault_catalogue"] = sorted(set(re.sub(r"-\d+$", "-<n>", k) for k in fault_catalogue()))


def main(tier, seed):
    paths = build.build("release", ("slicec", "vh"))
    run = core.run_shards(__name__, PROP, tier, seed, paths, plan(tier, seed))
    return core.finish(
        run, "fault_enumeration",
        rule=("case = 1-3 generators (each healthy or one fault of the catalogue: missing / non-executable / directory path, exit 1 / "
              "255, SIGKILL / SIGSEGV / SIGTERM after reading, killed mid-reply, stderr output with exit 0, exits without reading, "
              "reply truncated at each of its %d bytes, empty / garbage reply, invalid bool / UTF-8 / level, size prefix 2^61 / 2^40, "
              "negative / unterminated / out-of-range tag, first file intact then truncated) x output directory mode (cwd, -O, file "
              "already identical, file different, sub-directory path). All singles, both orders with a healthy generator, sampled "
              "triples, plus requests larger than the pipe buffer. distinct_nontrivial = distinct (generator list, output mode)"
              % len(VALID_REPLY)),
        required={"runs": 200, "faults_injected": 200, "healthy_outputs_verified": 100, "requests_compared": 200,
                  "identical_file_checks": 5, "different_file_checks": 5},
        assumptions=["a valid reply followed by trailing bytes and replies with a non-empty diagnostics list are outside the oracle "
                     "(the statement's catalogue does not list them)",
                     "a generator that exits without reading may be reported as a broken pipe or as an empty reply: any E001 naming "
                     "it is accepted"],
        exhaustive=True,
        extra_coverage={"exhaustive_space": "every fault of the catalogue alone and in both orders with a healthy generator; truncation at every byte of the valid reply"},
    )
