"""C19 - generator specifications parse back to the path and arguments that were written.

Observation points: SliceOptions::try_parse_from(...).generators (through the library worker), the binary's exit
status / stderr for rejected specifications, and the argument section of the stdin captured by a fake generator.
Oracle: vlib/genspec.py (reference parser written from the statement).
"""
import itertools
import os

from .. import build, core, genspec, wire

PROP = "C19"
ALPHABET = ["a", " ", ",", "=", "\\"]


def _spec_strings(maxlen):
    for n in range(0, maxlen + 1):
        for t in itertools.product(ALPHABET, repeat=n):
            yield "".join(t)


def plan(tier, seed):
    specs = []
    # exhaustive alphabet space, split in 16 slices (quick and thorough: all strings of length <= 5; thorough adds 6)
    maxlen = 7 if tier == "quick" else 9
    for i in range(16):
        specs.append(("alphabet", maxlen, i, 16))
    nrand = 30000 if tier == "quick" else 3000000
    for i in range(16):
        specs.append(("roundtrip", nrand // 16, i))
    for i in range(4):
        specs.append(("multi", (200 if tier == "quick" else 10000) // 4, i))
    nbin = 1000 if tier == "quick" else 40000
    for i in range(16):
        specs.append(("binary", nbin // 16, i))
    for i in range(8):
        specs.append(("binary-multi", (400 if tier == "quick" else 15000) // 8, i))
    return specs


def _classify(resp):
    """Maps a worker response to ('ok', path, args) | ('reject', exit_code, kind) | ('panic', panic) | ('died', how)."""
    if "died" in resp:
        return ("died", resp["died"])
    if resp.get("panic"):
        return ("panic", resp["panic"])
    if "usage_error" in resp:
        u = resp["usage_error"]
        return ("reject", u["exit_code"], u["kind"])
    g = resp["options"]["generators"]
    return ("ok", [(x["path"], [tuple(a) for a in x["args"]]) for x in g])


def _check_one(ctx, argv, expected, tag):
    """expected: list of genspec.parse results, one per -G in argv."""
    resp = ctx.worker.request({"op": "options", "argv": argv})
    got = _classify(resp)
    replay = {"kind": "library", "call": "SliceOptions::try_parse_from", "argv": argv,
              "expected": [list(e) for e in expected], "observed": repr(got)[:500],
              "how_to": "%s %s" % (ctx.paths["slicec"], " ".join(_shq(a) for a in argv[1:]))}
    any_reject = any(e[0] == "reject" for e in expected)
    if got[0] in ("panic", "died"):
        sig = core.panic_signature(got[1]) if got[0] == "panic" else "died:" + got[1]
        ctx.stats["panics"] += 1
        ctx.violate(sig, "option parsing crashed on %r: %s" % (argv[1:], got[1]), replay)
        return got
    if any_reject:
        ctx.stats["expected_reject"] += 1
        if got[0] != "reject":
            ctx.violate("accepts-invalid:" + tag, "specification %r must be rejected (%s) but was accepted as %r"
                        % (argv[1:], [e[1] for e in expected if e[0] == "reject"], got[1]), replay)
        elif got[1] != 2:
            ctx.violate("reject-not-usage-error:" + tag, "rejection of %r is not a usage error (exit %r)" % (argv, got[1]),
                        replay)
    else:
        ctx.stats["expected_accept"] += 1
        want = [(e[1], e[2]) for e in expected]
        if got[0] != "ok":
            ctx.violate("rejects-valid:" + tag, "specification %r must be accepted as %r but was rejected (%s)"
                        % (argv[1:], want, got), replay)
        elif got[1] != want:
            ctx.violate("wrong-parse:" + tag, "specification %r parsed as %r, expected %r" % (argv[1:], got[1], want),
                        replay)
    return got


def _shq(s):
    return "'" + s.replace("'", "'\\''") + "'"


def _rand_component(rng, allow_empty=False):
    pools = [
        "abcXYZ019_-./",
        ",=\\",
        " \t\u00a0\u3000",                 # inner whitespace (also multi-byte) stays
        "éß中文\U0001F600Жאก",
        "\u200b\ufeff\u180e\u2060",        # look like blanks but are not White_Space: never trimmed
        # code points a program might borrow as private placeholders: noncharacters, private use, the replacement character
        "\ufdd0\ufdd1\ufdef\ufffe\uffff\ufffd\ue000\uf8ff\U0001fffe\U0010ffff\U000f0000\x7f\x1f\x01",
    ]
    n = rng.choice([0, 1, 1, 2, 3, 5, 9]) if allow_empty else rng.choice([1, 1, 2, 3, 5, 9])
    s = "".join(rng.choice(rng.choice(pools)) for _ in range(n))
    if rng.random() < 0.1:
        s += chr(rng.choice([rng.randrange(0x21, 0x7f), rng.randrange(0xa1, 0x2000), rng.randrange(0x3001, 0xd7ff),
                             rng.randrange(0x10000, 0x10ffff)]))
    s = genspec.trim(s)
    while s.endswith("\\"):      # the syntax cannot express a component ending in a backslash
        s = genspec.trim(s[:-1])
    if s.startswith("-"):
        s = "x" + s
    if not s and not allow_empty:
        s = "p"
    return s


def run_shard(ctx, spec):
    kind = spec[0]
    if kind == "alphabet":
        _, maxlen, idx, n = spec
        for i, s in enumerate(_spec_strings(maxlen)):
            if i % n != idx:
                continue
            exp = genspec.parse(s)
            got = _check_one(ctx, ["slicec", "-G", s], [exp], "alphabet")
            ctx.note_case(("alpha", s), nontrivial=len(s) > 0)
            ctx.stats["alphabet_cases"] += 1
            if len(s) == 5 and "," in s and "=" in s and "\\" in s:
                ctx.sample({"spec": s, "reference": list(exp), "observed": repr(got)[:120]}, limit=3)
    elif kind == "roundtrip":
        _, count, idx = spec
        rng = ctx.rng("roundtrip/%d" % idx)
        for _ in range(count):
            path = _rand_component(rng)
            args = [(_rand_component(rng), _rand_component(rng, allow_empty=True)) for _ in range(rng.choice([0, 1, 2, 3, 6]))]
            s = genspec.render(path, args, rng, trailing_comma=rng.random() < 0.3)
            # the reference parser must itself return what was written (guards the generator/renderer)
            ref = genspec.parse(s)
            assert ref == ("ok", path, args), (s, ref, path, args)
            got = _check_one(ctx, ["slicec", "--generator=" + s], [ref], "roundtrip")
            ctx.note_case(("rt", s), nontrivial=len(args) > 0)
            ctx.stats["roundtrip_cases"] += 1
            ctx.stats["roundtrip_pairs"] += len(args)
            ctx.sample({"written": {"path": path, "args": args}, "spec": s, "observed": repr(got)[:200]}, limit=3)
    elif kind == "multi":
        _, count, idx = spec
        rng = ctx.rng("multi/%d" % idx)
        for _ in range(count):
            argv = ["slicec"]
            exp = []
            for _g in range(rng.randint(1, 4)):
                if rng.random() < 0.15:
                    s = "".join(rng.choice(ALPHABET) for _ in range(rng.randint(1, 6)))
                else:
                    path = _rand_component(rng)
                    args = [(_rand_component(rng), _rand_component(rng, True)) for _ in range(rng.randint(0, 3))]
                    s = genspec.render(path, args, rng)
                exp.append(genspec.parse(s))
                argv.append(rng.choice(["--generator=" + s, "-G=" + s]) if s.startswith("-") or rng.random() < 0.5
                            else rng.choice(["-G", "--generator"]))
                if argv[-1] in ("-G", "--generator"):
                    argv.append(s)
            _check_one(ctx, argv, exp, "multi")
            ctx.note_case(("multi", tuple(argv)))
            ctx.stats["multi_cases"] += 1
    elif kind == "binary":
        _, count, idx = spec
        _binary(ctx, count, idx)
    elif kind == "binary-multi":
        _, count, idx = spec
        _binary_multi(ctx, count, idx)


def _binary(ctx, count, idx):
    """Real binary: rejected specs end as usage errors (exit 2, usage on stderr); accepted ones deliver exactly the
    parsed pairs to the generator (argument section of the captured stdin)."""
    rng = ctx.rng("binary/%d" % idx)
    tmp = ctx.tmpdir()
    work = os.path.join(tmp, "b%d" % idx)
    os.makedirs(work, exist_ok=True)
    src = os.path.join(work, "a.slice")
    with open(src, "w") as f:
        f.write("module M\nstruct S { a: int32 }\n")
    schema = wire.parse_schema(os.path.join(build.repo(), "slice", "Compiler"))
    for n in range(count):
        log = os.path.join(work, "log%d" % n)
        os.makedirs(log)
        gen = os.path.join(work, "gen-ok-%d" % n)
        core.link_tool(ctx.paths["fakegen"], gen)
        with open(os.path.join(log, "gen-ok-%d.reply" % n), "wb") as f:
            f.write(wire.enc_reply([]))
        mode = rng.random()
        if mode < 0.3:
            # a short string from the alphabet appended to a valid path: may be valid or not
            tail = "".join(rng.choice(ALPHABET) for _ in range(rng.randint(0, 5)))
            s = gen + tail if rng.random() < 0.8 else tail
        else:
            args = [(_rand_component(rng), _rand_component(rng, True)) for _ in range(rng.randint(0, 4))]
            s = genspec.render(gen, args, rng, trailing_comma=rng.random() < 0.2)
        exp = genspec.parse(s)
        argv = ["--generator=" + s, src]
        r = ctx.run_slicec(argv, cwd=work, env={"FAKEGEN_LOG": log})
        ctx.note_case(("bin", s.replace(work, "")))
        ctx.stats["binary_runs"] += 1
        replay = {"kind": "binary", "argv": argv, "cwd": work, "files": {"a.slice": "module M\nstruct S { a: int32 }\n"},
                  "expected": list(exp), "observed": r.brief()}
        if r.timed_out:
            ctx.inconclusive.append({"argv": argv, "why": "watchdog"})
            continue
        crash = r.crashed()
        if crash:
            p = core.stderr_panic(r.stderr) or {"message": crash, "location": "?"}
            ctx.violate(core.panic_signature(p), "slicec crashed on --generator=%r: %s" % (s, crash), replay)
            continue
        if exp[0] == "reject":
            ctx.stats["binary_rejects"] += 1
            if r.status != 2 or not r.stderr.startswith(b"error:"):
                ctx.violate("binary-reject-not-usage", "rejected specification %r: exit %r, stderr %r"
                            % (s, r.status, r.stderr[:200]), replay)
            if os.listdir(log) != ["gen-ok-%d.reply" % n]:
                ctx.violate("binary-reject-ran-generator", "generator was run for rejected specification %r" % s, replay)
            continue
        # accepted: path is exp[1]; it may or may not be our generator (a tail may have changed the path)
        captured = [x for x in os.listdir(log) if x.endswith(".stdin")]
        if exp[1] != gen:
            ctx.stats["binary_other_path"] += 1
            continue
        if r.status != 0 or len(captured) != 1:
            ctx.violate("binary-accept-failed", "valid specification %r: exit %r, captured %r, stderr %r"
                        % (s, r.status, captured, r.stderr[:300]), replay)
            continue
        with open(os.path.join(log, captured[0]), "rb") as f:
            data = f.read()
        try:
            req = wire.decode_request(schema, data)
            got = req["args"]
        except wire.WireError as e:
            ctx.violate("binary-args-undecodable", "captured request for %r does not decode: %s" % (s, e), replay)
            continue
        ctx.stats["binary_args_checked"] += 1
        ctx.stats["binary_pairs_delivered"] += len(got)
        if [tuple(x) for x in got] != exp[2]:
            replay["observed_args"] = got
            ctx.violate("binary-args-differ", "generator received %r, specification %r says %r" % (got, s, exp[2]), replay)
        ctx.sample({"binary_spec": s.replace(work, "<tmp>"), "delivered": got}, limit=2)


def _binary_multi(ctx, count, idx):
    """Several -G options in one run: every generator must receive the common request followed by exactly its own arguments."""
    rng = ctx.rng("binary-multi/%d" % idx)
    tmp = ctx.tmpdir()
    work = os.path.join(tmp, "m%d" % idx)
    os.makedirs(work, exist_ok=True)
    src = os.path.join(work, "a.slice")
    with open(src, "w") as f:
        f.write("module M\nstruct S { a: int32 }\n")
    schema = wire.parse_schema(os.path.join(build.repo(), "slice", "Compiler"))
    for n in range(count):
        log = os.path.join(work, "log%d" % n)
        os.makedirs(log)
        argv = []
        want = []
        # some line-ups also hold generators that cannot be started, or that fail, with arguments of their own: the healthy ones
        # still receive exactly their own arguments
        broken = 0
        for g in range(rng.randint(2, 4)):
            if rng.random() < 0.25:
                kind = rng.choice(["missing", "exit1"])
                bname = "gen-exit1-%d_%db" % (n, g)
                bpath = os.path.join(work, "no-such-generator-%d_%d" % (n, g)) if kind == "missing" else os.path.join(work, bname)
                if kind == "exit1":
                    core.link_tool(ctx.paths["fakegen"], bpath)
                bargs = [(_rand_component(rng), _rand_component(rng, True)) for _ in range(rng.choice([1, 2, 4]))]
                argv += [rng.choice(["-G", "--generator"]), genspec.render(bpath, bargs, rng)]
                broken += 1
            name = "gen-ok-%d_%d" % (n, g)
            gen = os.path.join(work, name)
            core.link_tool(ctx.paths["fakegen"], gen)
            with open(os.path.join(log, name + ".reply"), "wb") as f:
                f.write(wire.enc_reply([]))
            args = [(_rand_component(rng), _rand_component(rng, True)) for _ in range(rng.choice([0, 1, 2, 3, 5]))]
            argv += [rng.choice(["-G", "--generator"]), genspec.render(gen, args, rng)]
            want.append((name, args))
            # the same executable given again with arguments of its own (possibly after other generators): one more process,
            # which receives its own arguments and not those of its namesake
            while rng.random() < 0.3:
                again = [(_rand_component(rng), _rand_component(rng, True)) for _ in range(rng.choice([0, 1, 2, 3]))]
                argv += [rng.choice(["-G", "--generator"]), genspec.render(gen, again, rng)]
                want.append((name, again))
                ctx.stats["binary_multi_repeated_generators"] += 1
        r = ctx.run_slicec(argv + [src], cwd=work, env={"FAKEGEN_LOG": log})
        ctx.note_case(("binmulti", tuple(argv)))
        ctx.stats["binary_multi_runs"] += 1
        replay = {"kind": "binary", "argv": [a.replace(work, "<tmp>") for a in argv] + ["a.slice"], "observed": r.brief()}
        if r.crashed() or r.status != (1 if broken else 0):
            ctx.violate("binary-multi-failed", "run with %d healthy and %d failing generators: %s, exit %r" % (len(want), broken, r.crashed(), r.status), replay)
            continue
        if broken:
            ctx.stats["binary_multi_runs_with_failing_generators"] += 1
        prefixes = set()
        by_name = {}
        for name, args in want:
            by_name.setdefault(name, []).append(args)
        for name, arg_lists in by_name.items():
            cap = [x for x in os.listdir(log) if x.startswith(name + ".") and x.endswith(".stdin")]
            if len(cap) != len(arg_lists):
                ctx.violate("binary-multi-not-started", "generator %s given %d time(s): %d captured requests" % (name, len(arg_lists), len(cap)), replay)
                break
            received = []
            bad = False
            for one in cap:
                with open(os.path.join(log, one), "rb") as f:
                    data = f.read()
                try:
                    req = wire.decode_request(schema, data)
                except wire.WireError as e:
                    ctx.violate("binary-multi-undecodable", "request received by %s does not decode completely: %s" % (name, e), replay)
                    bad = True
                    break
                prefixes.add(data[:req["_end_referenceFiles"]])
                ctx.stats["binary_multi_generators_checked"] += 1
                received.append([tuple(x) for x in req["args"]])
            if bad:
                break
            # processes of one executable are told apart by what they received: the multiset must be the one specified
            if sorted(received) != sorted(arg_lists):
                ctx.violate("binary-multi-args-differ", "generator %s received %r, its specification(s) say %r" % (name, received, arg_lists), replay)
                break
        else:
            if len(prefixes) != 1:
                ctx.violate("binary-multi-requests-differ", "generators of one run received different requests", replay)


def main(tier, seed):
    paths = build.build("release", ("slicec", "vh"))
    run = core.run_shards(__name__, PROP, tier, seed, paths, plan(tier, seed))
    return core.finish(
        run, "exploration",
        rule=("cases = (a) every string of length <= 7 (thorough: 9) over {a, space, ',', '=', backslash} passed as -G and "
              "compared with the reference parser; (b) random Unicode path/pair lists rendered with escaping and padding; "
              "(c) 1-4 repeated -G options; (d) real binary runs with a capturing generator. distinct_nontrivial = distinct "
              "non-empty specification strings / argv vectors"),
        required={"alphabet_cases": 3000, "roundtrip_pairs": 100, "expected_reject": 100, "expected_accept": 100,
                  "binary_args_checked": 20, "binary_rejects": 5, "binary_multi_generators_checked": 100,
                  "binary_multi_repeated_generators": 20},
        assumptions=["reference parser in vlib/genspec.py encodes the statement of C19; whitespace = Unicode White_Space, "
                     "only ASCII padding is generated",
                     "components ending in a backslash are not generated (the syntax cannot express them)"],
        exhaustive=True,
        extra_coverage={"exhaustive_space": "all strings of length <= %d over a 5-letter alphabet" % (6 if tier == "quick" else 8)},
    )
