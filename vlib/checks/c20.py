"""C20 - visitor traversal presents every element exactly once, in source order.

Observation: the callback sequence of a recording Visitor passed to SliceFile::visit_with (one trace per file).
Reference: (a) the traversal derived from the model program (what was declared, in source order), and (b) the traversal
derived from the AST dump's containment structure, including the type references nested inside anonymous types - neither
uses visitor.rs.
"""
import random

from .. import build, core
from ..slicegen import expect, gen, printer
from ..slicegen.model import Alias, Custom, Enum, Interface, Struct

PROP = "C20"


def tag_of(d):
    for k in ("struct", "enum", "custom", "primitive"):
        if k in d:
            return "%s:%s" % (k, d[k])
    for k in ("sequence", "dictionary", "result"):
        if k in d:
            return k
    return "unpatched"


def model_type_tags(et, out):
    """Pre-order list of what each presented type reference must designate, from the model's expected type (expect.exp_type)."""
    d = et["def"]
    out.append(tag_of(d))
    if "sequence" in d:
        model_type_tags(d["sequence"], out)
    elif "dictionary" in d:
        model_type_tags(d["dictionary"][0], out)
        model_type_tags(d["dictionary"][1], out)
    elif "result" in d:
        model_type_tags(d["result"][0], out)
        model_type_tags(d["result"][1], out)
    return out


def model_file_tags(ef):
    """All type references of one expected file dump, in presentation order."""
    out = []
    for d in ef["contents"]:
        k = d["kind"]
        if k == "struct":
            for m in d["fields"]:
                model_type_tags(m["type"], out)
        elif k == "interface":
            for o in d["operations"]:
                for p in o["params"] + o["returns"]:
                    model_type_tags(p["type"], out)
        elif k == "enum":
            for e in d["enumerators"]:
                for m in e.get("fields") or []:
                    model_type_tags(m["type"], out)
        elif k == "alias":
            model_type_tags(d["underlying"], out)
    return out


def type_trace(t, out):
    out.append(["type_ref", t["span"], tag_of(t["def"])])
    d = t["def"]
    if "sequence" in d:
        type_trace(d["sequence"], out)
    elif "dictionary" in d:
        type_trace(d["dictionary"][0], out)
        type_trace(d["dictionary"][1], out)
    elif "result" in d:
        type_trace(d["result"][0], out)
        type_trace(d["result"][1], out)


def member_trace(kind, m, out):
    out.append([kind, m["psid"], m["span"]])
    type_trace(m["type"], out)


def reference_trace(f):
    """Reference traversal of one dumped file."""
    out = [["file", f["path"]]]
    if f["module"] is not None:
        out.append(["module", f["module"]["id"], f["module"]["span"]])
    for d in f["contents"]:
        k = d["kind"]
        out.append([k, d["psid"], d["span"]])
        if k == "struct":
            for m in d["fields"]:
                member_trace("field", m, out)
        elif k == "interface":
            for o in d["operations"]:
                out.append(["operation", o["psid"], o["span"]])
                for p in o["params"]:
                    member_trace("parameter", p, out)
                for p in o["returns"]:
                    member_trace("parameter", p, out)
        elif k == "enum":
            for e in d["enumerators"]:
                out.append(["enumerator", e["psid"], e["span"]])
                for m in e["fields"] or []:
                    member_trace("field", m, out)
        elif k == "alias":
            type_trace(d["underlying"], out)
    return out


def model_entities(f):
    """(kind, scoped name) of every entity declared in the model file, containers before contents, in source order."""
    out = []
    for d in f.defs:
        if isinstance(d, Struct):
            out.append(("struct", d.scoped()))
            out += [("field", m.scoped()) for m in d.fields]
        elif isinstance(d, Interface):
            out.append(("interface", d.scoped()))
            for o in d.operations:
                out.append(("operation", o.scoped()))
                out += [("parameter", p.scoped()) for p in o.params + o.returns]
        elif isinstance(d, Enum):
            out.append(("enum", d.scoped()))
            for e in d.enumerators:
                out.append(("enumerator", e.scoped()))
                out += [("field", m.scoped()) for m in e.fields or []]
        elif isinstance(d, Custom):
            out.append(("custom", d.scoped()))
        elif isinstance(d, Alias):
            out.append(("alias", d.scoped()))
    return out


def count_type_exprs(t):
    return 1 + sum(count_type_exprs(a) for a in t.args)


def plan(tier, seed):
    n = 15000 if tier == "quick" else 400000
    return [("random", n // 32, i) for i in range(32)] + [("chains", n // 64, i) for i in range(16)]


def run_shard(ctx, spec):
    kind, count, idx = spec
    rng = ctx.rng("%s/%d" % (kind, idx))
    progs, reqs = [], []
    for _ in range(count):
        if kind == "chains":
            # alias chains that cross modules, every link spelled relative to its own module, same-named decoys elsewhere: the
            # types presented below a use of the first alias are those of the *last* link's target
            from . import c03
            prog = c03.chain_program(random.Random(rng.random()), rng.randint(1, 4), rng.choice(c03.ENDS),
                                     rng.choice(["field", "parameter", "return", "alias", "seq-elem", "dict-value", "enumerator-field"]))
            ctx.stats["alias_chain_programs"] += 1
        else:
            prog = gen.valid_program(random.Random(rng.random()), max_files=4, type_depth=3)
        style = rng.choice(["plain", "dense", "random", "lines"])
        texts = printer.print_program(prog, [printer.Layout(random.Random(rng.random()), style) for _ in prog.files])
        blank_at = None
        if rng.random() < 0.2:
            # a file that holds nothing, anywhere among the others: walking it presents the file and nothing else, and the files
            # after it are walked as if it were not there
            blank_at = rng.randrange(len(texts) + 1)
            texts = texts[:blank_at] + [rng.choice(["", "\n", " \t\n\n", "// nothing\n"])] + texts[blank_at:]
            ctx.stats["programs_with_blank_file"] += 1
        prog.blank_at = blank_at
        progs.append((prog, texts))
        reqs.append({"op": "compile", "files": texts, "want": ["ast", "visit", "codes"]})
    for k in range(0, len(reqs), 50):
        resps = ctx.worker.batch(reqs[k:k + 50])
        for (prog, texts), r in zip(progs[k:k + 50], resps):
            judge(ctx, prog, texts, r)
    if progs:
        ctx.sample({"program": progs[0][1]}, limit=1)


def judge(ctx, prog, texts, r):
    replay = {"kind": "library", "call": "compile_from_strings + SliceFile::visit_with", "files": texts}
    ctx.note_case(tuple(texts))
    if "died" in r or r.get("panic"):
        p = r.get("panic") or {"message": "worker " + r["died"], "location": "?"}
        ctx.violate(core.panic_signature(p), "visiting crashed: %s" % p, replay)
        return
    if r["codes"]:
        ctx.stats["skipped_program_with_diagnostics"] += 1   # C02 decides those
        return
    expected = expect.exp_program(prog)
    mfiles = list(prog.files)
    blank_at = getattr(prog, "blank_at", None)
    if blank_at is not None:
        expected = expected[:blank_at] + [{"contents": []}] + expected[blank_at:]
        mfiles = mfiles[:blank_at] + [None] + mfiles[blank_at:]
    all_defs_elsewhere = {}
    for fi, f in enumerate(r["files"]):
        for t in reference_trace(f):
            if t[0] not in ("file", "type_ref", "module"):
                all_defs_elsewhere.setdefault((t[0], t[1]), fi)
    if len(r["files"]) != len(mfiles):
        ctx.violate("visitor-file-count", "%d files compiled, %d given" % (len(r["files"]), len(mfiles)), replay)
        return
    for fi, (f, trace, mf) in enumerate(zip(r["files"], r["visit"], mfiles)):
        ctx.stats["files_walked"] += 1
        ctx.stats["callbacks"] += len(trace)
        if mf is None:
            if trace != [["file", f["path"]]]:
                ctx.violate("visitor-blank-file", "file %d holds nothing, the visitor presented %r" % (fi, trace[:4]), replay)
            continue
        ref = reference_trace(f)
        ents = [(t[0], t[1]) for t in trace if t[0] not in ("file", "type_ref", "module")]
        # (1) against the model: nothing skipped, nothing twice, nothing foreign, source order
        want = model_entities(mf)
        if ents != want:
            seen = set()
            twice = [e for e in ents if e in seen or seen.add(e)]
            missing = [e for e in want if e not in ents]
            foreign = [e for e in ents if e not in want]
            kind = "twice" if twice else "skipped" if missing else "foreign" if foreign else "order"
            replay["file_index"] = fi
            replay["expected_entities"] = want
            replay["observed_entities"] = ents
            ctx.violate("visitor-entities-%s" % kind, "file %d: visitor presented entities %s; twice=%s missing=%s foreign=%s"
                        % (fi, "in the wrong order" if kind == "order" else "incorrectly", twice[:3], missing[:3], foreign[:3]), replay)
            continue
        if not trace or trace[0] != ["file", f["path"]] or (f["module"] and (len(trace) < 2 or trace[1][0] != "module")):
            ctx.violate("visitor-file-module-first", "file %d: trace does not start with file, module: %r" % (fi, trace[:2]), replay)
            continue
        # (2) full sequence incl. type references
        if trace != ref:
            i = next((i for i, (a, b) in enumerate(zip(trace, ref)) if a != b), min(len(trace), len(ref)))
            replay["file_index"] = fi
            replay["first_difference_at"] = i
            replay["observed"] = trace[max(0, i - 2):i + 3]
            replay["expected"] = ref[max(0, i - 2):i + 3]
            what = "missing" if len(trace) < len(ref) else "extra" if len(trace) > len(ref) else "different"
            kinds = (ref[i][0] if i < len(ref) else "end", trace[i][0] if i < len(trace) else "end")
            ctx.violate("visitor-sequence-%s:%s-vs-%s" % (what, kinds[0], kinds[1]),
                        "file %d: callback %d is %r, reference traversal says %r" % (fi, i, trace[i] if i < len(trace) else None,
                                                                                      ref[i] if i < len(ref) else None), replay)
            continue
        # (3) against the model again: every presented type reference designates what the scoping rules say the written
        # type expression designates (aliases expanded by the reference resolver, not by the implementation)
        want_tags = model_file_tags(expected[fi])
        got_tags = [t[2] for t in trace if t[0] == "type_ref"]
        if got_tags != want_tags:
            i = next((i for i, (a, b) in enumerate(zip(got_tags, want_tags)) if a != b), min(len(got_tags), len(want_tags)))
            replay["file_index"] = fi
            replay["observed_types"] = got_tags[max(0, i - 2):i + 3]
            replay["expected_types"] = want_tags[max(0, i - 2):i + 3]
            ctx.violate("visitor-presents-wrong-type", "file %d: type reference %d presented is %r, the model says %r"
                        % (fi, i, got_tags[i] if i < len(got_tags) else None, want_tags[i] if i < len(want_tags) else None), replay)
            continue
        ntypes = sum(1 for t in trace if t[0] == "type_ref")
        ctx.stats["type_refs_presented"] += ntypes
        ctx.stats["entities_presented"] += len(ents)


def main(tier, seed):
    paths = build.build("release", ("vh",))
    run = core.run_shards(__name__, PROP, tier, seed, paths, plan(tier, seed))
    return core.finish(
        run, "exploration",
        rule=("case = one generated valid program (<= 4 files, every definition kind, anonymous types nested to depth 3, aliases of "
              "anonymous types, cross-file references) whose files are each walked with a recording visitor; the callback sequence "
              "is compared with the declared entities of the model, with the traversal derived from the AST dump, and - type reference "
              "by type reference - with what the model's own resolver says each written type designates. A second family walks "
              "alias chains of length 1-4 that cross modules (relative spellings, same-named decoys). "
              "distinct_nontrivial = distinct programs"),
        required={"alias_chain_programs": 1000, "files_walked": 500, "callbacks": 5000, "type_refs_presented": 2000, "entities_presented": 2000},
        assumptions=["type references nested inside an alias's anonymous type are presented again at every use of the alias "
                     "('the types nested inside it, to any depth')",
                     "enum underlying types and interface bases are not type-reference callbacks (the statement lists fields, "
                     "parameters, return members and aliases)"],
    )
