"""Driver shared by C10 / C11 / C12: runs the codec harness `vc` natively, under AddressSanitizer and under Miri,
collects what each run observed and turns sanitizer reports into violations."""
import json
import os
import re
import subprocess
import time
from concurrent.futures import ThreadPoolExecutor

from . import build, core

MIRI_SHARDS = 16


def _parse_outcome(stdout):
    for line in reversed(stdout.decode(errors="replace").splitlines()):
        line = line.strip()
        if line.startswith("{") and '"evaluations"' in line:
            return json.loads(line)
    return None


def _asan_signature(stderr):
    text = stderr.decode(errors="replace")
    m = re.search(r"ERROR: AddressSanitizer: ([a-z-]+)", text)
    kind = m.group(1) if m else "report"
    frame = ""
    for fm in re.finditer(r"#\d+ 0x[0-9a-f]+ in (\S+) (\S+)", text):
        if "slice-codec/src" in fm.group(2) or "slice_codec" in fm.group(1):
            frame = re.sub(r"::h[0-9a-f]{16}$", "", fm.group(1))
            break
    return "asan:%s:%s" % (kind, frame)


def _miri_signature(stderr):
    text = stderr.decode(errors="replace")
    m = re.search(r"error: (Undefined Behavior|unsupported operation|memory leaked|abnormal termination|[^\n:]*): ([^\n]*)", text)
    if not m:
        m2 = re.search(r"error: ([^\n]*)", text)
        return "miri:" + (m2.group(1)[:80] if m2 else "unknown")
    msg = re.sub(r"0x[0-9a-f]+|alloc\d+|\d+", "_", m.group(2))[:90]
    where = ""
    for fm in re.finditer(r"-->\s*(\S*slice-codec/src/\S+?):\d+", text):
        where = fm.group(1).split("slice-codec/")[-1]
        break
    return "miri:%s:%s:%s" % (m.group(1), msg, where)


FUZZ_SECONDS = int(os.environ.get("VERIF_FUZZ_SECONDS", "180"))


def _fuzz_decode_phase(run_, vc, seed, phases):
    """Coverage-guided differential fuzzing of the decoders (libFuzzer + AddressSanitizer, all cores): byte 0 selects the
    decodable type, the oracle inside the target is the harness's own check against the reference decoder. The fuzzer only
    proposes inputs: every artifact is re-judged by the uninstrumented `vc fuzzcase`, whose outcome is the verdict."""
    import shutil
    import tempfile
    from . import wire
    t0 = time.time()
    try:
        fz = build.build_fuzz("decode")
    except build.BuildError as e:
        run_.errors.append("decode fuzz target does not build: %s" % e)
        return
    work = tempfile.mkdtemp(prefix="verif-C11-fuzz-", dir=core.scratch_root())
    corpus, art = os.path.join(work, "corpus"), os.path.join(work, "art")
    os.makedirs(corpus)
    os.makedirs(art)
    bodies = [b"", b"\x00", b"\x01", b"\x04abcd", b"\x08\x04ab\x04cd", wire.enc_varuint(300) + b"x" * 40, wire.enc_varint(-70000),
              wire.enc_generated_file("p.txt", "contents\n"), wire.enc_reply([("a.txt", "x")]), b"\x08\x01\x02\x03\x04",
              (((2 ** 40) << 2) | 3).to_bytes(8, "little"), b"\x04p" + wire.enc_string("c") + wire.enc_varint(7) + wire.enc_varuint(2) + b"xy" + wire.TAG_END]
    n = 0
    for i in range(48):
        for b in bodies:
            with open(os.path.join(corpus, "s%04d" % n), "wb") as f:
                f.write(bytes([i]) + b)
            n += 1
    env = dict(os.environ, ASAN_OPTIONS="detect_odr_violation=0:detect_leaks=0:allocator_may_return_null=1")
    # a single large allocation is not an error here (announced sizes are reserved virtually; their cost is the native cost phase's matter)
    cmd = [fz, corpus, "-timeout=10", "-rss_limit_mb=8000", "-malloc_limit_mb=2000000", "-max_len=96", "-fork=%d" % core.NPROC,
           "-max_total_time=%d" % FUZZ_SECONDS, "-artifact_prefix=" + art + "/", "-ignore_crashes=1", "-ignore_timeouts=1", "-ignore_ooms=1",
           "-seed=%d" % (seed + 1)]
    try:
        p = subprocess.run(cmd, env=env, cwd=work, stdout=subprocess.PIPE, stderr=subprocess.STDOUT, timeout=FUZZ_SECONDS + 300)
        log = p.stdout.decode("utf-8", "replace")
    except subprocess.TimeoutExpired as e:
        log = (e.stdout or b"").decode("utf-8", "replace")
        run_.inconclusive.append({"phase": "fuzz", "why": "fuzzer did not stop in time"})
    stats = re.findall(r"^#(\d+): cov: (\d+) ft: (\d+) corp: (\d+)", log, flags=re.M)
    if stats:
        nexec, cov, ft, corp = map(int, stats[-1])
        run_.stats["fuzz.executions"] = nexec
        run_.stats["fuzz.coverage_edges"] = cov
        run_.stats["fuzz.corpus_units"] = corp
        run_.evaluations += nexec
    else:
        run_.errors.append("no progress line in the decode fuzzer log: %s" % log[-600:])
    arts = sorted(os.listdir(art))
    run_.stats["fuzz.artifacts"] = len(arts)
    confirmed = 0
    for name in arts[:200]:
        with open(os.path.join(art, name), "rb") as f:
            data = f.read()
        q = subprocess.run([vc, "fuzzcase", data.hex()], stdout=subprocess.PIPE, stderr=subprocess.PIPE)
        out = _parse_outcome(q.stdout)
        if out is None:
            # the uninstrumented harness itself died on this input: report it with what is known
            run_.violations.append({"signature": "fuzz-artifact-kills-harness", "what": "[found by the fuzzer] vc fuzzcase %s: rc=%s %s"
                                    % (data.hex()[:120], q.returncode, q.stderr[-300:].decode(errors="replace")),
                                    "replay": {"kind": "codec", "phase": "fuzz", "how_to": "%s fuzzcase %s" % (vc, data.hex())}})
            confirmed += 1
            continue
        for v in out["violations"]:
            confirmed += 1
            run_.violations.append({"signature": v["sig"], "what": "[found by the fuzzer] %s" % v["what"],
                                    "replay": {"kind": "codec", "phase": "fuzz", "how_to": "%s replay %s" % (vc, v["replay"])}})
    run_.stats["fuzz.artifacts_confirmed"] = confirmed
    phases["fuzz"] = {"wall_s": round(time.time() - t0, 1), "seconds": FUZZ_SECONDS, "processes": core.NPROC, "artifacts": arts[:10],
                      "note": "fork mode is not reproducible run to run; artifacts are re-judged deterministically by `vc fuzzcase`"}
    shutil.rmtree(work, ignore_errors=True)



def _compiler_reply_phase(run_, tier, seed, phases):
    """The last sentence of C11 - in the compiler a malformed generator reply becomes a diagnostic - observed where it is stated:
    the real binary is given generators whose replies are truncated at every byte, undecodable or announce absurd sizes (the
    reply part of C18's fault catalogue, same oracle: an E001 that names the generator, exit status 1, no crash, no hang, no
    files written from that reply)."""
    t0 = time.time()
    try:
        paths = build.build("release", ("slicec", "vh"))
    except build.BuildError as e:
        run_.errors.append("compiler build failed: %s" % e)
        return
    sub_run = core.run_shards("vlib.checks.c18", run_.prop, tier, seed, paths, [("replies", i, 8) for i in range(8)])
    for v in sub_run.violations:
        v["what"] = "[compiler: generator reply] " + v["what"]
    run_.violations.extend(sub_run.violations)
    run_.errors.extend(sub_run.errors)
    run_.inconclusive.extend(sub_run.inconclusive)
    run_.evaluations += sub_run.evaluations
    for k, v in sub_run.stats.items():
        run_.stats["compiler." + k] += v
    phases["compiler"] = {"evaluations": sub_run.evaluations, "wall_s": round(time.time() - t0, 1),
                          "counters": {k: v for k, v in sub_run.stats.items() if k in ("runs", "faults_injected", "healthy_outputs_verified")}}


def _miri_pass(run_, absorb, phases, sub, tier, label, flags, seed):
    t0 = time.time()
    pre, env, cwd = build.miri_cmd()
    env["MIRIFLAGS"] += flags
    # one warm-up invocation builds the interpreter sysroot / the crate once instead of 16 times concurrently
    w = subprocess.run(pre + ["warmup"], stdout=subprocess.PIPE, stderr=subprocess.PIPE, env=env, cwd=cwd)
    if b"usage: vc" not in w.stderr:
        run_.errors.append("%s warm-up failed: %s" % (label, w.stderr[-800:].decode(errors="replace")))
    else:
        def one(i):
            return i, subprocess.run(pre + [sub, "--tier", tier, "--seed", str(seed), "--scale", "miri", "--shard", str(i),
                                            "--shards", str(MIRI_SHARDS)], stdout=subprocess.PIPE, stderr=subprocess.PIPE,
                                     env=env, cwd=cwd)
        with ThreadPoolExecutor(MIRI_SHARDS) as ex:
            results = list(ex.map(one, range(MIRI_SHARDS)))
        for i, p in results:
            out = _parse_outcome(p.stdout)
            if p.returncode != 0 and (b"Undefined Behavior" in p.stderr or b"error: " in p.stderr) and out is None:
                sig = _miri_signature(p.stderr)
                if "resource exhaustion" in sig or "unsupported operation" in sig:
                    run_.inconclusive.append({"phase": label, "shard": i, "why": sig})
                    continue
                run_.stats[label + ".reports"] += 1
                tail = p.stderr.decode(errors="replace")
                idx = tail.find("error:")
                run_.violations.append({"signature": sig, "what": "[%s] %s" % (label, tail[idx:idx + 500]),
                                        "replay": {"kind": "codec", "phase": label, "stderr": tail[idx:idx + 6000],
                                                   "how_to": "cd %s && MIRIFLAGS='%s' %s %s --tier %s --seed %d --scale miri --shard %d --shards %d"
                                                   % (cwd, env["MIRIFLAGS"], " ".join(pre), sub, tier, seed, i, MIRI_SHARDS)}})
            elif p.returncode != 0 or out is None:
                run_.errors.append("%s shard %d failed: rc=%s %s" % (label, i, p.returncode, p.stderr[-600:].decode(errors="replace")))
            else:
                absorb(label, out, " ".join(pre))
                run_.stats[label + ".clean_shards"] += 1
    phases.setdefault(label, {})["wall_s"] = round(time.time() - t0, 1)


def run(prop, sub, tier, seed, rule, required, assumptions, exhaustive_note):
    run_ = core.Run(prop, tier, seed)
    paths = build.build("release", ("vc",))
    vc = paths["vc"]
    phases = {}

    def absorb(name, outcome, replay_prefix):
        ph = phases.setdefault(name, {"evaluations": 0, "counters": {}, "processes": 0})
        ph["evaluations"] += outcome["evaluations"]
        ph["processes"] += 1
        for k, v in outcome["counters"].items():
            ph["counters"][k] = ph["counters"].get(k, 0) + v
        run_.evaluations += outcome["evaluations"]
        for k, v in outcome["counters"].items():
            run_.stats["%s.%s" % (name, k)] += v
        run_.stats["%s.evaluations" % name] += outcome["evaluations"]
        for s in outcome["samples"]:
            if len(run_.samples) < 12:
                run_.samples.append("[%s] %s" % (name, s))
        for v in outcome["violations"]:
            run_.violations.append({"signature": v["sig"], "what": "[%s] %s" % (name, v["what"]),
                                    "replay": {"kind": "codec", "phase": name,
                                               "how_to": "%s replay %s" % (replay_prefix, v["replay"])}})

    # ---- native
    t0 = time.time()
    p = subprocess.run([vc, sub, "--tier", tier, "--seed", str(seed), "--threads", str(core.NPROC)],
                       stdout=subprocess.PIPE, stderr=subprocess.PIPE)
    out = _parse_outcome(p.stdout)
    native_nontrivial = 0
    if p.returncode in (-6, -11, -7, -4) and out is None:
        # the uninstrumented harness was killed by SIGABRT / SIGSEGV / SIGBUS / SIGILL: the harness itself is safe Rust, so this is
        # memory corruption in the code under test (glibc's "free(): invalid pointer", a wild write); the sanitizer phases below
        # say where. (SIGKILL - the OOM killer - stays a machinery error.)
        run_.stats["native.killed_by_signal"] += 1
        run_.violations.append({"signature": "native-harness-killed:signal-%d" % -p.returncode,
                                "what": "[native] the %s workload killed the uninstrumented harness with signal %d: %s"
                                % (sub, -p.returncode, p.stderr[-300:].decode(errors="replace").strip()),
                                "replay": {"kind": "codec", "phase": "native", "how_to": "%s %s --tier %s --seed %d --threads %d" % (vc, sub, tier, seed, core.NPROC),
                                           "stderr": p.stderr[-2000:].decode(errors="replace")}})
    elif p.returncode != 0 or out is None:
        run_.errors.append("native vc %s failed: rc=%s stderr=%s" % (sub, p.returncode, p.stderr[-800:].decode(errors="replace")))
        return core.finish(run_, "exploration", rule, required, assumptions)
    else:
        absorb("native", out, vc)
        native_nontrivial = out["nontrivial"]
    phases.setdefault("native", {})["wall_s"] = round(time.time() - t0, 1)

    # ---- AddressSanitizer (mid-size workload)
    t0 = time.time()
    try:
        asan = build.build_vc_asan()
        env = dict(os.environ)
        env["ASAN_OPTIONS"] = "halt_on_error=1:abort_on_error=1:allocator_may_return_null=1:detect_leaks=1"
        if any(v["signature"].startswith("cost-governed-by-announced-size") for v in run_.violations):
            env["VC_COST_BROKEN"] = "1"    # on record already; see c11.rs COST_BROKEN
        p = subprocess.run([asan, sub, "--tier", tier, "--seed", str(seed), "--threads", str(core.NPROC),
                            "--scale", "sanitizer"], stdout=subprocess.PIPE, stderr=subprocess.PIPE, env=env)
        out = _parse_outcome(p.stdout)
        if b"ERROR: AddressSanitizer" in p.stderr or b"ERROR: LeakSanitizer" in p.stderr:
            sig = _asan_signature(p.stderr)
            run_.stats["asan.reports"] += 1
            run_.violations.append({"signature": sig, "what": "[asan] AddressSanitizer report while running the %s workload: %s"
                                    % (sub, p.stderr[:400].decode(errors="replace")),
                                    "replay": {"kind": "codec", "phase": "asan", "stderr": p.stderr[:6000].decode(errors="replace"),
                                               "how_to": "ASAN_OPTIONS=%s %s %s --tier %s --seed %d --scale sanitizer"
                                               % (env["ASAN_OPTIONS"], asan, sub, tier, seed)}})
        elif p.returncode != 0 or out is None:
            run_.errors.append("asan vc %s failed without a report: rc=%s stderr=%s" % (sub, p.returncode, p.stderr[-800:].decode(errors="replace")))
        else:
            absorb("asan", out, asan)
            run_.stats["asan.clean_runs"] += 1
        phases.setdefault("asan", {})["wall_s"] = round(time.time() - t0, 1)
    except build.BuildError as e:
        run_.errors.append("ASan build failed: %s" % e)

    # ---- Miri (tiny workload, sharded over processes). Thorough: a second pass at another seed under the Tree Borrows aliasing
    # model with symbolic alignment checking (the default pass uses Stacked Borrows): a report under either model is a violation.
    passes = [("miri", "", seed)]
    if tier == "thorough":
        required = dict(required)
        required["miri-tree-borrows.clean_shards"] = MIRI_SHARDS
        passes.append(("miri-tree-borrows", " -Zmiri-tree-borrows -Zmiri-symbolic-alignment-check", seed + 1))
    for label, flags, mseed in passes:
        _miri_pass(run_, absorb, phases, sub, tier, label, flags, mseed)

    if sub == "c11":
        _compiler_reply_phase(run_, tier, seed, phases)
    if sub == "c11" and tier == "thorough":
        _fuzz_decode_phase(run_, vc, seed, phases)

    # distinct non-trivial cases: counted by the native run from enumerations that are distinct by construction
    run_.distinct_override = native_nontrivial
    run_.extra["phases"] = phases
    run_.extra["exhaustive_space"] = exhaustive_note
    return core.finish(run_, "exploration", rule, required, assumptions, exhaustive=True)
