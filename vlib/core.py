"""Shared runtime of all checks: process monitor, library-worker client, sharded execution, evidence, findings."""
import hashlib
import json
import multiprocessing
import os
import random
import re
import resource
import select
import shutil
import signal
import subprocess
import sys
import tempfile
import time
import traceback
from collections import Counter

from . import build

VERIF = build.VERIF
NPROC = int(os.environ.get("VERIF_JOBS", "16"))
T0 = time.time()

CPU_BOUND_S = 20.0          # the property's bound for <= 8 KiB of input (C01)
WATCHDOG_S = 90.0           # generous wall-clock watchdog: firing is *inconclusive* unless CPU time is over the bound
RSS_BOUND_KB = 1 << 20      # 1 GiB


# ---------------------------------------------------------------------------------------------------------------
# process-boundary monitor

class ProcResult:
    __slots__ = ("status", "signal", "stdout", "stderr", "cpu_s", "maxrss_kb", "wall_s", "timed_out")

    def __init__(self, **kw):
        for k, v in kw.items():
            setattr(self, k, v)

    def crashed(self):
        """Returns a description if the process ended in any way a compiler run must not end, else None."""
        if self.timed_out:
            return None
        if self.signal is not None:
            return "killed by signal %d" % self.signal
        err = self.stderr
        for needle in (b"panicked at", b"has overflowed its stack", b"fatal runtime error", b"RUST_BACKTRACE", b"AddressSanitizer"):
            if needle in err:
                return "stderr contains %r" % needle.decode()
        if self.status not in (0, 1, 2):
            return "exit status %d" % self.status
        return None

    def brief(self):
        return {"status": self.status, "signal": self.signal, "cpu_s": round(self.cpu_s, 3),
                "maxrss_kb": self.maxrss_kb, "timed_out": self.timed_out,
                "stderr_head": self.stderr[:600].decode(errors="replace"),
                "stdout_head": self.stdout[:300].decode(errors="replace")}


def run_proc(argv, cwd=None, env=None, stdin=b"", timeout=WATCHDOG_S, preexec=None):
    """Runs argv to completion, returns ProcResult with CPU time and peak RSS taken from wait4()."""
    out_f = tempfile.TemporaryFile()
    err_f = tempfile.TemporaryFile()
    t0 = time.time()
    full_env = dict(os.environ)
    full_env.pop("RUST_BACKTRACE", None)
    full_env.pop("CLICOLOR_FORCE", None)
    if env:
        full_env.update(env)
    p = subprocess.Popen(argv, cwd=cwd, env=full_env, stdin=subprocess.PIPE, stdout=out_f, stderr=err_f,
                         preexec_fn=preexec, start_new_session=True)
    try:
        if stdin:
            p.stdin.write(stdin)
        p.stdin.close()
    except BrokenPipeError:
        pass
    timed_out = False
    deadline = t0 + timeout
    ru = None
    while True:
        pid, st, ru = os.wait4(p.pid, os.WNOHANG)
        if pid != 0:
            break
        if time.time() > deadline:
            timed_out = True
            try:
                os.killpg(p.pid, signal.SIGKILL)
            except ProcessLookupError:
                pass
            pid, st, ru = os.wait4(p.pid, 0)
            break
        time.sleep(0.002 if time.time() - t0 < 0.5 else 0.02)
    p.returncode = 0  # reaped by us
    out_f.seek(0)
    err_f.seek(0)
    out, err = out_f.read(), err_f.read()
    out_f.close()
    err_f.close()
    sig = os.WTERMSIG(st) if os.WIFSIGNALED(st) else None
    status = os.WEXITSTATUS(st) if os.WIFEXITED(st) else None
    return ProcResult(status=status, signal=sig if not timed_out else None, stdout=out, stderr=err,
                      cpu_s=ru.ru_utime + ru.ru_stime, maxrss_kb=ru.ru_maxrss, wall_s=time.time() - t0,
                      timed_out=timed_out)


# ---------------------------------------------------------------------------------------------------------------
# library worker client

class WorkerDied(Exception):
    def __init__(self, how):
        super().__init__(how)
        self.how = how


class Worker:
    """One persistent `vh worker` process. A request that kills or hangs the worker is attributed to exactly the
    case in flight; the worker is then restarted."""

    def __init__(self, path, timeout=25.0):
        self.path = path
        self.timeout = timeout
        self.p = None
        self.buf = b""
        self.restarts = 0
        self.timeouts = 0       # a tree that hangs must not make the check itself run for hours: after 3 hangs
        self._start()           # the rest of the shard's cases are answered "timeout" without being run

    def _start(self):
        env = dict(os.environ)
        env.pop("RUST_BACKTRACE", None)
        env.pop("CLICOLOR_FORCE", None)
        self.errpath = None
        err = subprocess.DEVNULL
        if os.environ.get("VERIF_WORKER_STDERR_DIR"):
            # sanitizer builds: keep what the worker writes to stderr so that a report can be attached to the case in flight
            self.errpath = os.path.join(os.environ["VERIF_WORKER_STDERR_DIR"], "worker-%d-%d.err" % (os.getpid(), self.restarts))
            err = open(self.errpath, "wb")
        self.p = subprocess.Popen([self.path, "worker"], stdin=subprocess.PIPE, stdout=subprocess.PIPE,
                                  stderr=err, env=env, cwd="/")
        if err is not subprocess.DEVNULL:
            err.close()
        self.buf = b""

    def stderr_tail(self, n=20000):
        if not self.errpath:
            return b""
        try:
            with open(self.errpath, "rb") as f:
                data = f.read()
            return data[-n:]
        except OSError:
            return b""

    def close(self):
        if self.p:
            try:
                self.p.stdin.close()
            except Exception:
                pass
            try:
                self.p.kill()
            except Exception:
                pass
            self.p.wait()
            self.p = None

    def _restart(self):
        self.close()
        self.restarts += 1
        self._start()

    def _readline(self, deadline):
        fd = self.p.stdout.fileno()
        while True:
            nl = self.buf.find(b"\n")
            if nl >= 0:
                line, self.buf = self.buf[:nl], self.buf[nl + 1:]
                return line
            remaining = deadline - time.time()
            if remaining <= 0:
                raise WorkerDied("timeout")
            r, _, _ = select.select([fd], [], [], min(remaining, 1.0))
            if r:
                chunk = os.read(fd, 1 << 16)
                if not chunk:
                    self.p.wait()
                    rc = self.p.returncode
                    raise WorkerDied("signal %d" % -rc if rc < 0 else "exit %d" % rc)
                self.buf += chunk

    def _send(self, obj):
        data = (json.dumps(obj) + "\n").encode()
        try:
            self.p.stdin.write(data)
            self.p.stdin.flush()
        except (BrokenPipeError, OSError):
            pass  # death is noticed when reading

    def request(self, req):
        """Returns the response dict, or {"died": how} when the worker crashed / hung on this request."""
        if self.timeouts >= 3:
            return {"died": "timeout", "not_run": True}
        self._send(req)
        try:
            line = self._readline(time.time() + self.timeout)
            return json.loads(line)
        except WorkerDied as d:
            if d.how == "timeout":
                self.timeouts += 1
            tail = self.stderr_tail()
            self._restart()
            r = {"died": d.how}
            if tail:
                r["stderr_tail"] = tail.decode(errors="replace")
            return r

    def batch(self, cases, defaults=None):
        """Runs cases in order; returns a list of responses (same length). A case that kills the worker gets
        {"died": how}; the remaining cases are re-sent to a fresh worker."""
        results = [None] * len(cases)
        start = 0
        while start < len(cases):
            if self.timeouts >= 3:
                for i in range(start, len(cases)):
                    results[i] = {"died": "timeout", "not_run": True}
                break
            chunk = cases[start:]
            self._send({"op": "batch", "cases": chunk, "defaults": defaults or {}})
            done = 0
            try:
                while True:
                    line = self._readline(time.time() + self.timeout)
                    r = json.loads(line)
                    if "batch_end" in r:
                        break
                    results[start + r["i"]] = r
                    done = r["i"] + 1
                start = len(cases)
            except WorkerDied as d:
                results[start + done] = {"died": d.how}
                tail = self.stderr_tail()
                if tail:
                    results[start + done]["stderr_tail"] = tail.decode(errors="replace")
                start = start + done + 1
                if d.how == "timeout":
                    self.timeouts += 1
                self._restart()
        return results


# ---------------------------------------------------------------------------------------------------------------
# findings / violations

class Violation:
    def __init__(self, signature, what, replay):
        self.signature = signature   # identifies this failure and nothing else
        self.what = what             # one line for humans
        self.replay = replay         # dict, written to replays/<id>/...

    def to_json(self):
        return {"signature": self.signature, "what": self.what, "replay": self.replay}


def panic_signature(panic):
    """Signature of a panic: source file + message stem (digits and quoted text removed) - robust to line shifts."""
    loc = panic.get("location", "")
    f = loc.split(":")[0]
    f = re.sub(r"^.*?/(slicec|slice-codec)/src/", r"\1/src/", f)
    msg = panic.get("message", "")
    stem = re.sub(r"'[^']*'|\"[^\"]*\"|`[^`]*`|\d+", "_", msg)[:80]
    return "panic:%s:%s" % (f, stem)


def stderr_panic(stderr):
    """Extracts {"message","location"} from a binary's stderr, if it panicked."""
    m = re.search(rb"thread '.*?' (?:\(\d+\) )?panicked at ([^\n]*?):\n([^\n]*)", stderr)
    if m:
        return {"location": m.group(1).decode(errors="replace"), "message": m.group(2).decode(errors="replace")}
    if b"has overflowed its stack" in stderr:
        return {"location": "stack", "message": "stack overflow"}
    m = re.search(rb"SUMMARY: AddressSanitizer: (\S+) (\S+)(?: \(BuildId: \w+\))?(?: in ([^\n]+))?", stderr)
    if m:
        loc = m.group(2).decode(errors="replace")
        func = (m.group(3) or b"").decode(errors="replace").strip()
        if "/src/" in loc and not loc.startswith("("):
            loc = re.sub(r"^.*?/(slicec|slice-codec)/src/", r"\1/src/", loc)
            loc = re.sub(r":\d+(:\d+)?$", "", loc)
        else:
            # no line information: the function the report names identifies the site
            loc = re.sub(r"[^A-Za-z0-9_:<> ]+", "_", func)[:80] or "unknown"
        return {"location": loc, "message": "AddressSanitizer: " + m.group(1).decode(errors="replace")}
    return None


def load_known_findings():
    path = os.path.join(VERIF, "known_findings.json")
    try:
        with open(path) as f:
            return json.load(f)
    except FileNotFoundError:
        return []


# ---------------------------------------------------------------------------------------------------------------
# sharded execution

class Ctx:
    """Per-shard context handed to a check's run_shard()."""

    def __init__(self, prop, tier, seed, paths, profile="release"):
        self.prop = prop
        self.tier = tier
        self.seed = seed
        self.paths = paths
        self.profile = profile
        self.stats = Counter()
        self.violations = []
        self.samples = []
        self.nontrivial = set()
        self.inconclusive = []
        self.evaluations = 0
        self._worker = None
        self._tmp = None
        self.extra = {}

    def rng(self, stream):
        return random.Random("%d/%s/%s" % (self.seed, self.prop, stream))

    @property
    def worker(self):
        if self._worker is None:
            self._worker = Worker(self.paths["vh"])
        return self._worker

    def tmpdir(self):
        if self._tmp is None:
            self._tmp = tempfile.mkdtemp(prefix="verif-%s-" % self.prop, dir=scratch_root())
        return self._tmp

    def cleanup(self):
        if self._worker is not None:
            self.stats["worker_restarts"] += self._worker.restarts
            self._worker.close()
            self._worker = None
        if self._tmp is not None and not os.environ.get("VERIF_KEEP_SCRATCH"):
            shutil.rmtree(self._tmp, ignore_errors=True)

    def note_case(self, key, nontrivial=True):
        """Counts one evaluated case; `key` (any hashable/str) identifies it for distinct counting."""
        self.evaluations += 1
        if nontrivial:
            if not isinstance(key, (bytes, bytearray)):
                key = repr(key).encode()
            self.nontrivial.add(hashlib.blake2b(key, digest_size=8).digest())

    def sample(self, obj, limit=6):
        if len(self.samples) < limit:
            self.samples.append(obj)

    def violate(self, signature, what, replay):
        if len(self.violations) < 200:
            self.violations.append(Violation(signature, what, replay))
        self.stats["violations_raw"] += 1

    def run_slicec(self, args, cwd=None, env=None, timeout=WATCHDOG_S):
        return run_proc([self.paths["slicec"]] + list(args), cwd=cwd, env=env, timeout=timeout)


def link_tool(src, dst):
    """Places a helper binary (the fake generator) under another name. A hard link (or a copy) rather than a symbolic link: the
    name keeps pointing at the same file even if a concurrent build of the harness replaces the binary in the target directory."""
    try:
        os.link(src, dst)
    except OSError:
        shutil.copy2(src, dst)


def scratch_root():
    d = os.environ.get("VERIF_SCRATCH") or os.path.join(tempfile.gettempdir(), "verif-scratch")
    os.makedirs(d, exist_ok=True)
    return d


def _shard_entry(args):
    module_name, prop, tier, seed, paths, spec, profile = args
    import importlib
    mod = importlib.import_module(module_name)
    ctx = Ctx(prop, tier, seed, paths, profile)
    err = None
    t0 = time.time()
    try:
        mod.run_shard(ctx, spec)
    except Exception:
        err = traceback.format_exc()
    finally:
        ctx.cleanup()
    return {"stats": ctx.stats, "violations": [v.to_json() for v in ctx.violations], "samples": ctx.samples,
            "nontrivial": ctx.nontrivial, "inconclusive": ctx.inconclusive, "evaluations": ctx.evaluations,
            "error": err, "spec": spec if isinstance(spec, (str, int, tuple, list, dict)) else repr(spec),
            "wall": time.time() - t0, "extra": ctx.extra}


class Run:
    """Collects the merged outcome of all shards of one check run."""

    def __init__(self, prop, tier, seed):
        self.prop, self.tier, self.seed = prop, tier, seed
        self.stats = Counter()
        self.violations = []
        self.samples = []
        self.nontrivial = set()
        self.inconclusive = []
        self.evaluations = 0
        self.errors = []
        self.extra = {}
        self.t0 = time.time()

    def absorb(self, r):
        self.stats.update(r["stats"])
        self.violations.extend(r["violations"])
        for s in r["samples"]:
            fam = s.get("family") if isinstance(s, dict) else None
            same = sum(1 for t in self.samples if isinstance(t, dict) and t.get("family") == fam) if fam else 0
            if len(self.samples) < 16 and s not in self.samples and same < 2:
                self.samples.append(s)
        self.nontrivial |= r["nontrivial"]
        self.inconclusive.extend(r["inconclusive"])
        self.evaluations += r["evaluations"]
        if r["error"]:
            self.errors.append(r["error"])
        for k, v in r["extra"].items():
            if isinstance(v, list):
                self.extra.setdefault(k, []).extend(v)
            elif isinstance(v, dict):
                self.extra.setdefault(k, {}).update(v)
            else:
                self.extra[k] = v


def run_shards(module_name, prop, tier, seed, paths, specs, profile="release", jobs=None):
    run = Run(prop, tier, seed)
    jobs = jobs or NPROC
    args = [(module_name, prop, tier, seed, paths, s, profile) for s in specs]
    if jobs == 1 or len(specs) == 1:
        for a in args:
            run.absorb(_shard_entry(a))
    else:
        ctxm = multiprocessing.get_context("fork")
        with ctxm.Pool(min(jobs, len(specs))) as pool:
            for r in pool.imap_unordered(_shard_entry, args):
                run.absorb(r)
    return run


# ---------------------------------------------------------------------------------------------------------------
# evidence + verdict

def finish(run, level, rule, required=None, assumptions=None, exhaustive=None, extra_coverage=None):
    """Writes evidence/<id>.json, replays, prints the verdict lines, returns the exit code."""
    prop = run.prop
    known = [k for k in load_known_findings() if k.get("property") == prop]
    open_sigs = {k["signature"]: k for k in known if k.get("status") == "open"}

    # group violations by signature
    by_sig = {}
    for v in run.violations:
        by_sig.setdefault(v["signature"], []).append(v)

    new = {s: vs for s, vs in by_sig.items() if s not in open_sigs}
    seen_known = {s: vs for s, vs in by_sig.items() if s in open_sigs}

    # runs against a scratch copy of the repository (VERIF_REPO, used for seeded changes) never touch the evidence of /repo
    from . import build as _build
    outroot = VERIF if _build.tag() == "repo" else _build.tdir()
    rdir = os.path.join(outroot, "replays", prop)
    lines = []
    if new:
        os.makedirs(rdir, exist_ok=True)
    for sig, vs in sorted(new.items()):
        name = re.sub(r"[^A-Za-z0-9_.-]+", "_", sig)[:80] + "-" + hashlib.sha1(sig.encode()).hexdigest()[:8] + ".json"
        path = os.path.join(rdir, name)
        with open(path, "w") as f:
            json.dump({"property": prop, "tier": run.tier, "seed": run.seed, "signature": sig,
                       "count": len(vs), "what": vs[0]["what"], "replay": vs[0]["replay"],
                       "more": [v["replay"] for v in vs[1:4]]}, f, indent=1, default=str)
        lines.append("VIOLATION property=%s replay=%s" % (prop, path))
        sys.stderr.write("  [%s] %s: %s\n" % (prop, sig, vs[0]["what"]))

    for k in known:
        if k.get("status") == "open":
            seen = len(seen_known.get(k["signature"], []))
            print("KNOWN-FINDING: property=%s %s [signature=%s, observed %d time(s) in this run]"
                  % (prop, k["what"], k["signature"], seen))

    missing = []
    for name, minimum in (required or {}).items():
        if run.stats.get(name, 0) < minimum:
            missing.append("%s=%d<%d" % (name, run.stats.get(name, 0), minimum))

    distinct = getattr(run, "distinct_override", None)
    if distinct is None:
        distinct = len(run.nontrivial)
    coverage = {
        "evaluations": run.evaluations,
        "distinct_nontrivial": distinct,
        "rule": rule,
        "samples": run.samples[:16] or ["<none>"],
        "observed": dict(sorted(run.stats.items())),
        "inconclusive": len(run.inconclusive),
        "inconclusive_samples": run.inconclusive[:5],
        "known_findings_observed": {s: len(vs) for s, vs in seen_known.items()},
        "shard_errors": run.errors[:3],
    }
    if exhaustive is not None:
        coverage["exhaustive"] = bool(exhaustive)
    if extra_coverage:
        coverage.update(extra_coverage)
    for k, v in run.extra.items():
        coverage.setdefault(k, v)
    ev = {
        "property_id": prop, "tier": run.tier, "seed": run.seed, "level": level, "coverage": coverage,
        "assumptions": assumptions or [], "wall_s": round(time.time() - T0, 2), "violations": len(new),
    }
    os.makedirs(os.path.join(outroot, "evidence"), exist_ok=True)
    with open(os.path.join(outroot, "evidence", prop + ".json"), "w") as f:
        json.dump(ev, f, indent=1, default=str)

    for l in lines:
        print(l)
    print("[%s] tier=%s seed=%d evaluations=%d distinct_nontrivial=%d violations=%d known=%d inconclusive=%d wall=%.1fs"
          % (prop, run.tier, run.seed, run.evaluations, distinct, len(new), len(seen_known),
             len(run.inconclusive), time.time() - T0))
    if lines:
        return 1
    if run.errors:
        sys.stderr.write("check machinery error (not a violation):\n" + run.errors[0] + "\n")
        return 2
    if missing:
        sys.stderr.write("run observed too little to count (not a violation): %s\n" % ", ".join(missing))
        return 2
    if run.evaluations and len(run.inconclusive) > max(3, run.evaluations // 100):
        sys.stderr.write("too many inconclusive cases: %d\n" % len(run.inconclusive))
        return 2
    return 0
