"""Helpers for the checks that observe slicec together with (fake) generator processes: C07, C15, C18."""
import hashlib
import os
import re
import shutil

from . import core, wire


class GenCase:
    """One run of the real binary in a private directory with fake generators."""

    def __init__(self, ctx, root, name):
        self.ctx = ctx
        self.dir = os.path.join(root, name)
        self.log = os.path.join(self.dir, "_log")
        os.makedirs(self.log)
        self.generators = []    # (symlink name, behaviour)

    def write(self, rel, text, binary=False):
        path = os.path.join(self.dir, rel)
        os.makedirs(os.path.dirname(path), exist_ok=True)
        with open(path, "wb") as f:
            f.write(text if binary else text.encode("utf-8"))
        return rel

    def add_generator(self, behaviour, reply=None, tag=None, where=None):
        """behaviour: ok | exit1 | exit255 | sigkill | sigsegv | sigterm | stderr | stderrbin | noread | noreadfail | slow | killmid.
        reply: bytes written to stdout (None = empty). Returns the path to pass to -G (relative to the case dir)."""
        n = len(self.generators)
        name = "gen-%s-%s" % (behaviour, tag or str(n))
        d = os.path.join(self.dir, where) if where else self.dir
        os.makedirs(d, exist_ok=True)
        path = os.path.join(d, name)
        core.link_tool(self.ctx.paths["fakegen"], path)
        if reply is not None:
            with open(os.path.join(self.log, name + ".reply"), "wb") as f:
                f.write(reply)
        self.generators.append((name, behaviour))
        return os.path.join(where, name) if where else "./" + name

    def run(self, argv, env=None, timeout=60):
        e = {"FAKEGEN_LOG": self.log}
        if env:
            e.update(env)
        return self.ctx.run_slicec(argv, cwd=self.dir, env=e, timeout=timeout)

    def invoked(self):
        """{generator name: number of times it was started}"""
        out = {}
        for f in os.listdir(self.log):
            m = re.match(r"^(gen-[^.]+)\.(\d+)\.invoked$", f)
            if m:
                out[m.group(1)] = out.get(m.group(1), 0) + 1
        return out

    def stdin_of(self, name):
        for f in os.listdir(self.log):
            if f.startswith(name + ".") and f.endswith(".stdin"):
                with open(os.path.join(self.log, f), "rb") as fh:
                    return fh.read()
        return None

    def snapshot(self, rel="."):
        """{relative path: (inode, mtime_ns, sha1)} of every regular file below rel, the log and generator links excluded."""
        out = {}
        base = os.path.join(self.dir, rel)
        if not os.path.isdir(base):
            return out
        for dirpath, dirs, files in os.walk(base):
            if os.path.abspath(dirpath).startswith(os.path.abspath(self.log)):
                continue
            for f in files:
                p = os.path.join(dirpath, f)
                if os.path.islink(p):
                    continue
                st = os.stat(p)
                with open(p, "rb") as fh:
                    h = hashlib.sha1(fh.read()).hexdigest()
                out[os.path.relpath(p, self.dir)] = (st.st_ino, st.st_mtime_ns, h)
        return out

    def cleanup(self):
        if not os.environ.get("VERIF_KEEP_SCRATCH"):
            shutil.rmtree(self.dir, ignore_errors=True)


def count_errors(stderr, fmt):
    """Number of error diagnostics on the diagnostic stream."""
    text = stderr.decode("utf-8", "replace")
    if fmt == "json":
        return sum(1 for l in text.splitlines() if '"severity":"error"' in l)
    return len(re.findall(r"^error \[", text, flags=re.M))


def count_warnings(stderr, fmt):
    text = stderr.decode("utf-8", "replace")
    if fmt == "json":
        return sum(1 for l in text.splitlines() if '"severity":"warning"' in l)
    return len(re.findall(r"^warning \[", text, flags=re.M))


def reply_files(files):
    return wire.enc_reply(files)
