"""Reference parser / renderer for --generator specifications, written from the statement of C19 only.

  PATH,KEY=VALUE,...   ',' and '=' inside a component are escaped by a backslash; any other backslash is literal;
  components are trimmed; a key without '=' has an empty value; one trailing comma is ignored;
  empty path, empty key, or a second unescaped '=' in one argument (and the empty string) are rejected.
"""

# Unicode White_Space (what "whitespace" means for trimming)
WHITE = set([9, 10, 11, 12, 13, 0x20, 0x85, 0xA0, 0x1680, 0x2028, 0x2029, 0x202F, 0x205F, 0x3000] +
            list(range(0x2000, 0x200B)))


def trim(s):
    a, b = 0, len(s)
    while a < b and ord(s[a]) in WHITE:
        a += 1
    while b > a and ord(s[b - 1]) in WHITE:
        b -= 1
    return s[a:b]


def tokens(spec):
    """Yields ('c', ch) for literal characters and ('sep', ',') / ('eq', '=') for unescaped separators."""
    i, n = 0, len(spec)
    while i < n:
        c = spec[i]
        if c == "\\" and i + 1 < n and spec[i + 1] in ",=":
            yield ("c", spec[i + 1])
            i += 2
            continue
        if c == ",":
            yield ("sep", c)
        elif c == "=":
            yield ("eq", c)
        else:
            yield ("c", c)
        i += 1


def parse(spec):
    """Returns ("ok", path, [(key, value), ...]) or ("reject", reason)."""
    if spec == "":
        return ("reject", "empty specification")
    toks = list(tokens(spec))
    # one trailing (unescaped) comma is ignored
    if toks and toks[-1][0] == "sep":
        toks = toks[:-1]
    comps = [[]]
    for t in toks:
        if t[0] == "sep":
            comps.append([])
        else:
            comps[-1].append(t)
    path = trim("".join(ch for _, ch in comps[0]))  # '=' is an ordinary character in the path
    if path == "":
        return ("reject", "empty path")
    args = []
    for comp in comps[1:]:
        eqs = [i for i, t in enumerate(comp) if t[0] == "eq"]
        if len(eqs) > 1:
            return ("reject", "second unescaped '='")
        if eqs:
            key = "".join(ch for _, ch in comp[:eqs[0]])
            value = "".join(ch for _, ch in comp[eqs[0] + 1:])
        else:
            key, value = "".join(ch for _, ch in comp), ""
        key, value = trim(key), trim(value)
        if key == "":
            return ("reject", "empty key")
        args.append((key, value))
    return ("ok", path, args)


def escape(component):
    return component.replace(",", "\\,").replace("=", "\\=")


def render(path, args, rng=None, trailing_comma=False):
    """Renders path and pairs with every ',' and '=' inside a component escaped; optional random ASCII padding."""
    def pad(s):
        if rng is None:
            return s
        # ASCII and multi-byte White_Space: all of it is trimmed
        lead = ["", "", "", " ", "  ", "\t", "\u00a0", "\u0085", "\u3000", " \u2003", "\u00a0\u00a0", " \u0085", "\u2028", "\u1680 "]
        trail = ["", "", "", " ", "\t ", "\u00a0", "\u3000 ", "\u2029", "\u205f\u202f"]
        return rng.choice(lead) + s + rng.choice(trail)
    parts = [pad(escape(path))]
    for k, v in args:
        if v == "" and (rng is None or rng.random() < 0.5):
            parts.append(pad(escape(k)))
        else:
            parts.append(pad(escape(k)) + "=" + pad(escape(v)))
    s = ",".join(parts)
    if trailing_comma:
        s += ","
    return s
