"""Reference preprocessor, line-oriented, written from the statement of C06 (and the deliberate expression rules
named in its why_tests_cant: '&&' and '||' of equal precedence, left-associative; '!' only leading an expression).

preprocess(lines, defined) -> ("ok", selected) | ("malformed", reason)
  lines     list of strings without their line terminator
  defined   iterable of externally defined symbols
  selected  set of 1-based numbers of the non-directive lines that reach the parser
"""
import re

_WS = {chr(c) for c in [0x09, 0x0b, 0x0c, 0x0d, 0x20, 0x85, 0xa0, 0x1680, 0x2028, 0x2029, 0x202f, 0x205f, 0x3000] + list(range(0x2000, 0x200b))}


class Malformed(Exception):
    pass


def is_directive(line):
    for ch in line:
        if ch in _WS:
            continue
        return ch == "#"
    return False


def lex_directive(line):
    """Tokens of a directive line: [('kw', name), ('id', s), ('!',), ('&&',), ('||',), ('(',), (')',)]."""
    i = 0
    n = len(line)
    while i < n and line[i] in _WS:
        i += 1
    assert line[i] == "#"
    i += 1
    while i < n and line[i] in _WS:
        i += 1
    m = re.match(r"[A-Za-z0-9_]*", line[i:])
    kw = m.group(0)
    i += len(kw)
    if kw == "":
        raise Malformed("missing directive")
    if kw not in ("define", "undef", "if", "elif", "else", "endif"):
        raise Malformed("unknown directive " + kw)
    toks = [("kw", kw)]
    while i < n:
        ch = line[i]
        if ch in _WS:
            i += 1
        elif ch == "/":
            if i + 1 < n and line[i + 1] == "/":
                break
            raise Malformed("stray '/'")
        elif ch in "()!":
            toks.append((ch,))
            i += 1
        elif ch in "&|":
            if i + 1 < n and line[i + 1] == ch:
                toks.append((ch * 2,))
                i += 2
            else:
                raise Malformed("single " + ch)
        elif ch.isascii() and ch.isalpha():
            m = re.match(r"[A-Za-z][A-Za-z0-9_]*", line[i:])
            toks.append(("id", m.group(0)))
            i += len(m.group(0))
        else:
            raise Malformed("unknown symbol %r" % ch)
    return toks


def parse_expr(toks, pos):
    """expr := ['!'] term { ('&&'|'||') term } ; term := id | '(' expr ')'. Returns (tree, pos)."""
    def term(p):
        if p >= len(toks):
            raise Malformed("expression expected")
        t = toks[p]
        if t[0] == "id":
            return ("sym", t[1]), p + 1
        if t[0] == "(":
            e, p2 = parse_expr(toks, p + 1)
            if p2 >= len(toks) or toks[p2][0] != ")":
                raise Malformed("')' expected")
            return e, p2 + 1
        raise Malformed("term expected")

    if pos < len(toks) and toks[pos][0] == "!":
        t, pos = term(pos + 1)
        tree = ("not", t)
    else:
        tree, pos = term(pos)
    while pos < len(toks) and toks[pos][0] in ("&&", "||"):
        op = toks[pos][0]
        t, pos = term(pos + 1)
        tree = (op, tree, t)
    return tree, pos


def evaluate(tree, defined):
    k = tree[0]
    if k == "sym":
        return tree[1] in defined
    if k == "not":
        return not evaluate(tree[1], defined)
    if k == "&&":
        return evaluate(tree[1], defined) and evaluate(tree[2], defined)
    return evaluate(tree[1], defined) or evaluate(tree[2], defined)


def parse_directive(line):
    toks = lex_directive(line)
    kw = toks[0][1]
    rest = toks[1:]
    if kw in ("define", "undef"):
        if len(rest) != 1 or rest[0][0] != "id":
            raise Malformed("%s needs exactly one symbol" % kw)
        return (kw, rest[0][1])
    if kw in ("if", "elif"):
        tree, pos = parse_expr(toks, 1)
        if pos != len(toks):
            raise Malformed("tokens after expression")
        return (kw, tree)
    if rest:
        raise Malformed("tokens after #%s" % kw)
    return (kw,)


def preprocess(lines, defined):
    defined = set(defined)
    selected = set()
    # frames: [parent_active, any_branch_taken, this_branch_active, seen_else]
    stack = []
    try:
        parsed = [parse_directive(l) if is_directive(l) else None for l in lines]
    except Malformed as e:
        return ("malformed", str(e))
    # structure first (syntax is independent of which regions are selected)
    depth = []
    for d in parsed:
        if d is None:
            continue
        if d[0] == "if":
            depth.append(False)
        elif d[0] == "elif":
            if not depth or depth[-1]:
                return ("malformed", "#elif without #if or after #else")
        elif d[0] == "else":
            if not depth or depth[-1]:
                return ("malformed", "#else without #if or repeated")
            depth[-1] = True
        elif d[0] == "endif":
            if not depth:
                return ("malformed", "#endif without #if")
            depth.pop()
    if depth:
        return ("malformed", "unterminated #if")

    def active():
        return all(f[2] for f in stack)

    for number, (line, d) in enumerate(zip(lines, parsed), start=1):
        if d is None:
            if active() and line.strip(''.join(_WS)) != "":
                selected.add(number)
            continue
        k = d[0]
        if k == "define":
            if active():
                defined.add(d[1])
        elif k == "undef":
            if active():
                defined.discard(d[1])
        elif k == "if":
            parent = active()
            cond = parent and evaluate(d[1], defined)
            stack.append([parent, cond, cond, False])
        elif k == "elif":
            f = stack[-1]
            if f[0] and not f[1] and evaluate(d[1], defined):
                f[1] = True
                f[2] = True
            else:
                f[2] = False
        elif k == "else":
            f = stack[-1]
            f[2] = f[0] and not f[1]
            f[1] = True
            f[3] = True
        elif k == "endif":
            stack.pop()
    return ("ok", selected)
