"""Builds, from the model, what the AST dump of the worker must say (C02/C03), and compares the two field by field."""
from . import resolve
from .model import Alias, Custom, Enum, Enumerator, Field, Interface, Operation, Param, Struct


def exp_attr(a):
    d = {"directive": a.directive}
    if a.directive == "allow":
        d["kind"] = "allow"
        d["args"] = list(a.args)
    elif a.directive in ("compress", "slicedFormat"):
        d["kind"] = a.directive
        d["args"] = {"args": "Args" in a.args, "return": "Return" in a.args}
    elif a.directive == "deprecated":
        d["kind"] = "deprecated"
        d["args"] = {"reason": a.args[0] if a.args else None}
    elif a.directive == "oneway":
        d["kind"] = "oneway"
        d["args"] = []
    else:
        d["kind"] = "unparsed"
        d["args"] = list(a.args)
    return d


def exp_attrs(attrs):
    return [exp_attr(a) for a in attrs]


class Ctx:
    def __init__(self, prog):
        self.prog = prog
        self.table = prog.table()


def exp_type(ctx, t, module, parser_scope=None):
    """Expected dump of a type reference written as TypeExpr t inside `module`."""
    out = {"optional": t.optional, "scope": {"module": module}}
    own = exp_attrs(t.attrs)
    carried = []
    if t.kind == "prim":
        out["def"] = {"primitive": t.name}
    elif t.kind == "seq":
        out["def"] = {"sequence": exp_type(ctx, t.args[0], module)}
    elif t.kind == "dict":
        out["def"] = {"dictionary": [exp_type(ctx, t.args[0], module), exp_type(ctx, t.args[1], module)]}
    elif t.kind == "result":
        out["def"] = {"result": [exp_type(ctx, t.args[0], module), exp_type(ctx, t.args[1], module)]}
    else:
        target = resolve.lookup(ctx.table, t.name, module)
        if isinstance(target, Alias):
            final, carried_attrs, chain = resolve.flatten_alias(ctx.table, target)
            carried = exp_attrs(carried_attrs)
            owner = chain[-1]
            if final.kind == "named":
                real = resolve.lookup(ctx.table, final.name, owner.module)
                out["def"] = {_kind_key(real): real.scoped()}
            else:
                # the anonymous / primitive type written in the last alias of the chain (its own attributes are the carried
                # ones; its optional flag never applies: aliases of optionals are illegal)
                inner = exp_type(ctx, final, owner.module)
                out["def"] = inner["def"]
        else:
            out["def"] = {_kind_key(target): target.scoped()}
    out["attrs_own"] = own
    out["attrs_carried"] = carried
    return out


def _kind_key(e):
    return {Struct: "struct", Enum: "enum", Custom: "custom", Interface: "interface"}[type(e)]


def exp_tag(lit):
    return None if lit is None else {"value": lit.value}


def exp_field(ctx, f):
    return {"kind": "field", "id": f.id, "psid": f.scoped(), "tag": exp_tag(f.tag), "type": exp_type(ctx, f.type, f.module),
            "attrs": exp_attrs(f.attrs), "parent": {"psid": f.parent.scoped()}, "lookup": "ok",
            "scope": {"parser": f.parent.scoped(), "module": f.module}}


def exp_param(ctx, p):
    d = {"kind": "parameter", "tag": exp_tag(p.tag), "streamed": p.streamed, "type": exp_type(ctx, p.type, p.module),
         "attrs": exp_attrs(p.attrs), "parent": {"psid": p.parent.scoped()}, "scope": {"parser": p.parent.scoped(), "module": p.module}}
    if not p.unnamed:
        d["id"] = p.id
        d["psid"] = p.scoped()
    return d


def exp_def(ctx, d):
    base = {"id": d.id, "psid": d.scoped(), "msid": d.scoped(), "attrs": exp_attrs(d.attrs), "lookup": "ok",
            "scope": {"parser": d.module, "module": d.module}}
    if isinstance(d, Struct):
        base.update(kind="struct", compact=d.compact, fields=[exp_field(ctx, f) for f in d.fields])
    elif isinstance(d, Interface):
        bases = []
        for b in d.bases:
            target = resolve.lookup(ctx.table, b.name, d.module)
            bases.append({"def": {"interface": target.scoped()}, "optional": b.optional, "attrs": exp_attrs(b.attrs)})
        ops = []
        for o in d.operations:
            ops.append({"kind": "operation", "id": o.id, "psid": o.scoped(), "idempotent": o.idempotent,
                        "params": [exp_param(ctx, p) for p in o.params], "returns": [exp_param(ctx, p) for p in o.returns],
                        "attrs": exp_attrs(o.attrs), "parent": {"psid": d.scoped()}, "lookup": "ok",
                        "scope": {"parser": d.scoped(), "module": d.module}})
        base.update(kind="interface", bases=bases, operations=ops)
    elif isinstance(d, Enum):
        ens = []
        for e in d.enumerators:
            ens.append({"kind": "enumerator", "id": e.id, "psid": e.scoped(), "value": str(e.computed), "explicit": e.value is not None,
                        "fields": None if e.fields is None else [exp_field(ctx, f) for f in e.fields],
                        "attrs": exp_attrs(e.attrs), "parent": {"psid": d.scoped()}, "lookup": "ok"})
        under = None
        if d.underlying is not None:
            under = {"def": {"primitive": d.underlying.name}, "optional": d.underlying.optional, "attrs": exp_attrs(d.underlying.attrs)}
        base.update(kind="enum", compact=d.compact, unchecked=d.unchecked, underlying=under, enumerators=ens)
    elif isinstance(d, Custom):
        base.update(kind="custom")
    elif isinstance(d, Alias):
        base.update(kind="alias", underlying=exp_type(ctx, d.underlying, d.module))
    return base


def exp_file(ctx, f, index):
    return {"path": "string-%d" % index, "module": {"id": f.module, "attrs": exp_attrs(f.module_attrs)},
            "attrs": exp_attrs(f.attrs), "contents": [exp_def(ctx, d) for d in f.defs]}


def exp_program(prog):
    ctx = Ctx(prog)
    return [exp_file(ctx, f, i) for i, f in enumerate(prog.files)]


# ---------------------------------------------------------------------------------------------------------------
# comparison: every key present in `expected` must match `actual`; lists must have the same length.

def strip_attr(a):
    return {"directive": a["directive"], "kind": a["kind"], "args": a["args"]}


def diff(expected, actual, path="", out=None):
    if out is None:
        out = []
    if len(out) > 8:
        return out
    if isinstance(expected, dict):
        if not isinstance(actual, dict):
            out.append("%s: expected an object, got %r" % (path, _short(actual)))
            return out
        for k, v in expected.items():
            if k == "attrs_own":
                # the use site's own attributes first, in order, then the carried ones in any order
                got = [strip_attr(a) for a in actual.get("attrs", [])]
                own = v
                carried = expected.get("attrs_carried", [])
                if got[:len(own)] != own:
                    out.append("%s.attrs: own attributes %r, got %r" % (path, own, got))
                elif sorted(map(repr, got[len(own):])) != sorted(map(repr, carried)):
                    out.append("%s.attrs: carried attributes %r, got %r" % (path, carried, got[len(own):]))
                continue
            if k == "attrs_carried":
                continue
            if k == "attrs":
                got = [strip_attr(a) for a in actual.get("attrs", [])]
                if got != v:
                    out.append("%s.attrs: expected %r, got %r" % (path, v, got))
                continue
            if k not in actual:
                out.append("%s.%s: missing in AST dump" % (path, k))
                continue
            diff(v, actual[k], path + "." + k, out)
    elif isinstance(expected, list):
        if not isinstance(actual, list):
            out.append("%s: expected a list, got %r" % (path, _short(actual)))
            return out
        if len(expected) != len(actual):
            out.append("%s: expected %d elements %r, got %d %r" % (path, len(expected), _names(expected), len(actual), _names(actual)))
            return out
        for i, (e, a) in enumerate(zip(expected, actual)):
            diff(e, a, "%s[%d]" % (path, i), out)
    else:
        if expected != actual:
            out.append("%s: expected %r, got %r" % (path, expected, _short(actual)))
    return out


def _short(x):
    s = repr(x)
    return s if len(s) < 160 else s[:160] + "..."


def _names(lst):
    return [x.get("id", x.get("kind", "?")) if isinstance(x, dict) else x for x in lst][:8]
