"""Valid-by-construction random Slice programs (model objects). Every language rule of C04's statement is respected."""
from . import resolve
from .model import (INTEGRAL_BOUNDS, PRIMITIVES, Alias, Attr, Custom, Enum, Enumerator, Field, File, IntLit, Interface,
                    Operation, Param, Program, Struct, TypeExpr)

MODULE_POOL = ["A", "A::B", "A::B::C", "A::D", "Z"]
# identifiers: collide with keywords (must be escaped by the printer) and with each other across scopes;
# never a module segment name and never a primitive keyword
IDENTS = ["S", "T", "U", "V", "W", "Node", "Item", "Kind", "struct", "tag", "Sequence", "module", "stream", "custom", "enum",
          "interface", "compact", "idempotent", "Result", "Dictionary", "typealias", "unchecked", "x", "y", "value", "data", "id",
          "Xa", "x_1", "Q9", "returnValue", "string", "int32", "bool", "uint8", "float64", "varint62"]
INTEGRALS = list(INTEGRAL_BOUNDS)
KEY_PRIMS = INTEGRALS + ["bool", "string"]


def int_literal(rng, value):
    """The literal for `value` in a random base, with underscores (value may be negative: sign is separate)."""
    mag = abs(value)
    form = rng.random()
    if form < 0.55:
        digits = str(mag)
    elif form < 0.8:
        digits = "0x" + (format(mag, "X") if rng.random() < 0.5 else format(mag, "x"))
    else:
        digits = "0b" + format(mag, "b")
    if rng.random() < 0.3 and len(digits) > 3:
        # underscores anywhere after the first character of the digits proper
        start = 2 if digits[:2] in ("0x", "0b") else 0
        body = digits[start:]
        k = rng.randrange(1, len(body)) if len(body) > 1 else None
        if k:
            digits = digits[:start] + body[:k] + "_" + body[k:]
    return IntLit(value, ("-" if value < 0 else "") + digits)


class Gen:
    def __init__(self, rng, max_files=3, max_defs=6, max_members=5, type_depth=3, comments=False, deprecated=False,
                 single_module=None):
        self.rng = rng
        self.max_files = max_files
        self.max_defs = max_defs
        self.max_members = max_members
        self.type_depth = type_depth
        self.comments = comments
        self.deprecated = deprecated
        self.single_module = single_module
        self.defs = []          # all definitions in creation (= rank) order
        self.used_names = {}    # module -> set of names
        self.op_names = set()
        self.valid_key = {}     # definition -> bool

    # ---- names
    def fresh(self, module, pool=IDENTS):
        used = self.used_names.setdefault(module, set())
        for _ in range(50):
            n = self.rng.choice(pool)
            if n not in used:
                used.add(n)
                return n
        n = "N%d" % len(used)
        used.add(n)
        return n

    def member_names(self, k):
        names = []
        for _ in range(k):
            for _ in range(40):
                n = self.rng.choice(IDENTS)
                if n not in names:
                    names.append(n)
                    break
        return names

    # ---- attributes
    def foreign_attr(self):
        rng = self.rng
        # the last five end (or begin) with the name of a built-in attribute: they are foreign all the same, and are kept verbatim
        directive = rng.choice(["cs::type", "x::y", "foo::bar::baz", "rust::struct", "a::tag", "cs::type", "x::y", "foo::bar::baz",
                                "x::allow", "cs::deprecated", "foo::oneway", "a::b::compress", "my::slicedFormat", "allow::x", "deprecated::tag"])
        n = rng.choice([0, 0, 1, 1, 2, 3])
        args, quoted = [], []
        for _ in range(n):
            if rng.random() < 0.4:
                args.append(rng.choice(["a", "Args", "struct", "tag", "x_1", "module", "int32"]))
                quoted.append(False)
            else:
                args.append(rng.choice(["hello world", "a\"b", "back\\slash", "[x]", "// not a comment", "/* nor this */", "é中文",
                                        "", "]", "a,b", "(", "tab\there", "q'q", "\\\"both\\\"",
                                        # escapes and multi-byte characters in every order
                                        "quote \"na\u00efve\" \U0001F600", "\u00e9\"\u00e9", "\\\u4e2d\u6587\\", "\U0001F600\"\U0001F600\\\U0001F600",
                                        "\"\u20ac", "\u20ac\\", "a\\b\u00e9\"c\U0001F600"]))
                quoted.append(True)
        return Attr(directive, args, quoted)

    def attrs_for(self, where):
        """Legal attributes for a position: 'file','module','struct','field','interface','operation','parameter','enum',
        'enumerator','custom','alias','typeref'. `op` context is passed through where=('operation', has_return)."""
        rng = self.rng
        out = []
        if rng.random() < 0.6:
            return out
        has_return = None
        if isinstance(where, tuple):
            where, has_return = where
        for _ in range(rng.choice([1, 1, 2, 3])):
            r = rng.random()
            if r < 0.5:
                out.append(self.foreign_attr())
            elif r < 0.7 and where not in ("module", "typeref"):
                lints = [l for l in ["All", "Deprecated", "MalformedDocComment", "IncorrectDocComment", "BrokenDocLink"]]
                out.append(Attr("allow", rng.sample(lints, rng.choice([1, 1, 2]))))
            elif r < 0.8 and where == "operation" and not any(a.directive == "compress" for a in out):
                out.append(Attr("compress", rng.choice([["Args"], ["Return"], ["Args", "Return"], ["Return", "Args"], ["Args", "Args"]])))
            elif r < 0.9 and where == "operation" and not any(a.directive == "slicedFormat" for a in out):
                out.append(Attr("slicedFormat", rng.choice([["Args"], ["Return"], ["Args", "Return"]])))
            elif r < 0.95 and where == "operation" and has_return is False and not any(a.directive == "oneway" for a in out):
                out.append(Attr("oneway", []))
            elif self.deprecated and where in ("struct", "enum", "custom", "alias", "interface", "field", "operation", "enumerator") \
                    and not any(a.directive == "deprecated" for a in out):
                out.append(Attr("deprecated", rng.choice([[], ["use something else"], ["a \"quoted\" reason"]])))
        return out

    # ---- types
    def named_candidates(self, max_rank, key=False):
        out = []
        for i, d in enumerate(self.defs):
            if i >= max_rank:
                break
            if isinstance(d, Interface):
                continue
            if key and not self.valid_key.get(d, False):
                continue
            out.append(d)
        return out

    def named_ref(self, target, from_module):
        """A spelling that designates `target` from `from_module` under the reference resolver."""
        table = self.table_cache
        options = [s for s in resolve.spellings_for(target) if resolve.lookup(table, s, from_module) is target]
        t = TypeExpr("named", self.rng.choice(options))
        t.target = target
        return t

    def type_expr(self, from_module, max_rank, depth=0, key=False, allow_optional=True, anon_ok=True):
        rng = self.rng
        r = rng.random()
        t = None
        if key:
            cands = self.named_candidates(max_rank, key=True)
            if cands and r < 0.4:
                t = self.named_ref(rng.choice(cands), from_module)
            else:
                t = TypeExpr("prim", rng.choice(KEY_PRIMS))
            if rng.random() < 0.2:
                t.attrs = [self.foreign_attr()]
            return t
        cands = self.named_candidates(max_rank)
        if r < 0.35 or (depth >= self.type_depth):
            if cands and rng.random() < 0.45:
                t = self.named_ref(rng.choice(cands), from_module)
            else:
                t = TypeExpr("prim", rng.choice(PRIMITIVES))
        elif r < 0.6 and cands:
            t = self.named_ref(rng.choice(cands), from_module)
        elif not anon_ok:
            t = TypeExpr("prim", rng.choice(PRIMITIVES))
        elif r < 0.75:
            t = TypeExpr("seq", args=[self.type_expr(from_module, max_rank, depth + 1)])
        elif r < 0.9:
            t = TypeExpr("dict", args=[self.type_expr(from_module, max_rank, depth + 1, key=True),
                                       self.type_expr(from_module, max_rank, depth + 1)])
        else:
            t = TypeExpr("result", args=[self.type_expr(from_module, max_rank, depth + 1),
                                         self.type_expr(from_module, max_rank, depth + 1)])
        if allow_optional and rng.random() < 0.25:
            t.optional = True
        if rng.random() < 0.15:
            t.attrs = [self.foreign_attr() for _ in range(rng.choice([1, 1, 2]))]
        return t

    def is_optional_through_alias(self, t):
        return t.optional

    # ---- members
    def members(self, cls, from_module, max_rank, compact, k=None, allow_stream=False):
        rng = self.rng
        k = rng.randint(0, self.max_members) if k is None else k
        names = self.member_names(k)
        out = []
        used_tags = set()
        for i, n in enumerate(names):
            t = self.type_expr(from_module, max_rank)
            tag = None
            if not compact and rng.random() < 0.3:
                t.optional = True
                v = rng.choice([0, 1, 2, 3, 7, 100, 2 ** 31 - 1, rng.randrange(2 ** 31)])
                if v not in used_tags:
                    used_tags.add(v)
                    tag = int_literal(rng, v)
            if cls is Field:
                m = Field(n, t, tag, self.attrs_for("field"))
            else:
                streamed = allow_stream and i == len(names) - 1 and rng.random() < 0.3
                if streamed:
                    tag = None
                m = Param(n, t, tag, streamed, self.attrs_for("parameter"))
            out.append(m)
        return out

    # ---- definitions
    def make_struct(self, module, rank):
        compact = self.rng.random() < 0.3
        k = self.rng.randint(1 if compact else 0, self.max_members)
        if compact and self.rng.random() < 0.5:
            # a compact struct made of key-able fields (usable as dictionary key)
            fields = []
            for n in self.member_names(k):
                fields.append(Field(n, self.type_expr(module, rank, key=True), None, self.attrs_for("field")))
            s = Struct(self.fresh(module), fields, True, self.attrs_for("struct"))
            self.valid_key[s] = True
            return s
        s = Struct(self.fresh(module), self.members(Field, module, rank, compact, k), compact, self.attrs_for("struct"))
        self.valid_key[s] = False
        return s

    def make_enum(self, module, rank):
        rng = self.rng
        r = rng.random()
        unchecked = rng.random() < 0.3
        if r < 0.5:
            under = rng.choice(INTEGRALS)
            lo, hi = INTEGRAL_BOUNDS[under]
            ut = TypeExpr("prim", under)
            if rng.random() < 0.1:
                ut.attrs = [self.foreign_attr()]
            compact = False
            with_fields = False
        else:
            ut = None
            lo, hi = 0, 2 ** 31 - 1
            compact = (not unchecked) and rng.random() < 0.3
            with_fields = True
        n = rng.randint(0 if unchecked else 1, self.max_members)
        names = self.member_names(n)
        used = set()
        prev = None
        ens = []
        for name in names:
            implicit = 0 if prev is None else prev + 1
            explicit = rng.random() < 0.4 or implicit in used or implicit > hi or implicit < lo
            value = None
            if explicit:
                for _ in range(100):
                    v = rng.choice([lo, hi, 0, 1, lo + 1, hi - 1, rng.randint(lo, hi), rng.randint(max(lo, -300), min(hi, 300))])
                    if v not in used:
                        break
                else:
                    continue
                if v in used:
                    continue
                value = int_literal(rng, v)
                cur = v
            else:
                cur = implicit
            used.add(cur)
            prev = cur
            fields = None
            if with_fields and rng.random() < 0.4:
                fields = self.members(Field, module, rank, compact, rng.randint(0, 3))
            ens.append(Enumerator(name, value, fields, self.attrs_for("enumerator")))
        if not ens and not unchecked:
            ens.append(Enumerator(names[0] if names else "Only", None, None))
        e = Enum(self.fresh(module), ens, ut, compact, unchecked, self.attrs_for("enum"))
        self.valid_key[e] = ut is not None
        return e

    def make_interface(self, module, rank):
        rng = self.rng
        earlier = [d for d in self.defs if isinstance(d, Interface)]
        bases = []
        for b in rng.sample(earlier, min(len(earlier), rng.choice([0, 0, 1, 1, 2]))):
            t = self.named_ref(b, module)
            bases.append(t)
        ops = []
        for _ in range(rng.randint(0, 3)):
            for _ in range(50):
                name = rng.choice(IDENTS) if rng.random() < 0.5 else "op%d" % rng.randrange(1000)
                if name not in self.op_names:
                    break
            else:
                continue
            self.op_names.add(name)
            params = self.members(Param, module, 10 ** 9, False, rng.randint(0, 3), allow_stream=True)
            shape = rng.random()
            returns, tuple_ = [], False
            if shape < 0.35:
                pass
            elif shape < 0.65:
                t = self.type_expr(module, 10 ** 9)
                tag = None
                if rng.random() < 0.2:
                    t.optional = True
                    tag = int_literal(rng, rng.choice([0, 5, 2 ** 31 - 1]))
                returns = [Param("returnValue", t, tag, rng.random() < 0.2, [], unnamed=True)]
            else:
                returns = self.members(Param, module, 10 ** 9, False, rng.randint(2, 3), allow_stream=True)
                tuple_ = True
            ops.append(Operation(name, params, returns, tuple_, rng.random() < 0.3,
                                 self.attrs_for(("operation", bool(returns)))))
        i = Interface(self.fresh(module), ops, bases, self.attrs_for("interface"))
        return i

    def make_alias(self, module, rank):
        t = self.type_expr(module, rank, allow_optional=False)
        t.optional = False
        a = Alias(self.fresh(module), t, self.attrs_for("alias"))
        # key-able if it designates a key-able type (non-optional by construction)
        self.valid_key[a] = self._keyable(t)
        return a

    def _keyable(self, t):
        if t.optional:
            return False
        if t.kind == "prim":
            return t.name in KEY_PRIMS
        if t.kind == "named":
            return self.valid_key.get(t.target, False)
        return False

    def make_custom(self, module, rank):
        c = Custom(self.fresh(module), self.attrs_for("custom"))
        self.valid_key[c] = True
        return c

    # ---- program
    def program(self):
        rng = self.rng
        nfiles = rng.randint(1, self.max_files)
        if self.single_module:
            modules = [self.single_module] * nfiles
        else:
            base = rng.choice(MODULE_POOL)
            modules = [rng.choice([base, base, rng.choice(MODULE_POOL)]) for _ in range(nfiles)]
        # decide how many definitions each file gets; definitions are created in global rank order but placed in files
        # in an independent order, so that references point forwards, backwards and across files
        plan = []
        for fi in range(nfiles):
            for _ in range(rng.randint(0 if nfiles > 1 else 1, self.max_defs)):
                plan.append(fi)
        rng.shuffle(plan)
        per_file = [[] for _ in range(nfiles)]
        self.table_cache = {}
        for m in modules:
            self.table_cache.setdefault(m, ("module", m))
        makers = [self.make_struct, self.make_struct, self.make_enum, self.make_enum, self.make_interface, self.make_alias,
                  self.make_custom]
        for rank, fi in enumerate(plan):
            module = modules[fi]
            d = rng.choice(makers)(module, rank)
            d.module = module
            from .model import _set_module, _add
            _set_module(d, module)
            self.defs.append(d)
            _add(self.table_cache, d)
            per_file[fi].append(d)
        files = []
        for fi in range(nfiles):
            rng.shuffle(per_file[fi])
            f = File(modules[fi], per_file[fi], self.attrs_for("file"), self.attrs_for("module"))
            files.append(f)
        prog = Program(files)
        self.respell(prog)
        return prog

    def respell(self, prog):
        """Definitions added later may shadow a spelling chosen earlier: re-check every named reference against the
        final table and respell the ones that no longer designate their target."""
        table = prog.table()
        for t, module in all_type_exprs(prog):
            if t.kind == "named" and t.target is not None:
                if resolve.lookup(table, t.name, module) is not t.target:
                    options = [s for s in resolve.spellings_for(t.target) if resolve.lookup(table, s, module) is t.target]
                    t.name = self.rng.choice(options)


def all_type_exprs(prog):
    """Yields (TypeExpr, module) for every type expression in the program, nested ones included."""
    def walk(t, module):
        yield t, module
        for a in t.args:
            yield from walk(a, module)

    def ent(e):
        from .model import Alias as A, Enum as E, Field as F, Interface as I, Param as P, children
        if isinstance(e, (F, P)):
            yield from walk(e.type, e.module)
        if isinstance(e, A):
            yield from walk(e.underlying, e.module)
        if isinstance(e, I):
            for b in e.bases:
                yield from walk(b, e.module)
        if isinstance(e, E) and e.underlying is not None:
            yield from walk(e.underlying, e.module)
        for c in children(e):
            yield from ent(c)

    for f in prog.files:
        for d in f.defs:
            yield from ent(d)


def valid_program(rng, **kw):
    return Gen(rng, **kw).program()


# ---------------------------------------------------------------------------------------------------------------
# doc comments (well-formed ones; the defect catalogue lives with C16)

WORDS = ["the", "value", "of", "this", "element;", "see", "also:", "(optional)", "é", "中文", "x=1", "a-b", "100%", "q.", "it's",
         "#tag", "a{b", "c}d", "semi;colon", "under_score", "\U0001F600"]


def linkable_entities(prog):
    from .model import Param, children
    out = []

    def walk(e):
        if not isinstance(e, Param):
            out.append(e)
        for c in children(e):
            walk(c)
    for f in prog.files:
        for d in f.defs:
            walk(d)
    return out


def link_to(rng, table, source, target):
    """A Link whose spelling designates `target` when searched outward from `source`'s own scoped name."""
    from .model import Link
    full = target.scoped()
    parts = full.split("::")
    cands = ["::" + full] + ["::".join(parts[i:]) for i in range(len(parts))]
    good = [s for s in cands if resolve.lookup(table, s, source.scoped()) is target]
    return Link(rng.choice(good), target) if good else None


def text_piece(rng):
    return " ".join(rng.choice(WORDS) for _ in range(rng.randint(1, 4)))


def message_line(rng, table, source, targets, allow_empty=False):
    """One line as a list of components (str | Link); never starts with white space, '@' or a link preceded by white space."""
    if allow_empty and rng.random() < 0.1:
        return []
    comps = []
    n = rng.randint(1, 3)
    for i in range(n):
        if targets and rng.random() < 0.3:
            l = link_to(rng, table, source, rng.choice(targets))
            if l is not None:
                if comps and isinstance(comps[-1], str):
                    comps[-1] += " "
                comps.append(l)
                continue
        piece = text_piece(rng)
        if comps:
            piece = " " + piece
        if comps and isinstance(comps[-1], str):
            comps[-1] += piece
        else:
            comps.append(piece)
    return comps


def add_comments(prog, rng, density=0.5, indent_choices=(" ", " ", "  ", "\t", "")):
    from .model import Comment, Operation, Param, Alias as A, Custom as C, Enum as E, Enumerator as En, Field as F, Interface as I, Struct as S
    table = prog.table()
    targets = linkable_entities(prog)
    for e in targets:
        if rng.random() > density:
            continue
        indent = rng.choice(indent_choices)
        overview = None
        if rng.random() < 0.8:
            overview = [message_line(rng, table, e, targets, allow_empty=(k > 0)) for k in range(rng.randint(1, 3))]
            if not overview[-1]:
                overview.append(message_line(rng, table, e, targets))
        params, returns = [], []
        if isinstance(e, Operation):
            names = [p.id for p in e.params]
            rng.shuffle(names)
            for n in names[:rng.randint(0, len(names))]:
                params.append((n, [message_line(rng, table, e, targets) for _ in range(rng.randint(1, 2))]))
            if e.returns and rng.random() < 0.6:
                if e.return_tuple:
                    rn = [p.id for p in e.returns]
                    for n in rn[:rng.randint(1, len(rn))]:
                        returns.append((n, [message_line(rng, table, e, targets)]))
                else:
                    returns.append((None, [message_line(rng, table, e, targets) for _ in range(rng.randint(1, 2))]))
        see = []
        for _ in range(rng.choice([0, 0, 1, 2])):
            l = link_to(rng, table, e, rng.choice(targets))
            if l is not None:
                see.append(l)
        if overview is None and not params and not returns and not see:
            overview = [message_line(rng, table, e, targets)]
        e.comment = Comment(overview, params, returns, see, indent)
