"""Generative model of Slice programs: plain data classes. Nothing here knows about slicec's implementation."""

KEYWORDS = {"module", "struct", "interface", "enum", "custom", "typealias", "Result", "Sequence", "Dictionary", "bool", "int8",
            "uint8", "int16", "uint16", "int32", "uint32", "varint32", "varuint32", "int64", "uint64", "varint62", "varuint62",
            "float32", "float64", "string", "compact", "idempotent", "stream", "tag", "unchecked"}

PRIMITIVES = ["bool", "int8", "uint8", "int16", "uint16", "int32", "uint32", "varint32", "varuint32", "int64", "uint64",
              "varint62", "varuint62", "float32", "float64", "string"]

INTEGRAL_BOUNDS = {
    "int8": (-2 ** 7, 2 ** 7 - 1), "uint8": (0, 2 ** 8 - 1), "int16": (-2 ** 15, 2 ** 15 - 1), "uint16": (0, 2 ** 16 - 1),
    "int32": (-2 ** 31, 2 ** 31 - 1), "uint32": (0, 2 ** 32 - 1), "varint32": (-2 ** 31, 2 ** 31 - 1), "varuint32": (0, 2 ** 32 - 1),
    "int64": (-2 ** 63, 2 ** 63 - 1), "uint64": (0, 2 ** 64 - 1), "varint62": (-2 ** 61, 2 ** 61 - 1), "varuint62": (0, 2 ** 62 - 1),
}

LINTS = ["All", "DuplicateFile", "Deprecated", "MalformedDocComment", "IncorrectDocComment", "BrokenDocLink"]


class Node:
    """Base: every model element gets printer-recorded positions in .pos (dict of name -> (r1, c1, r2, c2))."""

    def __init__(self):
        self.pos = {}


class Attr(Node):
    def __init__(self, directive, args=(), quoted=None):
        super().__init__()
        self.directive = directive          # e.g. "allow", "cs::type"
        self.args = list(args)              # argument values (unescaped)
        self.quoted = list(quoted) if quoted is not None else [not _is_ident(a) for a in self.args]  # print as string literal?


def _is_ident(s):
    return bool(s) and s[0].isascii() and s[0].isalpha() and all(c.isascii() and (c.isalnum() or c == "_") for c in s)


class IntLit(Node):
    def __init__(self, value, text=None):
        super().__init__()
        self.value = value
        self.text = text if text is not None else str(value)   # literal as written, sign included


class TypeExpr(Node):
    """kind: prim | seq | dict | result | named"""

    def __init__(self, kind, name=None, args=(), optional=False, attrs=()):
        super().__init__()
        self.kind = kind
        self.name = name            # primitive keyword, or the spelling of a named reference ("B::X", "::A::X")
        self.args = list(args)      # nested TypeExprs
        self.optional = optional
        self.attrs = list(attrs)
        self.target = None          # for named: the definition it is meant to designate (filled by the generator)

    def clone(self):
        t = TypeExpr(self.kind, self.name, [a.clone() for a in self.args], self.optional,
                     [Attr(a.directive, a.args, a.quoted) for a in self.attrs])
        t.target = self.target
        return t


class Comment(Node):
    """Doc comment: overview lines and tags. Each line is a list of components: str | Link."""

    def __init__(self, overview=None, params=(), returns=(), see=(), indent=" "):
        super().__init__()
        self.overview = overview            # list of lines (each a list of components) or None
        self.params = list(params)          # [(identifier, message_lines)]   message_lines: first is the inline part
        self.returns = list(returns)        # [(identifier|None, message_lines)]
        self.see = list(see)                # [Link]
        self.indent = indent                # whitespace written after '///' on every line
        self.raw_lines = None               # optional: verbatim lines (defect catalogue)


class Link(Node):
    def __init__(self, spelling, target=None):
        super().__init__()
        self.spelling = spelling
        self.target = target                # the entity it is meant to designate, or None (broken)


class Entity(Node):
    kind = "?"

    def __init__(self, ident, attrs=(), comment=None):
        super().__init__()
        self.id = ident
        self.attrs = list(attrs)
        self.comment = comment
        self.parent = None
        self.module = None      # module scoped name of the file it is in ("A::B")

    def scoped(self):
        if self.parent is not None:
            return self.parent.scoped() + "::" + self.id
        return self.module + "::" + self.id


class Field(Entity):
    kind = "field"

    def __init__(self, ident, type_, tag=None, attrs=(), comment=None):
        super().__init__(ident, attrs, comment)
        self.type = type_
        self.tag = tag          # IntLit | None


class Param(Entity):
    kind = "parameter"

    def __init__(self, ident, type_, tag=None, streamed=False, attrs=(), unnamed=False):
        super().__init__(ident, attrs, None)
        self.type = type_
        self.tag = tag
        self.streamed = streamed
        self.unnamed = unnamed  # single unnamed return value


class Struct(Entity):
    kind = "struct"

    def __init__(self, ident, fields=(), compact=False, attrs=(), comment=None):
        super().__init__(ident, attrs, comment)
        self.fields = list(fields)
        self.compact = compact
        for f in self.fields:
            f.parent = self


class Operation(Entity):
    kind = "operation"

    def __init__(self, ident, params=(), returns=(), return_tuple=False, idempotent=False, attrs=(), comment=None):
        super().__init__(ident, attrs, comment)
        self.params = list(params)
        self.returns = list(returns)        # [] | [Param(unnamed)] | [Param, Param, ...]
        self.return_tuple = return_tuple    # written with parentheses
        self.idempotent = idempotent
        for p in self.params + self.returns:
            p.parent = self


class Interface(Entity):
    kind = "interface"

    def __init__(self, ident, operations=(), bases=(), attrs=(), comment=None):
        super().__init__(ident, attrs, comment)
        self.operations = list(operations)
        self.bases = list(bases)            # [TypeExpr named]
        for o in self.operations:
            o.parent = self


class Enumerator(Entity):
    kind = "enumerator"

    def __init__(self, ident, value=None, fields=None, attrs=(), comment=None):
        super().__init__(ident, attrs, comment)
        self.value = value                  # IntLit | None (implicit)
        self.fields = list(fields) if fields is not None else None
        self.computed = None                # effective value (filled by Enum)
        for f in self.fields or []:
            f.parent = self


class Enum(Entity):
    kind = "enum"

    def __init__(self, ident, enumerators=(), underlying=None, compact=False, unchecked=False, attrs=(), comment=None):
        super().__init__(ident, attrs, comment)
        self.enumerators = list(enumerators)
        self.underlying = underlying        # TypeExpr prim | None
        self.compact = compact
        self.unchecked = unchecked
        for e in self.enumerators:
            e.parent = self
        self.compute_values()

    def compute_values(self):
        prev = None
        for e in self.enumerators:
            if e.value is not None:
                e.computed = e.value.value
            else:
                e.computed = 0 if prev is None else prev + 1
            prev = e.computed


class Custom(Entity):
    kind = "custom"


class Alias(Entity):
    kind = "alias"

    def __init__(self, ident, underlying, attrs=(), comment=None):
        super().__init__(ident, attrs, comment)
        self.underlying = underlying


class File(Node):
    def __init__(self, module, defs=(), attrs=(), module_attrs=()):
        super().__init__()
        self.module = module                # "A::B"
        self.defs = list(defs)
        self.attrs = list(attrs)            # file attributes [[...]]
        self.module_attrs = list(module_attrs)
        self.layout_seed = 0
        for d in self.defs:
            d.module = module
            _set_module(d, module)


def _set_module(e, module):
    e.module = module
    for child in children(e):
        _set_module(child, module)


def children(e):
    if isinstance(e, Struct):
        return e.fields
    if isinstance(e, Interface):
        return e.operations
    if isinstance(e, Operation):
        return e.params + e.returns
    if isinstance(e, Enum):
        return e.enumerators
    if isinstance(e, Enumerator):
        return e.fields or []
    return []


class Program:
    def __init__(self, files):
        self.files = list(files)

    def all_defs(self):
        for f in self.files:
            for d in f.defs:
                yield d

    def table(self):
        """scoped name -> entity, in 'last insertion wins' order is NOT modelled: valid programs have unique names."""
        t = {}
        for f in self.files:
            t.setdefault(f.module, ("module", f.module))
            parts = f.module.split("::")
            # `module A::B::C` declares A and A::B too: a name that designates an enclosing module designates a module, whether or
            # not some file spells that module out (decided after a bug-hunting sub-agent showed that the tree used to make
            # this depend on exactly that; repaired in the repository, see DESIGN.md section 7, row 29)
            for k in range(1, len(parts)):
                t.setdefault("::".join(parts[:k]), ("module", "::".join(parts[:k])))
            for d in f.defs:
                _add(t, d)
        return t


def _add(t, e):
    t[e.scoped()] = e
    for c in children(e):
        _add(t, c)
