"""Renders a model Program to text under a layout, recording the position of every token and element.

Positions are (row, col) counted in characters from 1; an extent is (r1, c1, r2, c2) with an exclusive end column,
i.e. the position just after the last character - which is how a location "after the token" is written.
"""
from .model import (KEYWORDS, Alias, Custom, Enum, Enumerator, Field, Interface, Link, Operation, Param, Struct)

WORD = set("abcdefghijklmnopqrstuvwxyzABCDEFGHIJKLMNOPQRSTUVWXYZ0123456789_")


class Layout:
    """Chooses the white space / comments between tokens and the optional commas."""

    def __init__(self, rng=None, style="plain"):
        self.rng = rng
        self.style = style
        self.eol = "\r\n" if style == "crlf" else "\n"

    def between(self, need_space, newline_hint=False, indent=0):
        s = self.style
        if s in ("plain", "crlf"):
            if newline_hint:
                return self.eol + "    " * indent
            return " " if need_space or True else ""
        if s == "dense":
            return " " if need_space else ""
        if s == "lines":
            return "\n"
        if s == "tabs":
            if newline_hint:
                return "\n" + "\t" * indent
            return "\t"
        # random
        rng = self.rng
        r = rng.random()
        if newline_hint and r < 0.5:
            return rng.choice(["\n", "\n    ", "\r\n  ", "\n\n", "\n\t"])
        if r < 0.45:
            return " "
        if r < 0.55 and not need_space:
            return ""
        if r < 0.65:
            return rng.choice(["  ", "\t", " \t ", "   "])
        if r < 0.75:
            return rng.choice(["\n", "\n  ", "\r\n", "\n\t\t", "\n\n"])
        if r < 0.85:
            return rng.choice([" /* c */ ", "/**/", " /* é中文 */ ", "/* a\n b */", " /* [x] { */ ", "/** d **/", "/***/", "/****/", " /* x **/ ",
                               "/* * / */", "/* // */", "/*/ */", "/* ** * */", "/**** x ****/", "/* \"s */", "/* a *//* b */",
                               "/* \n * x\n **/", "/* struct Hidden {} */", "/*\r\n*/"])
        if r < 0.93:
            return rng.choice([" // note\n", "// é “quoted” 中\n", " //// four slashes\n", "//\n  "])
        return " " if need_space else ""

    def comma(self, last):
        """Separator after a list element of an undelimited list: '' or ','. `last`: this is the last element."""
        s = self.style
        if s in ("plain", "crlf", "tabs"):
            return "" if last else ","
        if s == "dense":
            return "" if last else ","
        if s == "lines":
            return ""
        return self.rng.choice(["", ",", ","]) if not last else self.rng.choice(["", "", ","])


class Printer:
    def __init__(self, layout=None, file_name="string-0"):
        self.layout = layout or Layout()
        self.out = []
        self.row, self.col = 1, 1
        self.tokens = []        # (text, r1, c1, r2, c2)
        self.last_char = ""
        self.file_name = file_name
        self.indent = 0

    # ---- low level
    def raw(self, s):
        for ch in s:
            self.out.append(ch)
            if ch == "\n":
                self.row += 1
                self.col = 1
            else:
                self.col += 1
        if s:
            self.last_char = s[-1]

    def tok(self, text, newline_hint=False, glue=False):
        """Emits separator + token. Returns the index of the token."""
        if self.tokens or self.out:
            need = self._need_space(text)
            if glue and not need:
                sep = ""
            else:
                sep = self.layout.between(need, newline_hint, self.indent)
                if need and sep == "":
                    sep = " "
            self.raw(sep)
        r1, c1 = self.row, self.col
        self.raw(text)
        self.tokens.append((text, r1, c1, self.row, self.col))
        return len(self.tokens) - 1

    def _need_space(self, text):
        p = self.last_char
        if not p:
            return False
        n = text[0]
        if p in WORD and (n in WORD):
            return True
        if p == ":" and n == ":":
            return True
        if p == "[" and n == "[":
            return True
        if p == "]" and n == "]":
            return True
        if p == "-" and n == ">":
            return True
        if p == "/" and n in "/*":
            return True
        return False

    def newline(self):
        if self.last_char != "\n":
            self.raw(self.layout.eol)

    def extent(self, i, j=None):
        j = i if j is None else j
        return (self.tokens[i][1], self.tokens[i][2], self.tokens[j][3], self.tokens[j][4])

    def text(self):
        return "".join(self.out)

    # ---- identifiers
    def ident(self, name, attribute_mode=False, newline_hint=False):
        if not attribute_mode and name in KEYWORDS:
            return self.tok("\\" + name, newline_hint)
        if not attribute_mode and self.layout.rng is not None and self.layout.style == "random" and self.layout.rng.random() < 0.05:
            return self.tok("\\" + name, newline_hint)   # escaping a non-keyword is legal too
        return self.tok(name, newline_hint)

    def scoped(self, spelling, attribute_mode=False):
        """A (possibly '::'-prefixed) scoped identifier: tokens id (:: id)*. Returns (first, last) token indices."""
        parts = spelling.split("::")
        first = None
        if parts[0] == "":
            first = self.tok("::")
            parts = parts[1:]
            i = self.ident(parts[0], attribute_mode)
            # no white space needed; the layout decides
        else:
            i = self.ident(parts[0], attribute_mode)
            first = i
        last = i
        for p in parts[1:]:
            self.tok("::")
            last = self.ident(p, attribute_mode)
        return first, last

    # ---- attributes
    def attr_body(self, a):
        first, last = self.scoped(a.directive, attribute_mode=True)
        if a.args or (self.layout.rng is not None and self.layout.style == "random" and self.layout.rng.random() < 0.1):
            self.tok("(")
            for k, (arg, q) in enumerate(zip(a.args, a.quoted)):
                if q:
                    self.tok('"' + arg.replace("\\", "\\\\").replace('"', '\\"') + '"')
                else:
                    self.tok(arg)
                if k < len(a.args) - 1:
                    self.tok(",")
                elif self.layout.style == "random" and self.layout.rng.random() < 0.2:
                    self.tok(",")
            last = self.tok(")")
        a.pos["span"] = self.extent(first, last)
        a.pos["file"] = self.file_name

    def local_attrs(self, attrs, newline_hint=False):
        for a in attrs:
            self.tok("[", newline_hint)
            self.attr_body(a)
            self.tok("]")

    # ---- types
    def type_expr(self, t):
        first = len(self.tokens)
        self.local_attrs(t.attrs)
        if t.kind == "prim":
            self.tok(t.name)
        elif t.kind == "named":
            self.scoped(t.name)
        elif t.kind == "seq":
            self.tok("Sequence")
            self.tok("<")
            self.type_expr(t.args[0])
            self.tok(">")
        elif t.kind == "dict":
            self.tok("Dictionary")
            self.tok("<")
            self.type_expr(t.args[0])
            self.tok(",")
            self.type_expr(t.args[1])
            self.tok(">")
        elif t.kind == "result":
            self.tok("Result")
            self.tok("<")
            self.type_expr(t.args[0])
            self.tok(",")
            self.type_expr(t.args[1])
            self.tok(">")
        if t.optional:
            self.tok("?")
        t.pos["span"] = self.extent(first, len(self.tokens) - 1)
        t.pos["file"] = self.file_name

    def int_lit(self, lit):
        text = lit.text
        if text.startswith("-"):
            first = self.tok("-")
            last = self.tok(text[1:])
        else:
            first = last = self.tok(text)
        lit.pos["span"] = self.extent(first, last)

    def tag(self, lit):
        self.tok("tag")
        self.tok("(")
        self.int_lit(lit)
        self.tok(")")

    # ---- doc comments
    def comment(self, c):
        """Each line is '///' + text; always on its own line."""
        if c is None:
            return
        lines = c.raw_lines if c.raw_lines is not None else render_comment_lines(c)
        c.pos["lines"] = []
        for text in lines:
            self.newline()
            ind = "    " * self.indent if self.layout.style in ("plain", "crlf") else (
                self.layout.rng.choice(["", "  ", "\t", "      "]) if self.layout.rng is not None and self.layout.style == "random" else "")
            self.raw(ind)
            r, ccol = self.row, self.col
            self.raw("///" + text)
            c.pos["lines"].append((r, ccol, self.row, self.col))
            self.raw(self.layout.eol)
        c.pos["file"] = self.file_name

    def prelude(self, e):
        self.comment(e.comment)
        self.local_attrs(e.attrs, newline_hint=True)

    # ---- definitions
    def record(self, e, first, name_first, name_last, last):
        e.pos["first"] = (self.tokens[first][1], self.tokens[first][2])
        e.pos["id"] = self.extent(name_first, name_last)
        e.pos["ends"] = sorted(set((self.tokens[i][3], self.tokens[i][4]) for i in range(name_last, last + 1)))
        e.pos["last"] = (self.tokens[last][3], self.tokens[last][4])
        e.pos["file"] = self.file_name

    def members(self, items, fn):
        for k, m in enumerate(items):
            fn(m)
            c = self.layout.comma(k == len(items) - 1)
            if c:
                self.tok(c, glue=True)

    def field(self, f):
        self.prelude(f)
        first = len(self.tokens)
        if f.tag is not None:
            self.tag(f.tag)
            n = self.ident(f.id)
        else:
            n = self.ident(f.id, newline_hint=True)
        self.tok(":")
        self.type_expr(f.type)
        self.record(f, first, n, n, len(self.tokens) - 1)

    def param(self, p):
        self.prelude(p)
        first = len(self.tokens)
        if p.tag is not None:
            self.tag(p.tag)
        n = self.ident(p.id)
        self.tok(":")
        if p.streamed:
            self.tok("stream")
        self.type_expr(p.type)
        self.record(p, first, n, n, len(self.tokens) - 1)

    def struct(self, s):
        self.prelude(s)
        first = len(self.tokens)
        if s.compact:
            self.tok("compact", newline_hint=True)
            self.tok("struct")
        else:
            self.tok("struct", newline_hint=True)
        n = self.ident(s.id)
        self.tok("{")
        self.indent += 1
        self.members(s.fields, self.field)
        self.indent -= 1
        last = self.tok("}", newline_hint=True)
        self.record(s, first, n, n, last)

    def operation(self, o):
        self.prelude(o)
        first = len(self.tokens)
        if o.idempotent:
            self.tok("idempotent", newline_hint=True)
            n = self.ident(o.id)
        else:
            n = self.ident(o.id, newline_hint=True)
        self.tok("(")
        self.members(o.params, self.param)
        last = self.tok(")")
        if o.returns:
            self.tok("->")
            if o.return_tuple:
                self.tok("(")
                self.members(o.returns, self.param)
                last = self.tok(")")
            else:
                r = o.returns[0]
                rfirst = len(self.tokens)
                if r.tag is not None:
                    self.tag(r.tag)
                if r.streamed:
                    self.tok("stream")
                self.type_expr(r.type)
                last = len(self.tokens) - 1
                r.pos["first"] = (self.tokens[rfirst][1], self.tokens[rfirst][2])
                r.pos["id"] = None
                r.pos["ends"] = sorted(set((self.tokens[i][3], self.tokens[i][4]) for i in range(rfirst, last + 1)))
                r.pos["last"] = (self.tokens[last][3], self.tokens[last][4])
                r.pos["file"] = self.file_name
        self.record(o, first, n, n, last)

    def interface(self, i):
        self.prelude(i)
        first = len(self.tokens)
        self.tok("interface", newline_hint=True)
        n = self.ident(i.id)
        if i.bases:
            self.tok(":")
            for k, b in enumerate(i.bases):
                self.type_expr(b)
                if k < len(i.bases) - 1:
                    self.tok(",")
                elif self.layout.style == "random" and self.layout.rng.random() < 0.2:
                    self.tok(",")
        self.tok("{")
        self.indent += 1
        for o in i.operations:
            self.operation(o)
        self.indent -= 1
        last = self.tok("}", newline_hint=True)
        self.record(i, first, n, n, last)

    def enumerator(self, e):
        self.prelude(e)
        first = len(self.tokens)
        n = self.ident(e.id, newline_hint=True)
        last = n
        if e.fields is not None:
            self.tok("(")
            self.members(e.fields, self.field)
            last = self.tok(")")
        if e.value is not None:
            self.tok("=")
            self.int_lit(e.value)
            last = len(self.tokens) - 1
        self.record(e, first, n, n, last)

    def enum(self, e):
        self.prelude(e)
        first = len(self.tokens)
        hint = True
        if e.compact:
            self.tok("compact", newline_hint=hint)
            hint = False
        if e.unchecked:
            self.tok("unchecked", newline_hint=hint)
            hint = False
        self.tok("enum", newline_hint=hint)
        n = self.ident(e.id)
        if e.underlying is not None:
            self.tok(":")
            self.type_expr(e.underlying)
        self.tok("{")
        self.indent += 1
        self.members(e.enumerators, self.enumerator)
        self.indent -= 1
        last = self.tok("}", newline_hint=True)
        self.record(e, first, n, n, last)

    def custom(self, c):
        self.prelude(c)
        first = self.tok("custom", newline_hint=True)
        n = self.ident(c.id)
        self.record(c, first, n, n, n)

    def alias(self, a):
        self.prelude(a)
        first = self.tok("typealias", newline_hint=True)
        n = self.ident(a.id)
        self.tok("=")
        self.type_expr(a.underlying)
        self.record(a, first, n, n, len(self.tokens) - 1)

    def definition(self, d):
        {Struct: self.struct, Interface: self.interface, Enum: self.enum, Custom: self.custom, Alias: self.alias}[type(d)](d)

    def file(self, f, pp=None):
        """pp: optional callable(printer, where) that may insert preprocessor lines ('top', 'between', 'end')."""
        for a in f.attrs:
            self.tok("[[", newline_hint=True)
            self.attr_body(a)
            self.tok("]]")
        if pp:
            pp(self, "top")
        self.local_attrs(f.module_attrs, newline_hint=True)
        first = self.tok("module", newline_hint=True)
        nf, nl = self.scoped(f.module)
        f.pos["module_span"] = self.extent(first, nl)
        f.pos["module_id"] = self.extent(nf, nl)
        for d in f.defs:
            if pp:
                pp(self, "between")
            self.definition(d)
        if pp:
            pp(self, "end")
        if self.layout.style != "random" or self.layout.rng.random() < 0.8:
            self.newline()
        return self.text()


def render_comment_lines(c):
    """Text of each '///' line (without the slashes) for a well-formed model comment."""
    lines = []

    def comp(parts):
        out = []
        for p in parts:
            if isinstance(p, Link):
                out.append("{@link " + p.spelling + "}")
            else:
                out.append(p)
        return "".join(out)

    for line in c.overview or []:
        lines.append((c.indent + comp(line)) if line else "")
    def see_lines():
        blanks = getattr(c, "see_blank_after", None) or []
        for i, link in enumerate(c.see):
            lines.append(c.indent + "@see " + link.spelling)
            # empty '///' lines after a see tag (a separator before the next tag, or the end of the comment) change nothing
            lines.extend([""] * (blanks[i] if i < len(blanks) else 0))

    if getattr(c, "see_first", False):
        see_lines()
    for ident, msg in c.params:
        first = msg[0] if msg else None
        lines.append(c.indent + "@param " + ident + (": " + comp(first) if first is not None else ""))
        for more in msg[1:]:
            lines.append((c.indent + "    " + comp(more)) if more else "")
    for ident, msg in c.returns:
        first = msg[0] if msg else None
        lines.append(c.indent + "@returns" + (" " + ident if ident else "") + (": " + comp(first) if first is not None else ""))
        for more in msg[1:]:
            lines.append((c.indent + "    " + comp(more)) if more else "")
    if not getattr(c, "see_first", False):
        see_lines()
    return lines


def print_program(prog, layouts=None, pp=None):
    """Returns the list of file texts; positions are recorded on the model objects."""
    texts = []
    for i, f in enumerate(prog.files):
        layout = layouts[i] if layouts else Layout()
        p = Printer(layout, "string-%d" % i)
        texts.append(p.file(f, pp))
        f.pos["tokens"] = p.tokens
    return texts
