"""Reference resolver: the scoping rule exactly as C03 states it, over a table {scoped name -> entity}."""
from .model import PRIMITIVES, Alias, Custom, Enum, Struct


def lookup(table, spelling, module_scope):
    """Search module_scope::spelling, then each enclosing module scope outwards, finally the global scope.
    A spelling starting with '::' is looked up globally only. Returns the entity or None."""
    if spelling.startswith("::"):
        return table.get(spelling[2:])
    parts = module_scope.split("::") if module_scope else []
    while parts:
        cand = "::".join(parts) + "::" + spelling
        if cand in table:
            return table[cand]
        parts.pop()
    return table.get(spelling)


def is_type(entity):
    return isinstance(entity, (Struct, Enum, Custom, Alias))


def flatten_alias(table, alias):
    """Follows an alias to its final non-alias TypeExpr. Returns (type_expr, carried_attrs, chain) or (None, None, chain) on a loop
    or when a link of the chain designates nothing / not a type. carried_attrs are the attributes written on each alias's type."""
    chain = []
    carried = []
    cur = alias
    while True:
        if cur in chain:
            return None, None, chain
        chain.append(cur)
        t = cur.underlying
        carried.extend(t.attrs)
        if t.kind != "named":
            return t, carried, chain
        target = lookup(table, t.name, cur.module)
        if target is None or not is_type(target):
            return None, None, chain
        if isinstance(target, Alias):
            cur = target
            continue
        return t, carried, chain


def spellings_for(entity):
    """All ways to write a reference to a top-level definition, most specific last."""
    full = entity.scoped()
    parts = full.split("::")
    out = ["::" + full, full]
    for i in range(1, len(parts)):
        out.append("::".join(parts[i:]))
    return out
