"""Independent Slice2 wire reader/writer (Python), written from the property statements (C08, C10) - shares no code
with slice-codec. Also: a mini parser for slice/Compiler/*.slice and a schema-driven decoder of the generator request.
"""
import os
import re
import struct


class WireError(Exception):
    pass


class Reader:
    def __init__(self, data, pos=0):
        self.d = data
        self.p = pos

    def remaining(self):
        return len(self.d) - self.p

    def take(self, n):
        if n < 0 or self.p + n > len(self.d):
            raise WireError("need %d bytes at offset %d, have %d" % (n, self.p, len(self.d) - self.p))
        b = self.d[self.p:self.p + n]
        self.p += n
        return b

    def u8(self):
        return self.take(1)[0]

    def bool(self):
        b = self.u8()
        if b > 1:
            raise WireError("bool byte %d at offset %d" % (b, self.p - 1))
        return b == 1

    def varuint(self):
        if self.remaining() < 1:
            raise WireError("eof in varuint at %d" % self.p)
        n = 1 << (self.d[self.p] & 3)
        v = int.from_bytes(self.take(n), "little")
        return v >> 2

    def varint(self):
        if self.remaining() < 1:
            raise WireError("eof in varint at %d" % self.p)
        n = 1 << (self.d[self.p] & 3)
        v = int.from_bytes(self.take(n), "little", signed=True)
        return v >> 2

    def fixed(self, fmt):
        size = struct.calcsize(fmt)
        return struct.unpack("<" + fmt, self.take(size))[0]

    def string(self):
        n = self.varuint()
        try:
            return self.take(n).decode("utf-8")
        except UnicodeDecodeError as e:
            raise WireError("invalid utf-8 in string at %d: %s" % (self.p, e))


def enc_varuint(v):
    assert 0 <= v < (1 << 62)
    for code, nbytes in enumerate((1, 2, 4, 8)):
        if v < (1 << (8 * nbytes - 2)):
            return ((v << 2) | code).to_bytes(nbytes, "little")
    raise AssertionError


def enc_varint(v):
    assert -(1 << 61) <= v < (1 << 61)
    for code, nbytes in enumerate((1, 2, 4, 8)):
        bits = 8 * nbytes - 2
        if -(1 << (bits - 1)) <= v < (1 << (bits - 1)):
            return (((v << 2) | code) & ((1 << (8 * nbytes)) - 1)).to_bytes(nbytes, "little")
    raise AssertionError


def enc_string(s):
    b = s.encode("utf-8") if isinstance(s, str) else bytes(s)
    return enc_varuint(len(b)) + b


TAG_END = enc_varint(-1)


def enc_generated_file(path, contents):
    return enc_string(path) + enc_string(contents) + TAG_END


def enc_diagnostic(level, message, source=None):
    out = bytes([1 if source is not None else 0]) + bytes([level]) + enc_string(message)
    if source is not None:
        out += enc_string(source)
    return out + TAG_END


def enc_reply(files, diagnostics=()):
    """files: [(path, contents)], diagnostics: [(level, message, source|None)]"""
    out = enc_varuint(len(files))
    for p, c in files:
        out += enc_generated_file(p, c)
    out += enc_varuint(len(diagnostics))
    for d in diagnostics:
        out += enc_diagnostic(*d)
    return out


def dec_arguments(reader):
    n = reader.varuint()
    out = []
    for _ in range(n):
        k = reader.string()
        v = reader.string()
        out.append((k, v))
    return out


# ---------------------------------------------------------------------------------------------------------------
# mini parser for the Compiler schema (slice/Compiler/*.slice): structs, enums (with fields / with underlying),
# typealiases. Only what those files use.

PRIMS = {"bool", "int8", "uint8", "int16", "uint16", "int32", "uint32", "varint32", "varuint32", "int64", "uint64",
         "varint62", "varuint62", "float32", "float64", "string"}


def _strip_comments(text):
    text = re.sub(r"/\*.*?\*/", " ", text, flags=re.S)
    text = re.sub(r"//[^\n]*", " ", text)
    return text


def _tokenize(text):
    return re.findall(r"\[\[|\]\]|::|->|[A-Za-z_][A-Za-z0-9_]*|\\[A-Za-z_][A-Za-z0-9_]*|\"(?:[^\"\\]|\\.)*\"|[0-9]+|[{}()<>\[\],:=?-]", text)


class Schema:
    def __init__(self):
        self.structs = {}    # name -> [(field, type)]
        self.enums = {}      # name -> {"underlying": type|None, "unchecked": bool, "variants": [(name, [(field,type)]|None)]}
        self.aliases = {}    # name -> type
        self.operations = {}  # name -> (params [(n,t)], returns [(n,t)])

    def resolve(self, t):
        while isinstance(t, tuple) and t[0] == "named" and t[1] in self.aliases:
            opt = t[2]
            t2 = self.aliases[t[1]]
            if opt:
                t2 = _with_opt(t2, True)
            t = t2
        return t


def _with_opt(t, opt):
    return t[:-1] + (opt,)


class _P:
    def __init__(self, toks):
        self.t = toks
        self.i = 0

    def peek(self, k=0):
        return self.t[self.i + k] if self.i + k < len(self.t) else None

    def next(self):
        tok = self.t[self.i]
        self.i += 1
        return tok

    def expect(self, tok):
        got = self.next()
        if got != tok:
            raise WireError("schema parse: expected %r got %r at %d" % (tok, got, self.i))

    def ident(self):
        tok = self.next()
        return tok[1:] if tok.startswith("\\") else tok

    def skip_attrs(self):
        while self.peek() in ("[", "[["):
            close = "]" if self.peek() == "[" else "]]"
            while self.next() != close:
                pass

    def type(self):
        self.skip_attrs()
        tok = self.next()
        if tok == "Sequence":
            self.expect("<")
            e = self.type()
            self.expect(">")
            t = ("seq", e)
        elif tok == "Dictionary":
            self.expect("<")
            k = self.type()
            self.expect(",")
            v = self.type()
            self.expect(">")
            t = ("dict", k, v)
        elif tok == "Result":
            self.expect("<")
            k = self.type()
            self.expect(",")
            v = self.type()
            self.expect(">")
            t = ("result", k, v)
        elif tok in PRIMS:
            t = ("prim", tok)
        else:
            name = tok
            while self.peek() == "::":
                self.next()
                name = self.next()
            t = ("named", name)
        opt = False
        if self.peek() == "?":
            self.next()
            opt = True
        return t + (opt,)

    def fields(self, close):
        out = []
        while self.peek() != close:
            self.skip_attrs()
            if self.peek() == "tag":
                raise WireError("schema uses tagged fields; not supported by this reader")
            name = self.ident()
            self.expect(":")
            if self.peek() == "stream":
                self.next()
            ty = self.type()
            out.append((name, ty))
            if self.peek() == ",":
                self.next()
        self.expect(close)
        return out


def parse_schema(directory):
    schema = Schema()
    for fn in sorted(os.listdir(directory)):
        if not fn.endswith(".slice"):
            continue
        with open(os.path.join(directory, fn)) as f:
            toks = _tokenize(_strip_comments(f.read()))
        p = _P(toks)
        while p.peek() is not None:
            p.skip_attrs()
            tok = p.next()
            if tok == "module":
                p.ident()
                while p.peek() == "::":
                    p.next()
                    p.ident()
            elif tok in ("compact", "unchecked", "struct", "enum"):
                compact = unchecked = False
                while tok in ("compact", "unchecked"):
                    compact |= tok == "compact"
                    unchecked |= tok == "unchecked"
                    tok = p.next()
                name = p.ident()
                if tok == "struct":
                    if compact:
                        raise WireError("compact struct in schema not supported")
                    p.expect("{")
                    schema.structs[name] = p.fields("}")
                else:
                    underlying = None
                    if p.peek() == ":":
                        p.next()
                        underlying = p.type()
                    p.expect("{")
                    variants = []
                    while p.peek() != "}":
                        p.skip_attrs()
                        vname = p.ident()
                        vfields = None
                        if p.peek() == "(":
                            p.next()
                            vfields = p.fields(")")
                        if p.peek() == "=":
                            raise WireError("explicit enumerator values in schema not supported")
                        variants.append((vname, vfields))
                        if p.peek() == ",":
                            p.next()
                    p.expect("}")
                    schema.enums[name] = {"underlying": underlying, "unchecked": unchecked, "compact": compact,
                                          "variants": variants}
            elif tok == "typealias":
                name = p.ident()
                p.expect("=")
                schema.aliases[name] = p.type()
            elif tok == "interface":
                p.ident()
                p.expect("{")
                while p.peek() != "}":
                    p.skip_attrs()
                    if p.peek() == "idempotent":
                        p.next()
                    op = p.ident()
                    p.expect("(")
                    params = p.fields(")")
                    rets = []
                    if p.peek() == "->":
                        p.next()
                        if p.peek() == "(":
                            p.next()
                            rets = p.fields(")")
                        else:
                            rets = [("returnValue", p.type())]
                    schema.operations[op] = (params, rets)
                p.expect("}")
            elif tok == "custom":
                p.ident()
            else:
                raise WireError("schema parse: unexpected token %r" % tok)
    return schema


FIXED = {"int8": "b", "uint8": "B", "int16": "h", "uint16": "H", "int32": "i", "uint32": "I", "int64": "q",
         "uint64": "Q", "float32": "f", "float64": "d"}


def decode_value(schema, r, t):
    """Decodes one value of schema type t (non-optional position) from Reader r."""
    t = schema.resolve(t)
    kind = t[0]
    if kind == "prim":
        n = t[1]
        if n == "bool":
            return r.bool()
        if n == "string":
            return r.string()
        if n in ("varint32", "varint62"):
            v = r.varint()
            if n == "varint32" and not (-(1 << 31) <= v < (1 << 31)):
                raise WireError("varint32 out of range: %d" % v)
            return v
        if n in ("varuint32", "varuint62"):
            v = r.varuint()
            if n == "varuint32" and v >= (1 << 32):
                raise WireError("varuint32 out of range: %d" % v)
            return v
        return r.fixed(FIXED[n])
    if kind == "seq":
        if t[1][-1]:
            raise WireError("sequence of optionals not supported by this reader")
        n = r.varuint()
        if n > r.remaining():
            raise WireError("sequence announces %d elements with %d bytes left" % (n, r.remaining()))
        return [decode_value(schema, r, t[1]) for _ in range(n)]
    if kind == "dict":
        n = r.varuint()
        out = []
        for _ in range(n):
            k = decode_value(schema, r, t[1])
            v = decode_value(schema, r, t[2])
            out.append((k, v))
        return out
    if kind == "named":
        name = t[1]
        if name in schema.structs:
            return decode_struct(schema, r, name)
        if name in schema.enums:
            return decode_enum(schema, r, name)
        raise WireError("unknown schema type %s" % name)
    raise WireError("unsupported schema type %r" % (t,))


def decode_struct(schema, r, name):
    fields = schema.structs[name]
    optionals = [f for f in fields if schema.resolve(f[1])[-1] or f[1][-1]]
    present = {}
    if optionals:
        nbytes = (len(optionals) + 7) // 8
        bits = r.take(nbytes)
        for i, f in enumerate(optionals):
            present[f[0]] = bool(bits[i // 8] & (1 << (i % 8)))
        # unused bits must be zero
        for i in range(len(optionals), nbytes * 8):
            if bits[i // 8] & (1 << (i % 8)):
                raise WireError("struct %s: unused bit-sequence bit set" % name)
    out = {"_struct": name}
    for fname, ftype in fields:
        if fname in present:
            if present[fname]:
                out[fname] = decode_value(schema, r, _with_opt(ftype, False))
            else:
                out[fname] = None
        else:
            out[fname] = decode_value(schema, r, ftype)
    end = r.varint()
    if end != -1:
        raise WireError("struct %s: expected tag end marker, got %d at offset %d" % (name, end, r.p))
    return out


def decode_enum(schema, r, name):
    e = schema.enums[name]
    if e["underlying"] is not None:
        v = decode_value(schema, r, e["underlying"])
        if not e["unchecked"] and not (0 <= v < len(e["variants"])):
            raise WireError("enum %s: value %d" % (name, v))
        return {"_enum": name, "value": v, "name": e["variants"][v][0] if 0 <= v < len(e["variants"]) else None}
    disc = r.varint()
    if not (0 <= disc < len(e["variants"])):
        raise WireError("enum %s: discriminant %d at offset %d" % (name, disc, r.p))
    vname, vfields = e["variants"][disc]
    out = {"_enum": name, "variant": vname, "discriminant": disc}
    if e["compact"]:
        raise WireError("compact enum in schema not supported")
    for fname, ftype in (vfields or []):
        if schema.resolve(ftype)[-1] or ftype[-1]:
            raise WireError("optional enumerator field in schema not supported")
        out[fname] = decode_value(schema, r, ftype)
    end = r.varint()
    if end != -1:
        raise WireError("enum %s.%s: expected tag end marker, got %d at offset %d" % (name, vname, end, r.p))
    return out


def decode_request(schema, data):
    """Decodes a full generator request: operation name, source files, reference files, then the argument
    dictionary. Returns dict; raises WireError on any malformation or leftover bytes."""
    r = Reader(data)
    op = r.string()
    params, _rets = schema.operations.get(op, (None, None))
    if params is None:
        raise WireError("unknown operation %r" % op)
    out = {"operation": op}
    for pname, ptype in params:
        out[pname] = decode_value(schema, r, ptype)
        out["_end_" + pname] = r.p
    if r.remaining():
        raise WireError("%d bytes left over after the request" % r.remaining())
    return out
